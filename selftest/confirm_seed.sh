#!/bin/sh
# usage: confirm_seed.sh <src dir with patch.diff demo.py notes.md> <prop> <name>
# Confirms in a scratch worktree: patch applies, 30 tests pass with it, demo fails with it and passes without.
SRC="$1"; PROP="$2"; NAME="$3"
WT=$(mktemp -d /tmp/seedwt.XXXXXX)
git -C /repo worktree add -q --detach "$WT" HEAD || exit 2
res="ok"
( cd "$WT/python" && PYTHONPATH="$WT/python" /venv/bin/python "$SRC/demo.py" >/dev/null 2>&1 ) || res="demo-fails-on-pristine"
if [ "$res" = ok ]; then
  git -C "$WT" apply "$SRC/patch.diff" || res="apply-failed"
fi
if [ "$res" = ok ]; then
  ( cd "$WT" && /venv/bin/python -m pytest -q -p no:cacheprovider -x >/tmp/seed_pytest_$$.txt 2>&1 ) || res="tests-fail"
  tests=$(tail -1 /tmp/seed_pytest_$$.txt); rm -f /tmp/seed_pytest_$$.txt
fi
if [ "$res" = ok ]; then
  ( cd "$WT/python" && PYTHONPATH="$WT/python" /venv/bin/python "$SRC/demo.py" >/dev/null 2>&1 ) && res="demo-passes-with-change"
fi
git -C /repo worktree remove --force "$WT"
echo "$PROP/$NAME $res $tests"
[ "$res" = ok ]
