"""Neutral variant: rename the parameters (except self/cls) of every private function and method (name starts with one
underscore) in the hand-written modules, in the definition, the body and the keyword arguments of its call sites.
Usage: neutral_params.py <repo root>"""
import ast, sys, os

root = sys.argv[1]
files = []
for dp, dn, fns in os.walk(os.path.join(root, "python", "gherkin")):
    for fn in fns:
        if fn.endswith(".py") and fn not in ("inout.py",):
            files.append(os.path.join(dp, fn))
trees = {p: ast.parse(open(p, encoding="utf-8").read()) for p in files}
renames = {}    # function name -> {old param: new param}
for p, tree in trees.items():
    for n in ast.walk(tree):
        if isinstance(n, ast.FunctionDef) and n.name.startswith("_") and not n.name.startswith("__"):
            ps = [a.arg for a in n.args.posonlyargs + n.args.args + n.args.kwonlyargs if a.arg not in ("self", "cls")]
            m = renames.setdefault(n.name, {})
            for a in ps:
                m[a] = a + "_p"


class Body(ast.NodeTransformer):
    def __init__(self, m):
        self.m = m
    def visit_Name(self, node):
        if node.id in self.m:
            node.id = self.m[node.id]
        return node
    def visit_arg(self, node):
        if node.arg in self.m:
            node.arg = self.m[node.arg]
        return node
    def visit_Lambda(self, node):
        shadow = {a.arg for a in node.args.args}
        saved = self.m
        self.m = {k: v for k, v in self.m.items() if k not in shadow}
        self.generic_visit(node)
        self.m = saved
        return node


class Calls(ast.NodeTransformer):
    def visit_Call(self, node):
        self.generic_visit(node)
        nm = node.func.attr if isinstance(node.func, ast.Attribute) else node.func.id if isinstance(node.func, ast.Name) else None
        if nm in renames:
            for kw in node.keywords:
                if kw.arg in renames[nm]:
                    kw.arg = renames[nm][kw.arg]
        return node
    def visit_FunctionDef(self, node):
        if node.name in renames:
            Body(renames[node.name]).visit(node)
        self.generic_visit(node)
        return node


for p, tree in trees.items():
    tree = Calls().visit(tree)
    open(p, "w", encoding="utf-8").write(ast.unparse(tree) + "\n")
print(sum(len(v) for v in renames.values()), "parameters of", len(renames), "private functions renamed")
