#!/bin/sh
# sweep all sub-agent patches under /tmp/wt/out against their own property's check
cd /verif
for d in /tmp/wt/out/C*/[ab]; do
  prop=$(basename $(dirname $d)); v=$(basename $d)
  [ -f $d/patch.diff ] || continue
  git -C /repo apply $d/patch.diff 2>/dev/null || { echo "$prop/$v APPLY-FAILED"; continue; }
  out=$(./check $prop 2>&1); rc=$?
  first=$(echo "$out" | grep -m1 "REFUTED\|ANALYSIS-ERROR" | cut -c1-170)
  echo "$prop/$v rc=$rc $first"
  git -C /repo checkout -- .
done
