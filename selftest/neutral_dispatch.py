"""Neutral variant: split AstBuilder.transform_node's if-chain into one private method per rule, dispatched through a dict.
Usage: neutral_dispatch.py <repo root>"""
import ast, sys, os
root = sys.argv[1]
p = os.path.join(root, "python", "gherkin", "ast_builder.py")
src = open(p, encoding="utf-8").read()
tree = ast.parse(src)
cls = next(n for n in tree.body if isinstance(n, ast.ClassDef) and n.name == "AstBuilder")
tn = next(n for n in cls.body if isinstance(n, ast.FunctionDef) and n.name == "transform_node")
chain = tn.body[-1] if isinstance(tn.body[-1], ast.If) else tn.body[0]
branches = []
cur = chain
default = None
while isinstance(cur, ast.If):
    name = cur.test.comparators[0].value
    branches.append((name, cur.body))
    if len(cur.orelse) == 1 and isinstance(cur.orelse[0], ast.If):
        cur = cur.orelse[0]
    else:
        default = cur.orelse
        break
methods = []
for name, body in branches:
    fn = ast.parse(f"def _transform_{name}(self, node: AstNode) -> object:\n    pass").body[0]
    fn.body = body
    methods.append(fn)
new_tn = ast.parse('''
def transform_node(self, node: AstNode) -> object:
    handlers = {%s}
    handler = handlers.get(node.rule_type)
    if handler is None:
        return node
    return handler(node)
''' % ", ".join(f'"{n}": self._transform_{n}' for n, _ in branches)).body[0]
idx = cls.body.index(tn)
cls.body[idx:idx + 1] = methods + [new_tn]
ast.fix_missing_locations(tree)
open(p, "w", encoding="utf-8").write(ast.unparse(tree) + "\n")
