#!/bin/sh
# usage: selftest/try_patch.sh <patch.diff> <Cxx> [more props...]   -- apply to /repo, run checks, undo
P="$1"; shift
cd /verif || exit 2
git -C /repo apply "$P" || { echo "APPLY-FAILED $P"; exit 3; }
for prop in "$@"; do
  out=$(./check "$prop" 2>&1); rc=$?
  echo "== $prop rc=$rc"
  echo "$out" | grep -E "REFUTED|ANALYSIS-ERROR|expected:|found:" | head -${LINES_MAX:-12}
done
git -C /repo checkout -- . 
git -C /repo status --short | grep -v '^??' | head -3
