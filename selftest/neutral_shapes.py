"""Mechanical neutral variants that change the shape of expressions and statements, not what they compute.
Usage: neutral_shapes.py <repo root> <mode>
  flip     operands of == / != swapped (a == b -> b == a), `not a == b` left alone
  invert   if c: A else: B  ->  if not c: B else: A   (both arms present, no elif)
  ternary  x = a if c else b  ->  if c: x = a / else: x = b   (simple name or attribute targets)
  nest     a guard clause `if c: return v` followed by more statements -> if c: return v / else: <the rest>
  swapif   a if c else b  ->  b if not c else a
  augplain x += <number or string constant>  ->  x = x + <constant>   (name and attribute targets)
  temps    return <call or operation>  ->  result_value = <...>; return result_value
  fstring  string concatenations with + of constants and str(...) / names -> f-strings (only chains containing a string constant)
"""
import ast, sys, os

root, mode = sys.argv[1], sys.argv[2]


class Flip(ast.NodeTransformer):
    def visit_Compare(self, node):
        self.generic_visit(node)
        if len(node.ops) == 1 and isinstance(node.ops[0], (ast.Eq, ast.NotEq)):
            node.left, node.comparators = node.comparators[0], [node.left]
        return node


class Invert(ast.NodeTransformer):
    def visit_If(self, node):
        self.generic_visit(node)
        if node.orelse and not (len(node.orelse) == 1 and isinstance(node.orelse[0], ast.If)):
            t = node.test
            node.test = t.operand if isinstance(t, ast.UnaryOp) and isinstance(t.op, ast.Not) else ast.UnaryOp(op=ast.Not(), operand=t)
            node.body, node.orelse = node.orelse, node.body
        return node


class Ternary(ast.NodeTransformer):
    def visit_Assign(self, node):
        if len(node.targets) == 1 and isinstance(node.targets[0], (ast.Name, ast.Attribute)) and isinstance(node.value, ast.IfExp):
            v = node.value
            import copy
            a = ast.Assign(targets=[copy.deepcopy(node.targets[0])], value=v.body, lineno=node.lineno)
            b = ast.Assign(targets=[copy.deepcopy(node.targets[0])], value=v.orelse, lineno=node.lineno)
            return ast.If(test=v.test, body=[a], orelse=[b])
        return node


class Nest(ast.NodeTransformer):
    def _block(self, stmts):
        out = []
        for i, s in enumerate(stmts):
            if isinstance(s, ast.If) and not s.orelse and s.body and isinstance(s.body[-1], ast.Return) and i + 1 < len(stmts) \
                    and not any(isinstance(x, (ast.Yield, ast.YieldFrom)) for r in stmts[i + 1:] for x in ast.walk(r)):
                s.orelse = self._block(stmts[i + 1:])
                out.append(s)
                return out
            out.append(s)
        return out
    def visit_FunctionDef(self, node):
        self.generic_visit(node)
        if not node.name.startswith("match_token_at_"):
            node.body = self._block(node.body)
        return node


class FString(ast.NodeTransformer):
    def visit_BinOp(self, node):
        parts = []
        def flat(n):
            if isinstance(n, ast.BinOp) and isinstance(n.op, ast.Add):
                flat(n.left); flat(n.right)
            else:
                parts.append(n)
        flat(node)
        is_str = lambda p: isinstance(p, ast.Constant) and isinstance(p.value, str)
        strcall = lambda p: isinstance(p, ast.Call) and isinstance(p.func, ast.Name) and p.func.id == "str" and len(p.args) == 1 and not p.keywords
        if len(parts) >= 2 and any(is_str(p) for p in parts) and all(is_str(p) or strcall(p) for p in parts):
            vals = []
            for p in parts:
                if is_str(p):
                    vals.append(ast.Constant(value=p.value))
                else:
                    vals.append(ast.FormattedValue(value=self.visit(p.args[0]), conversion=-1, format_spec=None))
            return ast.copy_location(ast.JoinedStr(values=vals), node)
        self.generic_visit(node)
        return node


class SwapIf(ast.NodeTransformer):
    def visit_IfExp(self, node):
        self.generic_visit(node)
        t = node.test
        node.test = t.operand if isinstance(t, ast.UnaryOp) and isinstance(t.op, ast.Not) else ast.UnaryOp(op=ast.Not(), operand=t)
        node.body, node.orelse = node.orelse, node.body
        return node


class AugPlain(ast.NodeTransformer):
    def visit_AugAssign(self, node):
        import copy
        if isinstance(node.target, (ast.Name, ast.Attribute)) and isinstance(node.value, ast.Constant) and isinstance(node.value.value, (int, str)) \
                and not isinstance(node.value.value, bool):
            load = copy.deepcopy(node.target)
            load.ctx = ast.Load()
            return ast.Assign(targets=[node.target], value=ast.BinOp(left=load, op=node.op, right=node.value), lineno=node.lineno)
        return node


class Temps(ast.NodeTransformer):
    def visit_FunctionDef(self, node):
        self.generic_visit(node)
        if node.name.startswith("match_token_at_") or any(isinstance(x, (ast.Yield, ast.YieldFrom)) for x in ast.walk(node)):
            return node
        class R(ast.NodeTransformer):
            def visit_FunctionDef(self, n):
                return n
            def visit_Lambda(self, n):
                return n
            def visit_Return(self, n):
                if n.value is not None and isinstance(n.value, (ast.Call, ast.BinOp, ast.IfExp, ast.Compare, ast.BoolOp, ast.JoinedStr, ast.Dict, ast.ListComp)):
                    return [ast.Assign(targets=[ast.Name(id="result_value", ctx=ast.Store())], value=n.value, lineno=n.lineno),
                            ast.Return(value=ast.Name(id="result_value", ctx=ast.Load()))]
                return n
        node.body = [x for s in node.body for x in (lambda r: r if isinstance(r, list) else [r])(R().visit(s))]
        return node


T = {"swapif": SwapIf, "augplain": AugPlain, "temps": Temps, "flip": Flip, "invert": Invert, "ternary": Ternary, "nest": Nest, "fstring": FString}[mode]
for dp, dn, fns in os.walk(os.path.join(root, "python", "gherkin")):
    for fn in fns:
        if fn.endswith(".py") and fn not in ("inout.py", "parser.py"):
            p = os.path.join(dp, fn)
            tree = T().visit(ast.parse(open(p, encoding="utf-8").read()))
            ast.fix_missing_locations(tree)
            open(p, "w", encoding="utf-8").write(ast.unparse(tree) + "\n")
