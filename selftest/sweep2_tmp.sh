#!/bin/sh
cd /verif
for d in /tmp/wt2/out/C*/[cde]; do
  prop=$(basename $(dirname $d)); v=$(basename $d)
  [ -f $d/patch.diff ] || continue
  git -C /repo apply $d/patch.diff 2>/dev/null || { echo "$prop/$v APPLY-FAILED"; continue; }
  out=$(./check $prop 2>&1); rc=$?
  first=$(echo "$out" | grep -m1 "REFUTED\|ANALYSIS-ERROR" | tr '\n' ' ' | cut -c1-190)
  echo "$prop/$v rc=$rc $first"
  git -C /repo checkout -- .
done
