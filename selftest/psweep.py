"""Parallel sweep of arbitrary patch directories against all (or given) checks, on scratch copies of /repo HEAD.
usage: python -m selftest.psweep neutral|breaking <dir>...   (breaking: property taken from the dir name Cxx)"""
import os, re, shutil, sys, tempfile
from concurrent.futures import ThreadPoolExecutor
sys.path.insert(0, os.path.dirname(os.path.dirname(os.path.abspath(__file__))))
from gsa import selftest as S

def main():
    kind = sys.argv[1]
    dirs = [d.rstrip("/") for d in sys.argv[2:] if os.path.exists(os.path.join(d, "patch.diff"))]
    allp = [f"C{i:02d}" for i in range(1, 20)]
    base = tempfile.mkdtemp(prefix="gsa-sweep-base-")
    try:
        assert S._export(base)
        def task(d):
            if kind == "breaking":
                m = re.search(r"(C\d\d)", d)
                props = allp if os.environ.get("ALLPROPS") else [m.group(1)]
            else:
                props = allp
            return d, S._one("neutral", d, os.path.join(d, "patch.diff"), props, base)
        with ThreadPoolExecutor(max_workers=16) as ex:
            for d, r in ex.map(task, dirs):
                if r["status"] == "skipped":
                    print("==", d, "SKIPPED", r.get("why")); continue
                fired = {p: v for p, v in r["results"].items() if v["exit"] != 0}
                print("==", d, ":", " ".join(f"{p}({v['exit']})" for p, v in fired.items()) or "silent")
                if os.environ.get("VERBOSE"):
                    for p, v in fired.items():
                        print(f"    [{p}] {v['first'][:200]}")
    finally:
        shutil.rmtree(base, ignore_errors=True)
main()
