"""Neutral variant: every if/elif chain that compares one subject with constants becomes a match statement.
Usage: neutral_match.py <repo root>"""
import ast, sys, os
root = sys.argv[1]
FILES = ["ast_builder.py", "token_matcher.py", "gherkin_line.py", "pickles/compiler.py"]


def chain_of(node):
    """[(const, body)], default body, subject source - or None."""
    cases = []
    subj = None
    cur = node
    while True:
        t = cur.test
        if not (isinstance(t, ast.Compare) and len(t.ops) == 1 and isinstance(t.ops[0], ast.Eq) and isinstance(t.comparators[0], ast.Constant)
                and isinstance(t.comparators[0].value, str)):
            return None
        s = ast.unparse(t.left)
        if subj is None:
            subj = s
        elif subj != s:
            return None
        if not isinstance(t.left, (ast.Name, ast.Attribute)):
            return None
        cases.append((t.comparators[0], cur.body, t.left))
        if len(cur.orelse) == 1 and isinstance(cur.orelse[0], ast.If):
            cur = cur.orelse[0]
        else:
            return cases, cur.orelse
    

class T(ast.NodeTransformer):
    n = 0
    def visit_If(self, node):
        c = chain_of(node)
        if c is None or len(c[0]) < 2:
            self.generic_visit(node)
            return node
        cases, default = c
        mcases = []
        for const, body, left in cases:
            body = [self.visit(b) for b in body]
            mcases.append(ast.match_case(pattern=ast.MatchValue(value=const), guard=None, body=body))
        if default:
            mcases.append(ast.match_case(pattern=ast.MatchAs(pattern=None, name=None), guard=None, body=[self.visit(b) for b in default]))
        T.n += 1
        return ast.Match(subject=cases[0][2], cases=mcases)

for f in FILES:
    p = os.path.join(root, "python", "gherkin", f)
    tree = ast.parse(open(p, encoding="utf-8").read())
    tree = T().visit(tree)
    ast.fix_missing_locations(tree)
    open(p, "w", encoding="utf-8").write(ast.unparse(tree) + "\n")
print(T.n, "chains converted")
