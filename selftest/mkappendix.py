"""Regenerate appendix I of DESIGN.md (which rule reports which seeded change) and refresh meta.json check results.
Runs every seeded change against its own property's check on a scratch copy of /repo HEAD (gsa.selftest machinery)."""
import json, os, re, shutil, sys, tempfile
from concurrent.futures import ThreadPoolExecutor

VERIF = os.path.dirname(os.path.dirname(os.path.abspath(__file__)))
sys.path.insert(0, VERIF)
from gsa import selftest as S


def main():
    sd = os.path.join(VERIF, "seeded")
    seeds = sorted(d for d in os.listdir(sd) if os.path.exists(os.path.join(sd, d, "meta.json")))
    base = tempfile.mkdtemp(prefix="gsa-appx-")
    try:
        assert S._export(base)

        def work(d):
            meta = json.load(open(os.path.join(sd, d, "meta.json")))
            r = S._one("breaking", d, os.path.join(sd, d, "patch.diff"), [meta["property"]], base)
            return d, meta, r
        with ThreadPoolExecutor(16) as ex:
            res = list(ex.map(work, seeds))
    finally:
        shutil.rmtree(base, ignore_errors=True)
    rows = []
    for d, meta, r in res:
        p = meta["property"]
        cr = r.get("results", {}).get(p, {"exit": None, "first": r.get("why", "")})
        m = re.search(r"REFUTED (\S+)", cr["first"] or "")
        rule = m.group(1) if m else None
        meta["check_result"] = {"command": f"./check {p} --tier quick on a scratch copy of /repo HEAD with the patch applied (gsa.selftest)",
                                "exit": cr["exit"], "first_refuted_rule": rule, "first_line": cr["first"]}
        json.dump(meta, open(os.path.join(sd, d, "meta.json"), "w"), indent=1, ensure_ascii=False)
        what = " ".join((meta.get("needs_to_manifest") or "").split())[:150].replace("|", "/")
        rows.append(f"| {d} | {p} | {rule or ('exit ' + str(cr['exit']))} | {what} |")
    n = len(rows)
    reported = sum(1 for d, meta, r in res if meta["check_result"]["exit"] == 1)
    text = (f"## Appendix I - which rule reports which seeded change ({n} changes, {reported} reported)\n\n"
            "| seed | property | first rule that reports it | what the change is (from the seeder's notes) |\n|---|---|---|---|\n" + "\n".join(rows) + "\n")
    p = os.path.join(VERIF, "DESIGN.md")
    s = open(p, encoding="utf-8").read()
    i = s.index("## Appendix I")
    j = s.find("\n## ", i + 5)
    s = s[:i] + text + (s[j:] if j != -1 else "")
    open(p, "w", encoding="utf-8").write(s)
    print(n, "seeds,", reported, "reported")


main()
