#!/bin/sh
# sweep neutral patches: every check must exit 0
cd /verif
for d in "$@"; do
  [ -f $d/patch.diff ] || continue
  git -C /repo apply $d/patch.diff 2>/dev/null || { echo "$d APPLY-FAILED"; continue; }
  bad=""
  for p in C01 C02 C03 C04 C05 C06 C07 C08 C09 C10 C11 C12 C13 C14 C15 C16 C17 C18 C19; do
    out=$(./check $p 2>&1); rc=$?
    if [ $rc -ne 0 ]; then bad="$bad $p($rc)"; [ -n "$VERBOSE" ] && echo "$out" | grep -m2 "REFUTED\|ANALYSIS-ERROR" | cut -c1-220 | sed "s|^|    [$p] |"; fi
  done
  echo "== $d :${bad:- all pass}"
  git -C /repo checkout -- . ; git -C /repo clean -fdq python
done
