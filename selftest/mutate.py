"""Mutation probe of the *checkers*: generate single-point AST mutants of the hand-written modules, keep those the unit
suite does not kill, and report which of them every static check lets through (equivalent mutants or gaps to triage).
Usage: mutate.py <out.json> [jobs]   (scratch copies under a temp dir; /repo is never touched)"""
import ast, copy, json, os, shutil, subprocess, sys, tempfile
from concurrent.futures import ThreadPoolExecutor

VERIF = os.path.dirname(os.path.dirname(os.path.abspath(__file__)))
FILES = ["python/gherkin/ast_builder.py", "python/gherkin/ast_node.py", "python/gherkin/dialect.py", "python/gherkin/errors.py",
         "python/gherkin/gherkin_line.py", "python/gherkin/token.py", "python/gherkin/token_matcher.py", "python/gherkin/token_matcher_markdown.py",
         "python/gherkin/token_scanner.py", "python/gherkin/token_formatter_builder.py", "python/gherkin/pickles/compiler.py",
         "python/gherkin/stream/gherkin_events.py", "python/gherkin/stream/id_generator.py", "python/gherkin/stream/source_events.py",
         "python/gherkin/parser.py"]
CMP = {ast.Eq: ast.NotEq, ast.NotEq: ast.Eq, ast.Lt: ast.LtE, ast.LtE: ast.Lt, ast.Gt: ast.GtE, ast.GtE: ast.Gt, ast.In: ast.NotIn, ast.NotIn: ast.In,
       ast.Is: ast.IsNot, ast.IsNot: ast.Is}
METH = {"append": "extend", "strip": "lstrip", "lstrip": "strip", "rstrip": "strip", "startswith": "endswith", "popleft": "pop", "extend": "extendleft",
        "readline": "read", "get_items": "get_tokens", "get_single": "get_token", "search": "match", "sub": "subn"}


def mutants_of(src: str, rel: str):
    tree = ast.parse(src)
    sites = []
    in_state = False
    for node in ast.walk(tree):
        for f in ast.iter_child_nodes(node):
            f._parent = node
    def state_fn(n):
        p = n
        while p is not None:
            if isinstance(p, ast.FunctionDef) and p.name.startswith("match_token_at_"):
                return True
            p = getattr(p, "_parent", None)
        return False
    idx = 0
    for node in ast.walk(tree):
        if rel.endswith("parser.py") and state_fn(node):
            continue
        if isinstance(node, ast.Compare) and len(node.ops) == 1 and type(node.ops[0]) in CMP:
            sites.append(("cmp", node))
        elif isinstance(node, ast.BinOp) and isinstance(node.op, (ast.Add, ast.Sub)):
            sites.append(("binop", node))
        elif isinstance(node, ast.Constant) and isinstance(node.value, bool):
            sites.append(("bool", node))
        elif isinstance(node, ast.Constant) and isinstance(node.value, int) and not isinstance(node.value, bool):
            sites.append(("int+", node))
            sites.append(("int-", node))
        elif isinstance(node, ast.UnaryOp) and isinstance(node.op, ast.Not):
            sites.append(("not", node))
        elif isinstance(node, ast.BoolOp):
            sites.append(("boolop", node))
        elif isinstance(node, ast.Attribute) and node.attr in METH and isinstance(getattr(node, "_parent", None), ast.Call) and node._parent.func is node:
            sites.append(("meth", node))
        elif isinstance(node, (ast.Expr, ast.Assign, ast.AugAssign)) and not (isinstance(node, ast.Expr) and isinstance(node.value, ast.Constant)):
            sites.append(("del", node))
        elif isinstance(node, ast.If) and node.orelse and not isinstance(node.orelse[0], ast.If):
            sites.append(("swapif", node))
        elif isinstance(node, ast.Return) and node.value is not None and isinstance(node.value, ast.Constant) and isinstance(node.value.value, bool):
            pass
        # second operator set (MUT_SET=2)
        if isinstance(node, ast.Constant) and isinstance(node.value, str) and node.value and not isinstance(getattr(node, "_parent", None), ast.Expr) \
                and not isinstance(getattr(node, "_parent", None), ast.JoinedStr):
            sites.append(("str", node))
        if isinstance(node, ast.If):
            sites.append(("ifalways", node))
            sites.append(("ifnever", node))
        if isinstance(node, ast.IfExp):
            sites.append(("ifexp", node))
        if isinstance(node, ast.Return) and node.value is not None and not isinstance(node.value, ast.Constant):
            sites.append(("retnone", node))
        if isinstance(node, ast.Call) and len(node.args) == 2 and not node.keywords and not any(isinstance(a, ast.Starred) for a in node.args):
            sites.append(("swapargs", node))
        if isinstance(node, ast.AugAssign):
            sites.append(("aug2assign", node))
        if isinstance(node, ast.Slice) and (node.lower is not None or node.upper is not None):
            sites.append(("slice", node))
        if isinstance(node, (ast.Break, ast.Continue)):
            sites.append(("brk", node))
        if isinstance(node, ast.Subscript) and isinstance(node.slice, ast.Constant) and isinstance(node.slice.value, int):
            sites.append(("index", node))
    # third operator set (MUT_SET=3): order of adjacent statements, dropped operand, wrong variable
    for node in ast.walk(tree):
        if rel.endswith("parser.py") and state_fn(node):
            continue
        for fname in ("body", "orelse"):
            blk = getattr(node, fname, None)
            if isinstance(blk, list) and not isinstance(node, (ast.Module, ast.ClassDef)):
                for a, b2 in zip(blk, blk[1:]):
                    if isinstance(a, (ast.Expr, ast.Assign, ast.AugAssign)) and isinstance(b2, (ast.Expr, ast.Assign, ast.AugAssign)) \
                            and not (isinstance(a, ast.Expr) and isinstance(a.value, ast.Constant)):
                        sites.append(("swapstmt", a))
        if isinstance(node, ast.BoolOp) and len(node.values) >= 2:
            sites.append(("dropoperand", node))
        if isinstance(node, ast.FunctionDef):
            params = [a.arg for a in node.args.args if a.arg not in ("self", "cls")]
            if len(params) >= 2:
                for n2 in ast.walk(node):
                    if isinstance(n2, ast.Name) and isinstance(n2.ctx, ast.Load) and n2.id in params:
                        sites.append(("wrongvar", n2))
    second = {"str", "ifalways", "ifnever", "ifexp", "retnone", "swapargs", "aug2assign", "slice", "brk", "index"}
    third = {"swapstmt", "dropoperand", "wrongvar"}
    which = os.environ.get("MUT_SET", "1")
    if which == "1":
        sites = [x for x in sites if x[0] not in second | third]
    elif which == "2":
        sites = [x for x in sites if x[0] in second]
    elif which == "3":
        sites = [x for x in sites if x[0] in third]
    out = []
    for k, (kind, node) in enumerate(sites):
        t2 = copy.deepcopy(tree)
        # locate the same node by position/type
        target = None
        for n in ast.walk(t2):
            if type(n) is type(node) and getattr(n, "lineno", None) == getattr(node, "lineno", None) and getattr(n, "col_offset", None) == getattr(node, "col_offset", None) \
                    and getattr(n, "end_col_offset", None) == getattr(node, "end_col_offset", None):
                target = n
                break
        if target is None:
            continue
        desc = None
        if kind == "cmp":
            target.ops = [CMP[type(target.ops[0])]()]
            desc = "comparison operator flipped"
        elif kind == "binop":
            target.op = ast.Sub() if isinstance(target.op, ast.Add) else ast.Add()
            desc = "+ <-> -"
        elif kind == "bool":
            target.value = not target.value
            desc = "boolean constant flipped"
        elif kind == "int+":
            target.value = target.value + 1
            desc = "integer constant + 1"
        elif kind == "int-":
            target.value = target.value - 1
            desc = "integer constant - 1"
        elif kind == "not":
            par = None
            for n in ast.walk(t2):
                for fname, val in ast.iter_fields(n):
                    if val is target:
                        setattr(n, fname, target.operand)
                        par = n
                    elif isinstance(val, list) and target in val:
                        val[val.index(target)] = target.operand
                        par = n
            if par is None:
                continue
            desc = "'not' removed"
        elif kind == "boolop":
            target.op = ast.Or() if isinstance(target.op, ast.And) else ast.And()
            desc = "and <-> or"
        elif kind == "meth":
            desc = f".{target.attr} -> .{METH[target.attr]}"
            target.attr = METH[target.attr]
        elif kind == "del":
            for n in ast.walk(t2):
                for fname, val in ast.iter_fields(n):
                    if isinstance(val, list) and target in val:
                        val[val.index(target)] = ast.Pass()
            desc = "statement deleted"
        elif kind == "swapif":
            target.body, target.orelse = target.orelse, target.body
            desc = "if/else branches swapped"
        elif kind == "str":
            v = target.value
            target.value = (v[:-1] if len(v) > 1 else ("x" if v != "x" else "y"))
            desc = "string constant changed"
        elif kind == "ifalways":
            target.test = ast.Constant(value=True)
            desc = "if condition -> True"
        elif kind == "ifnever":
            target.test = ast.Constant(value=False)
            desc = "if condition -> False"
        elif kind == "ifexp":
            target.body, target.orelse = target.orelse, target.body
            desc = "conditional expression arms swapped"
        elif kind == "retnone":
            target.value = ast.Constant(value=None)
            desc = "return value -> None"
        elif kind == "swapargs":
            target.args = [target.args[1], target.args[0]]
            desc = "call arguments swapped"
        elif kind == "aug2assign":
            new = ast.Assign(targets=[target.target], value=target.value)
            done = False
            for n in ast.walk(t2):
                for fname, val in ast.iter_fields(n):
                    if isinstance(val, list) and target in val:
                        val[val.index(target)] = new
                        done = True
            if not done:
                continue
            desc = "augmented assignment -> plain assignment"
        elif kind == "slice":
            if target.lower is not None:
                target.lower = None
            else:
                target.upper = None
            desc = "slice bound dropped"
        elif kind == "brk":
            for n in ast.walk(t2):
                for fname, val in ast.iter_fields(n):
                    if isinstance(val, list) and target in val:
                        val[val.index(target)] = ast.Pass()
            desc = "break/continue removed"
        elif kind == "swapstmt":
            done = False
            for n in ast.walk(t2):
                for fname in ("body", "orelse"):
                    blk = getattr(n, fname, None)
                    if isinstance(blk, list) and target in blk:
                        i_ = blk.index(target)
                        if i_ + 1 < len(blk):
                            blk[i_], blk[i_ + 1] = blk[i_ + 1], blk[i_]
                            done = True
            if not done:
                continue
            desc = "adjacent statements swapped"
        elif kind == "dropoperand":
            target.values = target.values[:-1] if len(target.values) > 2 else [target.values[0], target.values[0]]
            desc = "last operand of and/or dropped"
        elif kind == "wrongvar":
            fn = None
            for n in ast.walk(t2):
                if isinstance(n, ast.FunctionDef) and any(x is target for x in ast.walk(n)):
                    fn = n
            if fn is None:
                continue
            params = [a.arg for a in fn.args.args if a.arg not in ("self", "cls")]
            others = [p_ for p_ in params if p_ != target.id]
            if not others:
                continue
            desc = f"variable {target.id} -> {others[0]}"
            target.id = others[0]
        elif kind == "index":
            target.slice = ast.Constant(value=target.slice.value + 1 if target.slice.value >= 0 else target.slice.value - 1)
            desc = "constant index shifted"
        try:
            ast.fix_missing_locations(t2)
            new_src = ast.unparse(t2) + "\n"
            compile(new_src, rel, "exec")
        except Exception:
            continue
        out.append({"file": rel, "line": getattr(node, "lineno", None), "kind": kind, "desc": desc, "src": new_src,
                    "orig": ast.unparse(node)[:100]})
    return out


def export(dst):
    p1 = subprocess.Popen(["git", "-C", "/repo", "archive", "HEAD", "--", "python", "gherkin.berp", "gherkin-languages.json", "README.md", "MARKDOWN_WITH_GHERKIN.md",
                           "java/src/main/java/io/cucumber/gherkin/Parser.java", "go/parser.go", "ruby/lib/gherkin/parser.rb", "c/src/parser.c", "javascript/src/Parser.ts"],
                          stdout=subprocess.PIPE)
    subprocess.run(["tar", "-x", "-C", dst], stdin=p1.stdout)
    p1.wait()


def run_one(m, base):
    root = tempfile.mkdtemp(prefix="gsa-mut-")
    try:
        shutil.copytree(base, root, dirs_exist_ok=True)
        open(os.path.join(root, m["file"]), "w", encoding="utf-8").write(m["src"])
        r = subprocess.run(["/venv/bin/python", "-m", "pytest", "-q", "-x", "-p", "no:cacheprovider", "--timeout=60"], cwd=root, capture_output=True, text=True, timeout=300)
        if r.returncode != 0:
            return {**{k: v for k, v in m.items() if k != "src"}, "tests": "killed"}
        env = dict(os.environ, GSA_REPO=root, GSA_NO_EVIDENCE="1")
        fired = []
        errs = []
        for i in range(1, 20):
            p = f"C{i:02d}"
            c = subprocess.run(["/venv/bin/python", "-B", "-m", "gsa.main", p], cwd=VERIF, env=env, capture_output=True, text=True)
            if c.returncode == 1:
                fired.append(p)
            elif c.returncode == 2:
                errs.append(p)
        return {**{k: v for k, v in m.items() if k != "src"}, "tests": "survived", "fired": fired, "analysis_error": errs}
    except subprocess.TimeoutExpired:
        return {**{k: v for k, v in m.items() if k != "src"}, "tests": "timeout"}
    finally:
        shutil.rmtree(root, ignore_errors=True)


def main():
    out = sys.argv[1]
    jobs = int(sys.argv[2]) if len(sys.argv) > 2 else 14
    base = tempfile.mkdtemp(prefix="gsa-mut-base-")
    try:
        export(base)
        # normalise baseline through ast.unparse so diffs are the mutation only
        muts = []
        for rel in FILES:
            src = open(os.path.join(base, rel), encoding="utf-8").read()
            muts += mutants_of(src, rel)
        print(len(muts), "mutants", flush=True)
        with ThreadPoolExecutor(max_workers=jobs) as ex:
            res = list(ex.map(lambda m: run_one(m, base), muts))
    finally:
        shutil.rmtree(base, ignore_errors=True)
    json.dump(res, open(out, "w"), indent=1)
    surv = [r for r in res if r["tests"] == "survived"]
    silent = [r for r in surv if not r["fired"] and not r["analysis_error"]]
    print(f"mutants {len(res)}, survived the unit suite {len(surv)}, of those reported by some check {len(surv) - len(silent)}, silent {len(silent)}")


if __name__ == "__main__":
    main()
