"""Neutral variant: re-emit every hand-written module through ast.unparse (formatting, comments and line numbers change;
behaviour does not).  Usage: neutral_unparse.py <repo root>"""
import ast, sys, os
root = sys.argv[1]
for dp, dn, fns in os.walk(os.path.join(root, "python", "gherkin")):
    for fn in fns:
        if fn.endswith(".py") and fn not in ("parser.py", "inout.py"):
            p = os.path.join(dp, fn)
            src = open(p, encoding="utf-8").read()
            out = ast.unparse(ast.parse(src)) + "\n"
            open(p, "w", encoding="utf-8").write(out)
