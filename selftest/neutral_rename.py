"""Neutral variant: rename every local variable (not parameters, not globals) in hand-written modules.
Usage: neutral_rename.py <repo root>"""
import ast, sys, os, builtins

class Renamer(ast.NodeTransformer):
    def __init__(self):
        self.stack = []
    def visit_FunctionDef(self, node):
        params = {a.arg for a in node.args.posonlyargs + node.args.args + node.args.kwonlyargs}
        if node.args.vararg: params.add(node.args.vararg.arg)
        if node.args.kwarg: params.add(node.args.kwarg.arg)
        stores = set()
        globs = set()
        for n in ast.walk(node):
            if isinstance(n, ast.Name) and isinstance(n.ctx, ast.Store):
                stores.add(n.id)
            if isinstance(n, (ast.Global, ast.Nonlocal)):
                globs |= set(n.names)
            if isinstance(n, ast.ExceptHandler) and n.name:
                stores.add(n.name)
        inner_defs = {n.name for n in ast.walk(node) if isinstance(n, (ast.FunctionDef, ast.ClassDef)) and n is not node}
        local = stores - params - globs - inner_defs
        self.stack.append({v: f"{v}_r" for v in local})
        self.generic_visit(node)
        self.stack.pop()
        return node
    def visit_Name(self, node):
        for m in reversed(self.stack):
            if node.id in m:
                node.id = m[node.id]
                break
        return node
    def visit_ExceptHandler(self, node):
        for m in reversed(self.stack):
            if node.name and node.name in m:
                node.name = m[node.name]
                break
        self.generic_visit(node)
        return node

root = sys.argv[1]
for dp, dn, fns in os.walk(os.path.join(root, "python", "gherkin")):
    for fn in fns:
        if fn.endswith(".py") and fn not in ("inout.py",):
            p = os.path.join(dp, fn)
            tree = ast.parse(open(p, encoding="utf-8").read())
            tree = Renamer().visit(tree)
            open(p, "w", encoding="utf-8").write(ast.unparse(tree) + "\n")
