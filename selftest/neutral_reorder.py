"""Neutral variant: (a) the methods of every class sorted by name (same-named definitions - overloads - keep their
relative order; everything that is not a method stays in front, in place), (b) ``import re / os / io / json`` uses rewritten
to ``from re import sub as re_sub`` style aliases.  Usage: neutral_reorder.py <repo root> [a|b|ab]"""
import ast, sys, os

root = sys.argv[1]
what = sys.argv[2] if len(sys.argv) > 2 else "ab"
MODS = ("re", "os", "io", "json", "itertools", "functools")


class Imports(ast.NodeTransformer):
    def __init__(self):
        self.used = {}
    def visit_Attribute(self, node):
        self.generic_visit(node)
        if isinstance(node.value, ast.Name) and node.value.id in MODS and isinstance(node.ctx, ast.Load) and node.value.id in self.mods:
            alias = f"{node.value.id}_{node.attr}"
            self.used[(node.value.id, node.attr)] = alias
            return ast.copy_location(ast.Name(id=alias, ctx=ast.Load()), node)
        return node


for dp, dn, fns in os.walk(os.path.join(root, "python", "gherkin")):
    for fn in fns:
        if not fn.endswith(".py") or fn in ("inout.py", "parser.py"):
            continue
        p = os.path.join(dp, fn)
        tree = ast.parse(open(p, encoding="utf-8").read())
        if "a" in what:
            for c in ast.walk(tree):
                if isinstance(c, ast.ClassDef):
                    head = [s for s in c.body if not isinstance(s, ast.FunctionDef)]
                    meths = [s for s in c.body if isinstance(s, ast.FunctionDef)]
                    # constructor first (readers expect it), the rest by name; stable for same-named definitions
                    meths.sort(key=lambda m: (m.name != "__init__", m.name))
                    c.body = head + meths
        if "b" in what:
            tr = Imports()
            tr.mods = {a.name for s in tree.body if isinstance(s, ast.Import) for a in s.names if a.name in MODS and a.asname is None}
            # os.path.exists: attribute of attribute - left alone (only direct module attributes are rewritten)
            tree = tr.visit(tree)
            if tr.used:
                new = []
                for (m, a), alias in sorted(tr.used.items()):
                    new.append(ast.ImportFrom(module=m, names=[ast.alias(name=a, asname=alias)], level=0))
                idx = max(i for i, s in enumerate(tree.body) if isinstance(s, (ast.Import, ast.ImportFrom))) + 1
                tree.body[idx:idx] = new
                ast.fix_missing_locations(tree)
        open(p, "w", encoding="utf-8").write(ast.unparse(tree) + "\n")
