"""Regenerates /verif/MANIFEST.json from the table below (kept valid at all times)."""
from __future__ import annotations

import importlib
import json
import os

VERIF = os.path.dirname(os.path.dirname(os.path.abspath(__file__)))

TECH = {
    "C01": "exception-flow + guard-dominance + automaton reachability (ast call graph, table extraction)",
    "C02": "table extraction from generated code + product with grammar-derived reference transducer + sibling table diff",
    "C03": "reader/writer agreement vs grammar, value-flow normal forms of builder branches",
    "C04": "linear-term value flow of column arithmetic, finite-class abstract interpretation of the cell splitter",
    "C05": "data-table analysis of the dialect JSON + role/keyword-type value flow + regex normal form",
    "C06": "emission-skeleton normal form of the compiler (abstract interpretation over a term/heap domain)",
    "C07": "list provenance normal form + alias/mutation effects",
    "C08": "list provenance normal form per call context + alias/mutation effects",
    "C09": "substitution-primitive taint rule + slot provenance",
    "C10": "loop-carried fold normal form, value-set analysis",
    "C11": "id-draw order projection, generator typestate, provenance of references",
    "C12": "finite-class abstract interpretation of the splitter loop, regex normal forms, guard rules",
    "C13": "automaton rule on doc string states + matcher typestate + field write-set ownership",
    "C14": "automaton rule per state (expected lists, error tail) + message normal form + sibling diff",
    "C15": "attribute write-set / reset coverage analysis, alias and mutation effects, shared-object rule",
    "C16": "normalisation-point rules on the single matched-token sink and scanner",
    "C17": "yield-order projection, key-set/None-flow analysis against TypedDict declarations",
    "C18": "automaton rule (exactly one build per transition) + FIFO queue discipline of the look-ahead loops",
    "C19": "regex normal forms (re._parser), escape taint rule, column term rule",
}


def main() -> None:
    checks = []
    na = []
    for n in range(1, 20):
        pid = f"C{n:02d}"
        try:
            mod = importlib.import_module(f"gsa.rules.{pid}")
        except ModuleNotFoundError:
            na.append({"property_id": pid, "reason": "check under construction in this session (static rules designed in DESIGN.md section 5, not yet armed)"})
            continue
        meta = getattr(mod, "META", {})
        if meta.get("not_applicable"):
            na.append({"property_id": pid, "reason": meta["not_applicable"]})
            continue
        level = meta.get("level", "other")
        checks.append({
            "property_id": pid,
            "quick_cmd": f"./check {pid} --tier quick",
            "thorough_cmd": f"./check {pid} --tier thorough",
            "evidence_file": f"/verif/evidence/{pid}.json",
            "replay_cmd_template": "./check --replay {path}",
            "engine": "gsa",
            "level_claimed": {
                "category": level,
                "text": meta.get("level_text", "static necessary conditions of the property, each decided on every path / table row of "
                                               "/repo's current source; listed with their residue in DESIGN.md"),
                "design_ref": f"DESIGN.md section 5, {pid}",
            },
            "level_note": meta.get("level_note", "trusted: CPython's ast module, the gsa analyser (self-tested on seeded variants), the "
                                                 "stdlib facts table of DESIGN.md appendix E; decides the structural clauses listed, not "
                                                 "concrete executions"),
            "technique": "static analysis: " + TECH[pid],
        })
    man = {
        "version": 1,
        "setup_cmd": "/venv/bin/python -B -c \"import ast,sys; sys.path.insert(0,'/verif'); import gsa.main\" || python3 -B -c \"import sys; sys.path.insert(0,'/verif'); import gsa.main\"",
        "hooks": {
            "guard": "CUCUMBER_GHERKIN_PYTHON_VERIF",
            "enable": "no hooks: the checks read /repo's source text only; nothing is built or run",
            "baseline_off_cmd": "cd /repo && /venv/bin/python -m pytest -ra -q -p no:cacheprovider --timeout=900 --continue-on-collection-errors",
            "source_commits": [],
            "add_only": True,
        },
        "engines": [{
            "name": "gsa",
            "path": "/verif/gsa",
            "serves_properties": [c["property_id"] for c in checks],
            "kind_free_text": "repository-specific static analyser (Python ast): parser-table extraction, grammar-derived reference "
                              "machine, sibling table diff, term/heap abstract interpretation for value-flow normal forms, "
                              "write-set/alias effects, exception flow, regex normal forms",
        }],
        "checks": checks,
        "not_applicable": na,
        "notes": "All checks are static (no gherkin module is imported or executed). Exit 0 holds / 1 VIOLATION / 2 ANALYSIS-ERROR. "
                 "Known findings: /verif/known_findings.json. Three genuine defects were repaired in /repo by fix: commits "
                 "1026d2f, d9ec033, c3491e5.",
    }
    with open(os.path.join(VERIF, "MANIFEST.json"), "w") as f:
        json.dump(man, f, indent=1)
    print(f"MANIFEST.json: {len(checks)} checks, {len(na)} not_applicable")


if __name__ == "__main__":
    main()
