"""./check driver: runs the rules of one property on /repo's working tree, writes evidence,
prints KNOWN-FINDING / VIOLATION lines and sets the exit code (0 holds, 1 violation, 2 analysis error)."""
from __future__ import annotations

import hashlib
import importlib
import json
import os
import sys
import time
import traceback

from . import common
from .common import AnalysisError, Report, load_known_findings, match_known, write_evidence, write_violation

PROPS = [f"C{n:02d}" for n in range(1, 20)]


def tree_digest(files) -> str:
    h = hashlib.sha256()
    for p in sorted(files):
        ap = common.repo_path(p)
        if os.path.exists(ap):
            h.update(p.encode())
            with open(ap, "rb") as f:
                h.update(f.read())
    return h.hexdigest()[:16]


def run_property(prop: str, tier: str, only: tuple | None = None) -> int:
    t0 = time.time()
    try:
        mod = importlib.import_module(f"gsa.rules.{prop}")
    except ModuleNotFoundError:
        print(f"ANALYSIS-ERROR property={prop} no rule module")
        return 2
    rep = Report(prop, tier)
    try:
        mod.run(rep)
    except AnalysisError as e:
        print(f"ANALYSIS-ERROR property={prop} {e}")
        return 2
    except Exception as e:  # analyser bug or unsupported construct: never a verdict
        tb = traceback.format_exc(limit=6)
        print(f"ANALYSIS-ERROR property={prop} internal: {type(e).__name__}: {e}")
        sys.stderr.write(tb)
        return 2
    if not rep.obs:
        print(f"ANALYSIS-ERROR property={prop} no obligations were generated (vacuous run)")
        return 2
    findings = load_known_findings()
    digest = tree_digest(rep.files)
    violations = []
    known_lines = []
    seen_known = set()
    for ob in rep.refuted():
        kf = match_known(ob, prop, findings)
        if kf is not None:
            key = (kf.get("rule"), kf.get("function"), kf.get("construct"))
            if key not in seen_known:
                seen_known.add(key)
                known_lines.append(f"KNOWN-FINDING: property={prop} {kf.get('what', ob.instance)}")
            continue
        violations.append(ob)
    meta = getattr(mod, "META", {})
    level = meta.get("level", "other")
    extra = {}
    if level == "translation_validation":
        extra = {"programs": rep.extra.get("programs", 1),
                 "disagreements_checked": rep.extra.get("disagreements_checked", len(rep.obs))}
    if only is not None:
        hit = [o for o in rep.refuted() if o.key() == only]
        print(("STILL-REFUTED " if hit else "NOT-REFUTED ") + json.dumps(list(only)))
        for o in hit:
            print(json.dumps(o.as_dict(), ensure_ascii=False))
        return 1 if hit else 0
    if tier == "thorough" and not os.environ.get("GSA_NO_EVIDENCE"):
        # validate the checker itself on the seeded corpus (scratch copies of HEAD); informational, never a verdict on /repo
        try:
            from . import selftest
            st = selftest.run([prop])
            summ = st.get("summary", {})
            extra["selftest"] = {k: v for k, v in summ.items() if k != "failed"}
            extra["selftest"]["failed_variants"] = [r["variant"] for r in summ.get("failed", [])]
            print(f"selftest[{prop}]: breaking {summ.get('breaking_reported')}/{summ.get('breaking_total')} reported, "
                  f"neutral {summ.get('neutral_silent')}/{summ.get('neutral_total')} silent, skipped {summ.get('skipped')}")
        except Exception as e:  # the self-test must never change the verdict
            extra["selftest"] = {"error": f"{type(e).__name__}: {e}"}
    wall = time.time() - t0
    if os.environ.get("GSA_NO_EVIDENCE"):
        for ln in known_lines:
            print(ln)
        for ob in violations:
            print(f"  REFUTED {ob.rule} [{ob.instance}] at {ob.file}:{ob.line} in {ob.function or '?'}")
            if os.environ.get("GSA_DETAILS"):
                print(f"    expected: {common.short(ob.expected, 1200)}\n    found:    {common.short(ob.found, 1200)}")
        return 1 if violations else 0
    write_evidence(prop, tier, level, rep, wall, len(violations), meta.get("explanation", ""),
                   meta.get("assumptions", []), extra, known_lines)
    for ln in known_lines:
        print(ln)
    nob = len(rep.obs)
    print(f"{prop} tier={tier} obligations={nob} discharged={nob - len(rep.refuted())} "
          f"rules={len({o.rule for o in rep.obs})} files={len(rep.files)} wall={wall:.2f}s tree={digest}")
    if violations:
        for ob in violations:
            loc = f"{ob.file}:{ob.line}" if ob.file else "?"
            print(f"  REFUTED {ob.rule} [{ob.instance}] at {loc} in {ob.function or '?'}\n"
                  f"    expected: {common.short(ob.expected, 400)}\n    found:    {common.short(ob.found, 400)}"
                  + (f"\n    note:     {ob.note}" if ob.note else ""))
            path = write_violation(prop, ob, digest)
            print(f"VIOLATION property={prop} replay={path}")
        return 1
    return 0


def main(argv: list[str]) -> int:
    tier = os.environ.get("VERIF_TIER", "quick")
    args = list(argv)
    if "--tier" in args:
        i = args.index("--tier")
        tier = args[i + 1]
        del args[i:i + 2]
    if tier not in ("quick", "thorough"):
        tier = "quick"
    if args and args[0] == "--replay":
        with open(args[1], encoding="utf-8") as f:
            rec = json.load(f)
        key = (rec["rule"], rec.get("function") or "", rec["instance"])
        return run_property(rec["property"], tier, only=key)
    if not args:
        print("usage: ./check <C01..C19|all> [--tier quick|thorough] | ./check --replay <record.json>")
        return 2
    if args[0] == "all":
        rc = 0
        for p in PROPS:
            r = run_property(p, tier)
            rc = max(rc, r)
        return rc
    return run_property(args[0], tier)


if __name__ == "__main__":
    sys.exit(main(sys.argv[1:]))
