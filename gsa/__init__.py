"""gsa - Gherkin Static Analysis: repository-specific static checkers for properties C01-C19."""
