"""ParserTable: AST extraction of the generated LL state machine in python/gherkin/parser.py.

Each ``match_token_at_N`` is read as an ordered decision list.  A *transition* is one path
through nested ``if`` tests that ends in ``return <int>``:

    conds       ordered calls ``self.match_K(context, token)`` / ``self.lookahead_n(context, token)``
    productions ordered ``('start', R)`` / ``('end', R)`` / ``('build',)`` effects
    target      the constant returned

The statements after the last test form the *error tail*.  Everything else in the class that
the table rules need (wrappers, dispatch map, look-ahead loops) is extracted here as well.
"""
from __future__ import annotations

import ast
import re

from .common import AnalysisError
from .names import N
from .facts import facts, FuncInfo

PARSER_CLASS = "gherkin.parser.Parser"
PARSER_FILE = "python/gherkin/parser.py"


class Transition:
    __slots__ = ("token", "lookahead", "productions", "target", "line", "extra_conds", "stmts")

    def __init__(self, token, lookahead, productions, target, line, extra_conds, stmts):
        self.token = token              # 'EOF', 'TagLine', ...
        self.lookahead = lookahead      # None | 'lookahead_0' ...
        self.productions = productions  # list of tuples
        self.target = target            # int | None (no constant return)
        self.line = line
        self.extra_conds = extra_conds  # unrecognised extra conditions (source text)
        self.stmts = stmts              # unrecognised statements in the body (source text)

    def sig(self):
        return (self.token, self.lookahead, tuple(self.productions), self.target)

    def __repr__(self):
        la = f"&{self.lookahead}" if self.lookahead else ""
        return f"{self.token}{la}:{self.productions}->{self.target}"


class Tail:
    def __init__(self):
        self.expected_tokens = None      # list[str] | None
        self.expected_line = None
        self.error_expr = None           # ast node of the error construction
        self.events = []                 # ordered: ('raise_if_stop',), ('add_error',), ('build',), ('return', n), ('other', src)
        self.line = None
        self.returns = []                # constants returned in the tail


class StateFn:
    def __init__(self, n: int, fi: FuncInfo):
        self.n = n
        self.fi = fi
        self.transitions: list[Transition] = []
        self.tail = Tail()
        self.comment = None


def _call_self(node: ast.AST):
    """Return (method_name, args) if node is ``self.<name>(...)``."""
    if isinstance(node, ast.Call) and isinstance(node.func, ast.Attribute) \
            and isinstance(node.func.value, ast.Name) and node.func.value.id == "self":
        return node.func.attr, node.args
    return None


def _flatten_and(test: ast.expr) -> list[ast.expr]:
    if isinstance(test, ast.BoolOp) and isinstance(test.op, ast.And):
        out = []
        for v in test.values:
            out.extend(_flatten_and(v))
        return out
    return [test]


def _strip_or_false(e: ast.expr) -> ast.expr:
    # generated look-ahead code uses ``(self.match_X(...) or False)``
    if isinstance(e, ast.BoolOp) and isinstance(e.op, ast.Or):
        vals = [v for v in e.values if not (isinstance(v, ast.Constant) and v.value is False)]
        if len(vals) == 1:
            return _strip_or_false(vals[0])
        return ast.BoolOp(op=ast.Or(), values=[_strip_or_false(v) for v in vals])
    return e


class ParserTable:
    def __init__(self) -> None:
        f = facts()
        self.cls = f.cls(PARSER_CLASS)
        self.module = self.cls.module
        self.states: dict[int, StateFn] = {}
        self.wrappers: dict[str, dict] = {}
        self.lookaheads: dict[str, dict] = {}
        self.dispatch: dict[int, str] = {}
        self.dispatch_else_raises = False
        self._extract_states()
        self._extract_wrappers()
        self._extract_lookaheads()
        self._extract_dispatch()

    # ---------------------------------------------------------------------------------
    def src(self, node: ast.AST) -> str:
        return ast.get_source_segment(self.module.src, node) or ast.dump(node)

    def _extract_states(self) -> None:
        for name, fi in self.cls.methods.items():
            m = re.fullmatch(r"match_token_at_(\d+)", name)
            if not m:
                continue
            st = StateFn(int(m.group(1)), fi)
            self._walk_state(st)
            self.states[st.n] = st
        if not self.states:
            raise AnalysisError("no match_token_at_N methods found in Parser")

    def _walk_state(self, st: StateFn) -> None:
        body = list(st.fi.node.body)
        # leading docstring allowed
        if body and isinstance(body[0], ast.Expr) and isinstance(body[0].value, ast.Constant) \
                and isinstance(body[0].value.value, str):
            body = body[1:]
        i = 0
        while i < len(body) and isinstance(body[i], ast.If) and self._is_token_test(body[i].test):
            self._walk_if(st, body[i], [], [])
            i += 1
        self._walk_tail(st, body[i:])

    def _is_token_test(self, test: ast.expr) -> bool:
        for c in _flatten_and(test):
            cs = _call_self(c)
            if cs and (cs[0].startswith("match_") or cs[0].startswith("lookahead_")):
                return True
        return False

    def _walk_if(self, st: StateFn, node: ast.If, conds: list, prods_prefix: list) -> None:
        conds = conds + _flatten_and(node.test)
        prods: list = list(prods_prefix)
        other: list[str] = []
        returned = False
        for s in node.body:
            if isinstance(s, ast.If):
                if prods != list(prods_prefix):
                    # productions before a nested test belong to every nested path
                    pass
                self._walk_if(st, s, conds, prods)
                continue
            if isinstance(s, ast.Expr):
                cs = _call_self(s.value)
                if cs and cs[0] in ("start_rule", "end_rule") and len(cs[1]) == 2 \
                        and isinstance(cs[1][1], ast.Constant):
                    prods.append(("start" if cs[0] == "start_rule" else "end", cs[1][1].value))
                    continue
                if cs and cs[0] == "build":
                    arg = cs[1][1] if len(cs[1]) == 2 else None
                    prods.append(("build", arg.id if isinstance(arg, ast.Name) else self.src(s)))
                    continue
                if isinstance(s.value, ast.Constant):
                    continue
            if isinstance(s, ast.Return):
                tgt = s.value.value if isinstance(s.value, ast.Constant) and isinstance(s.value.value, int) else None
                self._emit(st, conds, prods, tgt, node.lineno, other)
                returned = True
                break
            if isinstance(s, ast.Pass):
                continue
            other.append(self.src(s))
        if not returned and (prods != list(prods_prefix) or other):
            # effects on a path that falls through to the next test
            self._emit(st, conds, prods, None, node.lineno, other + ["<falls through>"])
        if node.orelse:
            for s in node.orelse:
                if isinstance(s, ast.If):
                    self._walk_if(st, s, conds[:-len(_flatten_and(node.test))] if _flatten_and(node.test) else conds, prods_prefix)
                else:
                    self._emit(st, [], [], None, s.lineno, ["<else> " + self.src(s)])

    def _emit(self, st: StateFn, conds, prods, target, line, other) -> None:
        token = None
        la = None
        extra = []
        for c in conds:
            cs = _call_self(c)
            if cs and cs[0].startswith("match_") and token is None:
                token = cs[0][len("match_"):]
            elif cs and cs[0].startswith("lookahead_") and la is None:
                la = cs[0]
            else:
                extra.append(self.src(c))
        st.transitions.append(Transition(token, la, prods, target, line, extra, other))

    def _walk_tail(self, st: StateFn, stmts: list[ast.stmt]) -> None:
        t = st.tail
        if stmts:
            t.line = stmts[0].lineno
        names: dict[str, ast.expr] = {}
        for s in stmts:
            if isinstance(s, ast.Assign) and len(s.targets) == 1 and isinstance(s.targets[0], ast.Name):
                nm = s.targets[0].id
                names[nm] = s.value
                if isinstance(s.value, ast.List) and all(
                        isinstance(e, ast.Constant) and isinstance(e.value, str) for e in s.value.elts) \
                        and all(e.value.startswith("#") for e in s.value.elts) and s.value.elts:
                    t.expected_tokens = [e.value for e in s.value.elts]
                    t.expected_line = s.lineno
                    t.expected_name = nm
                elif isinstance(s.value, ast.Constant) and isinstance(s.value.value, str):
                    if s.value.value.startswith("State:"):
                        st.comment = s.value.value
                else:
                    t.error_expr = s.value
                    t.error_name = nm
                continue
            if isinstance(s, ast.Expr) and isinstance(s.value, (ast.Attribute, ast.Constant)):
                continue  # ``token.detach`` (no call), stray constants
            if isinstance(s, ast.If):
                test = s.test
                if isinstance(test, ast.Attribute) and isinstance(test.value, ast.Name) \
                        and test.value.id == "self" and test.attr == "stop_at_first_error" \
                        and len(s.body) == 1 and isinstance(s.body[0], ast.Raise) and not s.orelse:
                    exc = s.body[0].exc
                    t.events.append(("raise_if_stop", exc.id if isinstance(exc, ast.Name) else self.src(exc)))
                    continue
                t.events.append(("other", self.src(s)))
                continue
            if isinstance(s, ast.Expr):
                cs = _call_self(s.value)
                if cs and cs[0] == N.ADD_ERROR:
                    arg = cs[1][1] if len(cs[1]) == 2 else None
                    t.events.append(("add_error", arg.id if isinstance(arg, ast.Name) else self.src(s)))
                    continue
                if cs and cs[0] in ("build", "start_rule", "end_rule"):
                    t.events.append((cs[0], self.src(s)))
                    continue
                t.events.append(("other", self.src(s)))
                continue
            if isinstance(s, ast.Return):
                v = s.value.value if isinstance(s.value, ast.Constant) else None
                t.events.append(("return", v))
                t.returns.append(v)
                continue
            if isinstance(s, ast.Raise):
                t.events.append(("raise", self.src(s)))
                continue
            t.events.append(("other", self.src(s)))
        t.names = names

    # ---------------------------------------------------------------------------------
    def _extract_wrappers(self) -> None:
        """``match_K(self, context, token)``: EOF guard + handle_external_error(..., matcher.match_K) - read off the normal form."""
        from .frame import analyse_wrapper_fn
        for name, fi in self.cls.methods.items():
            if not name.startswith("match_") or name.startswith("match_token"):
                continue
            kind = name[len("match_"):]
            self.wrappers[kind] = analyse_wrapper_fn(kind)

    def _extract_lookaheads(self) -> None:
        from .frame import analyse_lookahead
        for name, fi in self.cls.methods.items():
            if not re.fullmatch(r"lookahead_\d+", name):
                continue
            self.lookaheads[name] = analyse_lookahead(name)

    def _analyse_lookahead(self, fi: FuncInfo) -> dict:
        """Recognise the read-ahead loop:

            queue = []; match = False
            while True:
                token = self.read_token(context); queue.append(token)
                if <expected tests>: match = True; break
                if not (<skip tests>): break
            context.token_queue.extend(queue)
            return match
        """
        info = {"line": fi.node.lineno, "expected": [], "skip": [], "problems": [], "fi": fi}
        body = fi.node.body
        loops = [s for s in body if isinstance(s, ast.While)]
        if len(loops) != 1:
            info["problems"].append(f"expected exactly one while loop, found {len(loops)}")
            return info
        loop = loops[0]
        li = body.index(loop)
        if not (isinstance(loop.test, ast.Constant) and loop.test.value is True):
            info["problems"].append("loop condition is not the constant True")
        # --- before the loop: queue = [] ; match = False
        queue_var = None
        match_var = None
        pre: dict[str, ast.expr] = {}
        for s in body[:li]:
            if isinstance(s, ast.Assign) and len(s.targets) == 1 and isinstance(s.targets[0], ast.Name):
                pre[s.targets[0].id] = s.value
        # --- loop body
        tok_var = None
        read_idx = None
        append_idx = None
        first_exit_idx = None
        lb = loop.body
        for i, s in enumerate(lb):
            if isinstance(s, ast.Assign) and len(s.targets) == 1 and isinstance(s.targets[0], ast.Name):
                cs = _call_self(s.value)
                if cs and cs[0] == N.READ_TOKEN:
                    tok_var = s.targets[0].id
                    read_idx = i
                    continue
            if isinstance(s, ast.Expr) and isinstance(s.value, ast.Call) and isinstance(s.value.func, ast.Attribute) \
                    and s.value.func.attr == "append" and isinstance(s.value.func.value, ast.Name) \
                    and len(s.value.args) == 1 and isinstance(s.value.args[0], ast.Name) \
                    and s.value.args[0].id == tok_var and append_idx is None:
                queue_var = s.value.func.value.id
                append_idx = i
                continue
            if isinstance(s, ast.Expr) and isinstance(s.value, (ast.Attribute, ast.Constant)):
                continue
            if isinstance(s, ast.If):
                if first_exit_idx is None:
                    first_exit_idx = i
                test = _strip_or_false(s.test)
                neg = False
                if isinstance(test, ast.UnaryOp) and isinstance(test.op, ast.Not):
                    neg = True
                    test = _strip_or_false(test.operand)
                alts = test.values if isinstance(test, ast.BoolOp) and isinstance(test.op, ast.Or) else [test]
                kinds = []
                ok = True
                for a in alts:
                    cs = _call_self(a)
                    if cs and cs[0].startswith("match_") and len(cs[1]) == 2 and isinstance(cs[1][1], ast.Name) \
                            and cs[1][1].id == tok_var:
                        kinds.append(cs[0][len("match_"):])
                    else:
                        ok = False
                if not ok:
                    info["problems"].append(f"line {s.lineno}: unrecognised look-ahead test {self.src(s.test)}")
                    continue
                ends_break = bool(s.body) and isinstance(s.body[-1], ast.Break)
                if not ends_break or s.orelse:
                    info["problems"].append(f"line {s.lineno}: look-ahead test does not end in break")
                sets = [x for x in s.body[:-1]]
                if not neg:
                    info["expected"].extend(kinds)
                    ok_set = (len(sets) == 1 and isinstance(sets[0], ast.Assign) and isinstance(sets[0].targets[0], ast.Name)
                              and isinstance(sets[0].value, ast.Constant) and sets[0].value.value is True)
                    if ok_set:
                        match_var = sets[0].targets[0].id
                    else:
                        info["problems"].append(f"line {s.lineno}: expected-token branch does not set the result to True")
                else:
                    info["skip"].extend(kinds)
                    if sets:
                        info["problems"].append(f"line {s.lineno}: skip-exit branch has effects")
                continue
            info["problems"].append(f"line {s.lineno}: unrecognised statement in look-ahead loop: {self.src(s)}")
        if read_idx is None:
            info["problems"].append("loop does not read a token with self.read_token(context)")
        if append_idx is None:
            info["problems"].append("token read ahead is not appended to the local queue")
        elif first_exit_idx is not None and append_idx > first_exit_idx:
            info["problems"].append("token is appended to the queue after a loop exit (a read token can be lost)")
        elif read_idx is not None and append_idx < read_idx:
            info["problems"].append("queue append precedes the read")
        # queue must start empty, result must start False
        if queue_var is not None:
            qv = pre.get(queue_var)
            empty = (isinstance(qv, ast.List) and not qv.elts) or \
                    (isinstance(qv, ast.Call) and isinstance(qv.func, ast.Name) and qv.func.id in ("list", "deque") and not qv.args)
            if not empty:
                info["problems"].append("local queue is not initialised empty")
        if match_var is not None:
            mv = pre.get(match_var)
            if not (isinstance(mv, ast.Constant) and mv.value is False):
                info["problems"].append("result is not initialised to False")
        # --- after the loop: exactly one token_queue.extend(queue), then return match
        post = body[li + 1:]
        requeue = []
        ret = None
        for s in post:
            if isinstance(s, ast.Expr) and isinstance(s.value, ast.Call) and isinstance(s.value.func, ast.Attribute):
                fn = s.value.func
                if isinstance(fn.value, ast.Attribute) and fn.value.attr == N.CTX_QUEUE:
                    requeue.append((fn.attr, self.src(s.value.args[0]) if s.value.args else None, s.lineno))
                    continue
            if isinstance(s, ast.Return):
                ret = s.value
                continue
            if isinstance(s, ast.Expr) and isinstance(s.value, (ast.Attribute, ast.Constant)):
                continue
            info["problems"].append(f"line {s.lineno}: unrecognised statement after look-ahead loop: {self.src(s)}")
        info["requeue"] = requeue
        if len(requeue) != 1:
            info["problems"].append(f"expected exactly one re-queue of the read tokens, found {len(requeue)}")
        else:
            op, arg, ln = requeue[0]
            if op != "extend":
                info["problems"].append(f"line {ln}: tokens re-queued with token_queue.{op}(), not extend() (order/right end)")
            if arg != queue_var:
                info["problems"].append(f"line {ln}: re-queued object {arg} is not the local queue {queue_var}")
        if not (isinstance(ret, ast.Name) and ret.id == match_var):
            info["problems"].append("look-ahead does not return the match flag")
        # any return/raise/continue inside the loop?
        for n in ast.walk(loop):
            if isinstance(n, (ast.Return, ast.Raise, ast.Continue)):
                info["problems"].append(f"line {n.lineno}: {type(n).__name__.lower()} inside the look-ahead loop bypasses the re-queue")
        info["queue_var"] = queue_var
        info["tok_var"] = tok_var
        return info

    def _extract_dispatch(self) -> None:
        fi = self.cls.methods.get(N.MATCH_TOKEN)
        if fi is None:
            raise AnalysisError("anchor vanished: Parser.match_token")
        self.dispatch_fi = fi
        # the table of state methods, wherever the class keeps it (in match_token, a helper returning it, a class attribute);
        # that match_token really dispatches through it is decided on its normal form (rule_dispatch)
        holders = [fi.node] + [m.node for m in self.cls.methods.values() if m is not fi] + list(self.cls.class_attrs.values())
        for h in holders:
            for n in ast.walk(h):
                if isinstance(n, ast.Dict) and n.keys and all(isinstance(k, ast.Constant) and isinstance(k.value, int) for k in n.keys) \
                        and all(isinstance(v, (ast.Attribute, ast.Name)) for v in n.values):
                    for k, v in zip(n.keys, n.values):
                        nm = v.attr if isinstance(v, ast.Attribute) else v.id
                        if nm.startswith("match_token_at_"):
                            self.dispatch[k.value] = nm
            if self.dispatch:
                break
        for n in ast.walk(fi.node):
            if isinstance(n, ast.Raise):
                self.dispatch_else_raises = True

    # ---------------------------------------------------------------------------------
    def n_transitions(self) -> int:
        return sum(len(s.transitions) for s in self.states.values())

    def end_states(self) -> set[int]:
        tg = {t.target for s in self.states.values() for t in s.transitions if t.target is not None}
        return {x for x in tg if x not in self.states}


_PT: ParserTable | None = None


def ptable() -> ParserTable:
    global _PT
    if _PT is None:
        _PT = ParserTable()
    return _PT
