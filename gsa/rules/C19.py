"""C19 - the Markdown matcher recognises Gherkin lines as MARKDOWN_WITH_GHERKIN.md specifies."""
from . import markdown_rules as md, matcher_rules as mr, totality_rules as tr, dialect_rules as dr, misc_rules as ms
from . import line_rules as lr

META = {
    "level": "other",
    "explanation": "Regex normal forms (re._parser, character classes evaluated over a probe alphabet): header prefix = start, 1-6 '#', "
                   "one whitespace; bullet prefix = start, blanks, one of * + -, blanks; both group 1. The keyword pattern is prefix + "
                   "(alternation of re.escape'd keywords joined in the role's listed order) + ':' or '' + (.*), searched on the "
                   "left-trimmed line without flags; keyword = group 2, title = group 3 stripped, column = indent + len(group 1). "
                   "Role table as for the plain matcher. Table rows: 2-5 whitespace then '|' on the untrimmed line, GFM separator rows "
                   "rejected. Tags: finditer over backtick-quoted '@' words, column = indent + match start + 2. Doc string typestate "
                   "and reset coverage of the subclass.",
    "assumptions": ["re module semantics", "alternation order among keywords that prefix each other is the dialect's listed order (data, see C05)"],
}


def run(rep):
    md.rule_prefix(rep)
    md.rule_titles(rep)
    md.rule_table(rep)
    md.rule_tags(rep)
    md.rule_doc(rep)
    mr.rule_docstring_fsm(rep, "C19.docstring", cls_q=md.MDQ, openers=('"""', "````", "```"))
    mr.rule_reset(rep, "C19.reset", classes=(md.MDQ,))
    mr.rule_sink(rep, "C19.col", "C19.crlf", want=("col",))
    # "for every dialect": the keyword lists the patterns are built from are the table's own, and nothing computed for one
    # matcher or dialect is kept for another (no shared mutable state, no identity-keyed caches)
    dr.rule_data(rep, "C19.data")
    dr.rule_dialect(rep, "C19.dialect")
    ms.rule_shared(rep, "C19.shared")
    ms.rule_det(rep, "C19.det")
    # the matcher sees the line as scanned: exactly the text read, left-trimmed (no normalisation of any kind)
    lr.rule_scanner(rep, "C19.line", "C19.scan")
    lr.rule_line_basics(rep, "C19.trimmed")
    # no hidden state: what the property promises for one use must hold for every later use as well
    ms.rule_stateless(rep, "C19")
