"""C01: exception flow, partial operations, termination."""
from __future__ import annotations

import ast
import os
import re as _re
import re._parser as _sp

from ..absint import new_interp, Interp, HList, HDict, HInst, HGen, NONE, const, is_const, fmt, mk_not, mk_cmp, mk_cond
from ..astutil import unparse, dotted, xdotted, walk_no_nested_defs
from ..berp import grammar
from ..names import N
from ..common import AnalysisError, Report
from ..excflow import ExcFlow
from ..facts import facts
from .. import nf
from . import compiler_rules as cr, builder_rules as br, matcher_rules as mr

MDQ = "gherkin.token_matcher_markdown.GherkinInMarkdownTokenMatcher"
SKIP_CTOR = {f"{mr.MQ}.reset", f"{mr.MQ}.__init__", f"{MDQ}.reset", f"{MDQ}.__init__"}


def rule_exc(rep: Report, rid="C01.exc") -> None:
    E = ExcFlow()
    E.skip = set(SKIP_CTOR)
    f = E.f
    parser_error = "ParserError"
    def classify(r):
        return sorted({(a, b, c) for a, b, c in r})
    discharged_rt = []     # (exception, origin, line, reason)

    def dead_value_error(origin, line) -> bool:
        # ``if not token: raise ValueError`` where Token defines neither __bool__ nor __len__: the test is never true
        fi = f.func(origin)
        tokc = f.cls("gherkin.token.Token")
        has = any(m in c.methods for c in tokc.mro() for m in ("__bool__", "__len__"))
        for n in walk_no_nested_defs(fi.node):
            if isinstance(n, ast.If) and any(isinstance(x, ast.Raise) and x.lineno == line for x in n.body):
                t = n.test
                if isinstance(t, ast.UnaryOp) and isinstance(t.op, ast.Not) and isinstance(t.operand, ast.Name) and len(fi.params()) > 1 \
                        and t.operand.id == fi.params()[1] and not has:
                    return True
        return False

    assert_status: dict = {}

    def assertion(origin, line):
        """('proved' | 'refuted' | 'assumed', text) for the assert statement at ``line`` of ``origin``: the condition evaluated
        by the interpreter on the function alone, under the tests that dominate it."""
        if (origin, line) in assert_status:
            return assert_status[(origin, line)]
        res = ("assumed", "?")
        try:
            I_ = new_interp()
            tree_, _, _ = I_.run(origin)
            hits = [(n_, ctx_) for n_, ctx_ in nf.iter_nodes(tree_) if n_[0] == "assert" and n_[2] == line]
            verdicts = []
            for n_, ctx_ in hits:
                c_ = n_[1]
                txt = fmt(c_, I_)
                if is_const(c_):
                    verdicts.append(("proved" if c_[1] else "refuted", txt))
                    continue
                gs_ = nf.guards_in_ctx(ctx_)
                v_ = "assumed"
                try:
                    if nf.guards_imply(gs_, c_, True):
                        v_ = "proved"
                    elif nf.guards_imply(gs_, c_, False):
                        v_ = "refuted"
                except Exception:
                    pass
                verdicts.append((v_, txt))
            if verdicts:
                kinds_ = {v_ for v_, _ in verdicts}
                res = ("refuted" if "refuted" in kinds_ else "assumed" if "assumed" in kinds_ else "proved", verdicts[0][1])
        except AnalysisError:
            raise
        except Exception as e_:      # the function is outside what the interpreter models: nothing decided
            res = ("assumed", f"not evaluated ({type(e_).__name__})")
        assert_status[(origin, line)] = res
        return res

    for q, mode, allowed_root in (("gherkin.parser.Parser.parse", "collect", ["CompositeParserException"]),
                                  ("gherkin.parser.Parser.parse", "stop", None),
                                  ("gherkin.pickles.compiler.Compiler.compile", "collect", []),
                                  ("gherkin.stream.gherkin_events.GherkinEvents.enum", "collect", []),
                                  ("gherkin.stream.gherkin_events.GherkinEvents.enum", "stop", [])):
        fi = f.func(q)
        rep.used_function(q)
        r = E.raises(fi, mode)
        label = f"{q.rsplit('.', 2)[-2]}.{q.rsplit('.', 1)[-1]} ({'stop-at-first-error' if mode == 'stop' else 'collecting'} mode)"
        n_ok = 0
        for exc, origin, line in classify(r):
            b = E.bases(exc)
            ofi = f.func(origin)
            kw = dict(file=ofi.file, line=line, function=origin)
            if exc == "RuntimeError" and origin.endswith("Parser.match_token"):
                rep.ob(rid, f"{label}: 'Unknown state' RuntimeError is unreachable (every state returned is dispatched; see C01.state)", True, **kw,
                       expected="discharged by the automaton rule", found="raise exists, unreachable")
                continue
            if exc == "ValueError" and dead_value_error(origin, line):
                rep.ob(rid, f"{label}: ValueError guarded by 'not token' is dead (Token defines no truth value)", True, **kw, expected="dead branch", found="dead branch")
                continue
            if exc == "AssertionError" and origin.startswith("gherkin.pickles.compiler"):
                rep.ob(rid, f"{label}: the envelope-kind assertion cannot fail (builder creates only the kinds the compiler distinguishes; see C01.kinds)", True, **kw,
                       expected="discharged by exhaustiveness", found="assert exists")
                continue
            if exc == "AssertionError":
                # an assert states what its author holds to be impossible.  Decided where the condition can be evaluated (a
                # condition that is false on a path is a violation); otherwise taken as stated and listed - see DESIGN.md
                verdict, txt = assertion(origin, line)
                rep.ob(rid, f"{label}: assertion in {origin.rsplit('.', 1)[-1]} does not fail", verdict != "refuted", **kw,
                       expected="condition holds whenever the statement is reached",
                       found={"proved": "holds on every path (evaluated)", "assumed": "taken as stated by the author (not decided statically): ",
                              "refuted": "false on a path that reaches it: "}[verdict] + ("" if verdict == "proved" else txt))
                continue
            if allowed_root is None:
                ok = parser_error in b
                want = "a ParserError subclass"
            else:
                ok = exc in allowed_root
                want = allowed_root or "nothing"
            if ok:
                n_ok += 1
                continue
            rep.ob(rid, f"{label}: only the library's parser error may escape", False, **kw, expected=want, found=f"{exc} raised in {origin} can escape")
        rep.ob(rid, f"{label}: escape set is within the allowed set", True, file=fi.file, line=fi.node.lineno, function=q,
               expected="ParserError family" if allowed_root is None else (allowed_root or "no exception"), found=f"{len(r)} raise site(s) reach the entry point, {n_ok} of the allowed kind")
    rep.floor("explicit raise/assert sites", len({(s[1], s[2]) for s in E.sites}), 25)
    # the default dialect of a default-constructed matcher exists, and reset() re-applies a validated name
    import json
    from ..common import repo_path
    with open(repo_path("python/gherkin/gherkin-languages.json"), encoding="utf-8") as fh:
        data = json.load(fh)
    tm = f.func(f"{mr.MQ}.__init__")
    d = tm.node.args.defaults
    dflt = d[0].value if d and isinstance(d[0], ast.Constant) else None
    rep.ob(rid, "the matcher's default dialect exists in the table (constructing the default matcher cannot raise)", dflt in data, file=tm.file, line=tm.node.lineno,
           function=tm.qualname, expected="default name listed", found=dflt)
    # C01.kinds: envelope kinds created by the builder are covered by the compiler's case analysis
    b = br.bnf()
    for p, kinds in (("Feature", {"background", "scenario", "rule"}), ("Rule", {"background", "scenario"})):
        brn = b.branches.get(p)
        mr_ = br._main_return(b, brn) if brn else None
        found = set()
        if mr_:
            d2 = br._dict_of(b, mr_[0])
            ch = nf.strip_dropnone(d2["children"][0]) if d2 and "children" in d2 else None
            if ch is not None and ch[0] == "ref":
                for t in b.deep_terms(ch):
                    if t[0] == "ref" and isinstance(b.I.obj(t), HDict):
                        dd = nf.resolve_ref_dict(b.I, t, b.tree) or {}
                        if len(dd) == 1 and next(iter(dd)) in ("background", "scenario", "rule"):
                            found.add(next(iter(dd)))
        rep.eq("C01.kinds", f"{p}.children envelopes are exactly the kinds the compiler distinguishes", sorted(kinds), sorted(found), **br._kw(b, brn.line if brn else None))


# ---- partial operations --------------------------------------------------------------------------
def _all_nfs():
    """(label, Interp, tree, FuncInfo) for every analysed entry whose normal form covers the package's partial operations."""
    out = []
    for cq in (mr.MQ, MDQ):
        M = mr.mnf(cq)
        for k, m in M.methods.items():
            out.append((f"{cq.rsplit('.', 1)[-1]}.match_{k}", m.I, m.tree, m.fi))
    c = cr.cnf()
    out.append(("Compiler.compile", c.I, c.tree, c.fi))
    b = br.bnf()
    out.append(("AstBuilder.transform_node", b.I, b.tree, b.fi))
    for q in (f"gherkin.gherkin_line.GherkinLine.{N.TAGS}", f"gherkin.gherkin_line.GherkinLine.{N.TABLE_CELLS}", "gherkin.ast_builder.AstBuilder.build",
              "gherkin.ast_builder.AstBuilder.get_result", f"gherkin.token_matcher.TokenMatcher.{N.CHANGE_DIALECT}",
              "gherkin.errors.UnexpectedTokenException.__init__", "gherkin.errors.UnexpectedEOFException.__init__", "gherkin.errors.CompositeParserException.__init__",
              "gherkin.token_formatter_builder.TokenFormatterBuilder.get_result", "gherkin.stream.gherkin_events.create_errors"):
        I = new_interp()
        if not I.facts.has_func(q):
            continue
        fi = I.facts.func(q)
        tree, rv, st = I.run(q)
        out.append((q.split(".", 1)[1], I, tree, fi))
    return out


def _global_const(t):
    if t[0] == "global":
        m = facts().modules.get(t[1])
        v = m.globals.get(t[2]) if m else None
        if isinstance(v, ast.Constant) and isinstance(v.value, str):
            return v.value
    return None


def _pattern_safe(I, t, tree) -> tuple[bool, str]:
    """Is every dynamic part of a regex pattern term the result of re.escape?  Returns (ok, skeleton with § for escaped parts)."""
    k = t[0]
    if is_const(t) and isinstance(t[1], str):
        return True, t[1]
    g = _global_const(t)
    if g is not None:
        return True, g
    if k == "call" and t[1] == "re.escape":
        return True, "§"
    if k == "fstr":
        parts = [_pattern_safe(I, p, tree) for p in t[1]]
        return all(p[0] for p in parts), "".join(p[1] for p in parts)
    if k == "binop" and t[1] == "Add":
        a, b = _pattern_safe(I, t[2], tree), _pattern_safe(I, t[3], tree)
        return a[0] and b[0], a[1] + b[1]
    if k == "cond":
        a, b = _pattern_safe(I, t[2], tree), _pattern_safe(I, t[3], tree)
        return a[0] and b[0], a[1]
    if k == "call" and t[1] == ".join" and len(t[2]) == 2 and is_const(t[2][0]):
        seq = t[2][1]
        if seq[0] == "call" and seq[1] == "map" and len(seq[2]) == 2:
            fn = seq[2][0]
            if fn[0] == "lambda":
                try:
                    lam = ast.parse(fn[1], mode="eval").body
                    ok = isinstance(lam, ast.Lambda) and isinstance(lam.body, ast.Call) and xdotted(lam.body.func, I.closures[fn[3]][0].module if len(fn) > 3 and fn[3] in I.closures else None) == "re.escape" \
                        and len(lam.body.args) == 1 and isinstance(lam.body.args[0], ast.Name) and lam.body.args[0].id == lam.args.args[0].arg
                except SyntaxError:
                    ok = False
                return ok, "§" + t[2][0][1] + "§"
            if fn == ("extname", "re.escape"):
                return True, "§" + t[2][0][1] + "§"
        o = I.obj(seq)
        if isinstance(o, HList):
            segs = nf.list_content(I, seq, tree)
            if len(segs) == 1 and segs[0][0] == "loop" and len(segs[0][2]) == 1 and segs[0][2][0][0] == "e":
                ok, sk = _pattern_safe(I, segs[0][2][0][1], tree)
                return ok, sk + t[2][0][1] + sk
    return False, "<unescaped " + fmt(t, I)[:60] + ">"


def expand_guards(guards):
    """Close a guard set under what its members imply: a true conjunction makes every conjunct true, a false disjunction
    makes every disjunct false."""
    out = set()
    todo = list(guards)
    while todo:
        g, pol = todo.pop()
        g, pol = nf.norm_guard(g, pol)
        if (g, pol) in out:
            continue
        out.add((g, pol))
        if isinstance(g, tuple) and g and g[0] == "bool" and ((g[1] == "and" and pol) or (g[1] == "or" and not pol)):
            for x in g[2]:
                todo.append((x, pol))
    return out


def branch_guards(guards, c, pol):
    """Guards inside the ``pol`` branch of cond(c, ...): guards that are themselves cond(c, a, b) are resolved;
    returns None when the branch is infeasible under the guards."""
    cn, cp = nf.norm_guard(c, pol)
    out = set()
    for g, gp in guards:
        if isinstance(g, tuple) and g and g[0] == "cond":
            tn, tp = nf.norm_guard(g[1], True)
            if tn == cn:
                g = g[2] if (tp == cp) else g[3]
        if is_const(g):
            if bool(g[1]) != gp:
                return None
            continue
        if g == cn and gp != cp:
            return None
        out.add((g, gp))
    out.add((cn, cp))
    return expand_guards(out)


def _lift_conds(t):
    """A test of a value that is itself a choice - ``len(a if c else b) == 0``, ``(a if c else b) is None`` - as the choice
    between the tests of the alternatives."""
    if not isinstance(t, tuple) or not t:
        return t
    k = t[0]
    if k == "not":
        return ("not", _lift_conds(t[1]))
    if k == "bool":
        return ("bool", t[1], tuple(_lift_conds(x) for x in t[2]))
    if k == "cond":
        return ("cond", _lift_conds(t[1]), _lift_conds(t[2]), _lift_conds(t[3]))
    if k == "call" and t[1] == "len" and len(t[2]) == 1 and not t[3]:
        a = _lift_conds(t[2][0])
        if a[0] == "cond":
            return ("cond", a[1], _lift_conds(("call", "len", (a[2],), ())), _lift_conds(("call", "len", (a[3],), ())))
        return t
    if k == "cmp" and len(t) == 4:
        a = _lift_conds(t[2])
        if isinstance(a, tuple) and a and a[0] == "cond":
            return ("cond", a[1], _lift_conds(("cmp", t[1], a[2], t[3])), _lift_conds(("cmp", t[1], a[3], t[3])))
        return t
    return t


def _is_defaultdict(I, ref) -> bool:
    o = I.obj(ref)
    return getattr(o, "default_factory", None) is not None or getattr(o, "is_defaultdict", False)


def _key_ranges_over(I, base, key) -> bool:
    """``key`` is an element of an iteration over ``base`` itself (its keys / items)."""
    for x in nf.subterms(key):
        if x[0] == "elem":
            it = I.loops.get(x[1], {}).get("iter")
            if it == base or (isinstance(it, tuple) and it and it[0] == "call" and it[1] in (".keys", ".items", "sorted", "list", "enumerate") and it[2] and it[2][0] == base):
                return True
    return False


RE_FUNCS = {"re.sub", "re.search", "re.match", "re.split", "re.finditer", "re.findall", "re.fullmatch", "re.compile", "re.subn"}


def rule_partial(rep: Report, rid="C01.partial") -> None:
    f = facts()
    nfs = _all_nfs()
    # (i) regex sites
    ast_sites = set()
    n_level = 0         # patterns compiled at module / class level
    for fi in f.all_functions():
        if fi.module.name == "gherkin.inout" or fi.module.name.startswith("scripts"):
            continue
        for n in walk_no_nested_defs(fi.node):
            if isinstance(n, ast.Call) and xdotted(n.func, fi.module) in RE_FUNCS:
                ast_sites.add((fi.file, n.lineno))
    for m in f.modules.values():     # class-level / module-level compiled patterns
        if m.name == "gherkin.inout":
            continue
        for name, val in m.globals.items():
            if isinstance(val, ast.Call) and xdotted(val.func, m) == "re.compile":
                pat = val.args[0] if val.args else None
                ok = isinstance(pat, ast.Constant) and isinstance(pat.value, str)
                if ok:
                    try:
                        _sp.parse(pat.value)
                    except Exception:
                        ok = False
                n_level += 1
                rep.ob(rid + ".regex", f"module-level pattern {m.name}.{name} is a constant, well-formed regular expression", ok, file=m.rel, line=val.lineno,
                       function=m.name, expected="constant pattern", found=unparse(pat) if pat is not None else None)
        for c in m.classes.values():
            for name, val in c.class_attrs.items():
                if isinstance(val, ast.Call) and xdotted(val.func, m) == "re.compile":
                    pat = val.args[0] if val.args else None
                    ok = isinstance(pat, ast.Constant) and isinstance(pat.value, str)
                    if ok:
                        try:
                            _sp.parse(pat.value)
                        except Exception:
                            ok = False
                    n_level += 1
                    rep.ob(rid + ".regex", f"class-level pattern {c.name}.{name} is a constant, well-formed regular expression", ok, file=m.rel, line=val.lineno,
                           function=c.qualname, expected="constant pattern", found=unparse(pat) if pat is not None else None)
    seen = {}

    def uncovered_functions():
        out = []
        for key in sorted(ast_sites):
            if key in seen:
                continue
            for fn in f.all_functions():
                if fn.file == key[0] and fn.node.lineno <= key[1] <= (fn.node.end_lineno or 0) and fn not in out \
                        and any(getattr(x, "lineno", None) == key[1] for x in walk_no_nested_defs(fn.node)):
                    out.append(fn)
        return out

    def all_entries():
        yield from nfs
        # a call site none of the standard entry points reaches (a helper under a new name, a function only used from
        # outside): its own function is analysed as an entry point of its own
        for fn in uncovered_functions():
            I2 = new_interp()
            try:
                tree2, rv2, st2 = I2.run(fn.qualname)
            except AnalysisError:
                continue
            yield (fn.qualname, I2, tree2, fn)

    for label, I, tree, fi in all_entries():
        for n, ctx in nf.iter_nodes(tree):
            if n[0] == "extcall" and n[1] in RE_FUNCS:
                # attribute the site to the function whose source line it is
                file = None
                meth = n[1].rsplit(".", 1)[1]
                for fn in f.all_functions():
                    if fn.node.lineno <= (n[3] or 0) <= (fn.node.end_lineno or 0) and any(
                            isinstance(x, ast.Call) and x.lineno == n[3] and (xdotted(x.func, fn.module) == n[1] or (isinstance(x.func, ast.Attribute) and x.func.attr == meth))
                            for x in walk_no_nested_defs(fn.node)):
                        file = (fn.file, fn.qualname)
                        break
                if file is None:
                    continue
                key = (file[0], n[3])
                pat = n[2][0] if n[2] else None
                ok, sk = _pattern_safe(I, pat, tree) if pat is not None else (False, "?")
                parse_ok = True
                if ok:
                    try:
                        _sp.parse(sk.replace("§", "x"))
                    except Exception as e:
                        parse_ok = False
                prev = seen.get(key)
                if prev is None or (prev[0] and not (ok and parse_ok)):
                    seen[key] = (ok and parse_ok, sk, file[1], n[1], fmt(pat, I)[:160] if pat is not None else None)
                # replacement templates of re.sub must not be data
                if n[1] in ("re.sub", "re.subn") and len(n[2]) >= 2:
                    repl = n[2][1]
                    okr = is_const(repl) or repl[0] in ("lambda", "func", "localfunc") or (repl[0] == "call" and repl[1] == "re.escape")
                    if not okr and isinstance(repl, tuple):
                        # value.replace('\\\\', '\\\\\\\\') style escaping of backslashes
                        okr = repl[0] == "call" and repl[1] in (".replace", "re.sub") and any(is_const(a) and "\\" in str(a[1]) for a in repl[2])
                    rep.ob(rid + ".regex", "a re.sub replacement is a constant, a function, or has its backslashes escaped (data is never a replacement template)", okr,
                           file=file[0], line=n[3], function=file[1], expected="literal replacement", found=fmt(repl, I)[:120])
    # the same for the methods of compiled patterns the analysis keeps symbolic (a pattern held in a table, made per call ...):
    # ``<pattern>.sub(repl, text)`` / ``.subn`` / ``<match>.expand(template)``
    nsub = 0
    for label, I, tree, fi in nfs:
        for n, ctx in nf.iter_nodes(tree):
            if n[0] == "mcall" and n[1] in ("sub", "subn", "expand") and n[3]:
                repl = n[3][0]
                nsub += 1
                okr = is_const(repl) or repl[0] in ("lambda", "func", "localfunc", "bound", "partial") or (repl[0] == "call" and repl[1] == "re.escape")
                if not okr and isinstance(repl, tuple):
                    okr = repl[0] == "call" and repl[1] in (".replace", "re.sub") and any(is_const(a) and "\\" in str(a[1]) for a in repl[2])
                rep.ob(rid + ".regex", "a pattern's sub() replacement is a constant, a function, or has its backslashes escaped (data is never a replacement template)", okr,
                       file=fi.file if fi is not None else None, line=n[4], function=label, expected="literal replacement", found=fmt(repl, I)[:120])
    rep.counts["symbolic pattern.sub() sites"] = nsub
    for key in sorted(ast_sites):
        got = seen.get(key)
        if got is None:
            rep.ob(rid + ".regex", "every regular-expression call site is covered by the analysis", False, file=key[0], line=key[1], function="?",
                   expected="site reached by an analysed entry point", found="not reached (pattern not checked)")
            continue
        ok, sk, fn, call, shown = got
        rep.ob(rid + ".regex", f"{call}: the pattern is well-formed for every input (constant parts parse; dynamic parts are re.escape'd)", ok, file=key[0], line=key[1],
               function=fn, expected="constant text and re.escape(...) only", found=shown + "  => " + sk[:80])
    rep.floor("regular-expression call sites", len(ast_sites) + n_level, 2)
    # (ii) keys that may be absent (dropped by reject_nones) are only read under an 'in' test
    optional = {"dataTable", "docString", "mediaType", "tableHeader", "feature"}
    c = cr.cnf()
    nreads = 0
    reported = set()

    def walk_term(t, guards, line):
        nonlocal nreads
        if not isinstance(t, tuple) or not t:
            return
        if t[0] == "cond":
            walk_term(t[1], guards, line)
            for br_, pol in ((t[2], True), (t[3], False)):
                g2 = branch_guards(guards, t[1], pol)
                if g2 is not None:
                    walk_term(br_, g2, line)
            return
        if t[0] == "bool":
            # later operands are evaluated only when the earlier ones did not decide
            gs = set(guards)
            for x in t[2]:
                walk_term(x, gs, line)
                gs = expand_guards(gs | {nf.norm_guard(x, t[1] == "and")})
            return
        if t[0] == "item" and is_const(t[2]) and t[2][1] in optional:
            nreads += 1
            need = (("cmp", "In", t[2], t[1]), True)
            if need not in guards and (t, line) not in reported:
                reported.add((t, line))
                rep.ob(rid + ".keys", f"optional key '{t[2][1]}' is read only where its presence was tested", False, file=cr.CFILE, line=line, function=cr._fn_at(c, line),
                       expected=f"'{t[2][1]}' in {fmt(t[1], c.I)} on the path", found="unguarded read " + fmt(t, c.I))
        if t[0] == "ref":
            return
        for x in t:
            if isinstance(x, tuple):
                walk_term(x, guards, line)

    def node_terms(n):
        k = n[0]
        if k == "if":
            return [n[1]]
        if k == "loop":
            info = c.I.loops.get(n[1], {})
            return [x for x in (info.get("iter"), info.get("test")) if x is not None]
        if k == "mutate":
            return [n[1]] + list(n[3])
        if k in ("return", "raise", "yield"):
            return [n[1]]
        if k == "setitem":
            return [n[1], n[2], n[3]]
        if k == "alloc":
            o = c.I.obj(n[1])
            if isinstance(o, HDict):
                return [e[1] for e in o.entries] + [e[0] for e in o.entries if isinstance(e[0], tuple)]
            if isinstance(o, HList):
                out = []
                def segs(ss):
                    for s in ss:
                        if s[0] in ("e", "s"):
                            out.append(s[1])
                        elif s[0] == "loop":
                            segs(s[2])
                segs(o.segs)
                return out
        return []

    for n, ctx in nf.iter_nodes(c.tree):
        guards = expand_guards(nf.guards_in_ctx(ctx))
        line = c.line_of(n)
        for t in node_terms(n):
            walk_term(t, guards, line)
    rep.ob(rid + ".keys", "all reads of possibly-absent AST keys in the compiler are guarded by an 'in' test", True, file=cr.CFILE, function=c.fi.qualname,
           expected="guarded", found=f"{nreads} read(s) of {sorted(optional)} inspected")
    rep.floor("optional-key reads", nreads, 3)
    # (iii) constant index into a possibly-empty sequence
    g = grammar()
    justified = {
        ("first", "DocString", "DocStringSeparator"): lambda: g.children("DocString").get("DocStringSeparator") == "+",
        ("rows0", "DataTable"): lambda: g.children("DataTable").get("TableRow") == "+",
    }
    nidx = 0
    nkey = [0]
    for label, I, tree, fi in nfs:
        def walk(t, guards, line, I=I, tree=tree, fi=fi, label=label):
            nonlocal nidx
            if not isinstance(t, tuple) or not t:
                return
            if t[0] == "cond":
                walk(t[1], guards, line)
                for br_, pol in ((t[2], True), (t[3], False)):
                    g2 = branch_guards(guards, t[1], pol)
                    if g2 is not None:
                        walk(br_, g2, line)
                return
            if t[0] == "bool" and t[1] == "and":
                gs = set(guards)
                for x in t[2]:
                    walk(x, gs, line)
                    gs = gs | {nf.norm_guard(x, True)}
                return
            if t[0] == "item" and is_const(t[2]) and isinstance(t[2][1], int) and not isinstance(t[2][1], bool):
                base = t[1]
                nidx += 1
                ok = False
                why = None
                # guards: truthiness or length test of the same sequence
                ln_ = ("call", "len", (base,), ())
                for gcond, pol in guards:
                    if pol and (gcond == base or gcond == ln_ or (gcond[0] == "cmp" and gcond[1] == "Eq" and gcond[2] == ln_ and is_const(gcond[3])
                                                                  and isinstance(gcond[3][1], int) and gcond[3][1] >= 1)):
                        ok, why = True, "guarded"
                    # canonical order tests: ``len(xs) >= k`` is ``not len(xs) < k``
                    if not pol and gcond[0] == "cmp" and gcond[1] == "Lt" and gcond[2] == ln_ and is_const(gcond[3]) and isinstance(gcond[3][1], int) and gcond[3][1] >= 1:
                        ok, why = True, "guarded"
                    if not pol and gcond[0] == "cmp" and gcond[1] == "Eq" and gcond[2] == ln_ and is_const(gcond[3], 0):
                        ok, why = True, "guarded"
                if not ok:
                    # a composite guard (e.g. the truthiness of ``xs[0] if xs else None``) that can only hold when the sequence is non-empty
                    rel = [(_lift_conds(g[0]), g[1]) for g in guards if nf.contains(g[0], lambda x, b_=base: x == b_)]
                    for atom_, val_ in ((base, True), (ln_, True), (("cmp", "Lt", ln_, const(1)), False), (("cmp", "Eq", ln_, const(0)), False),
                                        (("cmp", "Gt", ln_, const(0)), True)):
                        try:
                            if nf.guards_imply(rel, atom_, val_):
                                ok, why = True, "guarded"
                                break
                        except Exception:
                            pass
                if not ok and base[0] == "call" and base[1] in ("re.split", ".split", ".rsplit", ".partition", ".splitlines") and t[2][1] == 0 and base[1] != ".splitlines" \
                        and not (base[1] in (".split", ".rsplit") and (len(base[2]) < 2 or is_const(base[2][1], None))):
                    # (with a separator; ``s.split()`` on blanks returns [] for an empty or all-blank string)
                    ok, why = True, "split never returns an empty list"
                if not ok and base[0] in ("tuple", "elem", "param?") or (base[0] == "item" and base[1][0] == "elem"):
                    ok, why = True, "tuple unpacking of an iteration element"
                if not ok and base[0] == "attr" and base[2] == "args":
                    ok, why = True, "exception args set by the constructor"
                if not ok and base[0] == "attr" and base[2] == N.STACK:
                    ok, why = True, "builder stack holds the root node pushed by reset() below every open rule (start/end_rule pair per C02)"
                if not ok and base[0] == "call" and base[1] == "enumerate":
                    ok, why = True, "enumerate pair"
                if not ok and base[0] == "call" and base[1] == "next" and len(base[2]) == 2 and base[2][0][0] == "call" \
                        and base[2][0][1] in ("enumerate", "zip") and base[2][1][0] == "tuple":
                    width = 2 if base[2][0][1] == "enumerate" else len(base[2][0][2])
                    if 0 <= t[2][1] < min(width, len(base[2][1][1])):
                        ok, why = True, "next pair of an enumerate/zip iterator, or the default tuple of the same width"
                cb = br.canon(base)
                if not ok and cb[0] == "items" and cb[2] == "DocStringSeparator" and justified[("first", "DocString", "DocStringSeparator")]():
                    ok, why = True, "grammar: DocString has at least one #DocStringSeparator"
                if not ok and base[0] == "ref" and isinstance(I.obj(base), HList):
                    sg = nf.list_content(I, base, tree)
                    if len(sg) == 1 and sg[0][0] == "loop" and br.canon(I.loops[sg[0][1]].get("iter", ("x",))) == ("items", br.bnf().node, "TableRow") \
                            and justified[("rows0", "DataTable")]():
                        ok, why = True, "grammar: a table node holds at least one #TableRow"
                if not ok and base[0] == "ref" and isinstance(I.obj(base), HList) and any(s[0] == "e" for s in I.obj(base).segs):
                    ok, why = True, "list display with elements"
                if not ok and os.environ.get("GSA_DEBUG_IDX"):
                    print("IDX", fmt(t, I), "\n   guards:", [(fmt(g_, I), p_) for g_, p_ in guards])
                rep.ob(rid + ".index", f"{label}: constant index {t[2][1]} is applied to a sequence that cannot be empty there", ok, file=fi.file, line=line,
                       function=fi.qualname, expected="dominating truthiness/length test or grammar-justified", found=(why or "unguarded") + ": " + fmt(t, I)[:120])
            if t[0] == "item" and not is_const(t[2]) and isinstance(t[2], tuple) and t[1][0] == "ref" and isinstance(I.obj(t[1]), HDict) \
                    and not _is_defaultdict(I, t[1]):
                # a dictionary the code builds itself, read with a computed key: the key has to be known to be there
                base, key = t[1], t[2]
                nkey[0] += 1
                ok = any(pol and gcond[0] == "cmp" and gcond[1] == "In" and gcond[2] == key and gcond[3] == base for gcond, pol in guards)
                if not ok:
                    ok = _key_ranges_over(I, base, key)
                rep.ob(rid + ".key", f"{label}: a dictionary built by the code is read with a computed key only when the key is known to be in it", ok, file=fi.file,
                       line=line, function=fi.qualname, expected="dominating 'key in dict' test, or a key taken from the dictionary itself",
                       found=("guarded: " if ok else "KeyError possible: ") + fmt(t, I)[:140])
            if t[0] == "ref":
                return
            for x in t:
                if isinstance(x, tuple):
                    walk(x, guards, line)

        def callbacks(n, guards, line, depth=0):
            """bodies of the functions handed to a library call (a ``re.sub`` replacement, a ``sorted`` key): run on arguments
            nothing is known about, their partial operations count like the caller's own"""
            if depth > 2:
                return
            for a in (n[2] if n[0] == "extcall" else n[3] if n[0] == "mcall" else ()):
                if isinstance(a, tuple) and a and a[0] == "lambda" and len(a) >= 4:
                    fi_c, _env = I.closures[a[3]]
                    nargs = len(fi_c.node.args.args)
                    sub: list = []
                    try:
                        from ..absint import State as _State
                        I.apply(_State(), a, [("cbarg", a[3], i) for i in range(nargs)], {}, None, sub)
                    except AnalysisError:
                        raise
                    except Exception:
                        continue
                    scan(sub, guards, depth + 1, line)

        def scan(tree_, outer=(), depth=0, line0=None):
            for n, ctx in nf.iter_nodes(tree_):
                guards = expand_guards(set(nf.guards_in_ctx(ctx)) | set(outer))
                # while-loop tests guard their bodies
                for cx in ctx:
                    if cx[0] == "loop":
                        tst = I.loops.get(cx[1], {}).get("test")
                        if tst is not None:
                            if tst[0] == "bool" and tst[1] == "and":
                                for x in tst[2]:
                                    guards.add(nf.norm_guard(x, True))
                            else:
                                guards.add(nf.norm_guard(tst, True))
                line = None
                for x in reversed(n):
                    if isinstance(x, int):
                        line = x
                        break
                terms = []
                k = n[0]
                if k == "if":
                    terms = [n[1]]
                elif k == "loop":
                    info = I.loops.get(n[1], {})
                    terms = [x for x in (info.get("iter"), info.get("test")) if x is not None]
                    line = info.get("line")
                elif k in ("return", "raise", "yield"):
                    terms = [n[1]]
                elif k == "mutate":
                    terms = list(n[3])
                elif k == "sink":
                    terms = [v for v in n[1].values() if isinstance(v, tuple)]
                elif k == "setattr":
                    terms = [n[3]]
                elif k == "alloc":
                    o = I.obj(n[1])
                    if isinstance(o, HDict):
                        terms = [nf.strip_dropnone(e[1]) for e in o.entries]
                if line is None:
                    line = line0
                for t in terms:
                    walk(t, guards, line)
                if k in ("extcall", "mcall"):
                    callbacks(n, guards, line, depth)

        scan(tree)
    rep.floor("constant-index reads", nidx, 3)
    rep.counts["computed-key dictionary reads"] = nkey[0]
    # (iv) bare next()
    nn = 0
    for fi in f.all_functions():
        if fi.module.name == "gherkin.inout":
            continue
        for n in walk_no_nested_defs(fi.node):
            if isinstance(n, ast.Call) and isinstance(n.func, ast.Name) and n.func.id == "next":
                nn += 1
                endless = False
                a0 = n.args[0] if n.args else None
                if isinstance(a0, ast.Attribute) and isinstance(a0.value, ast.Name) and fi.cls is not None and fi.params() and a0.value.id == fi.params()[0]:
                    # an attribute of the object itself that is only ever bound to an endless library iterator (itertools.count /
                    # cycle / repeat without a bound) cannot be exhausted
                    binds = [v for m_ in fi.cls.all_methods() for x in ast.walk(m_.node) if isinstance(x, (ast.Assign, ast.AnnAssign)) and getattr(x, "value", None) is not None
                             for t in (x.targets if isinstance(x, ast.Assign) else [x.target]) if isinstance(t, ast.Attribute) and t.attr == a0.attr for v in [x.value]]
                    endless = bool(binds) and all(isinstance(v, ast.Call) and (xdotted(v.func, fi.module) in ("itertools.count", "itertools.cycle")
                                                                                  or (xdotted(v.func, fi.module) == "itertools.repeat" and len(v.args) == 1 and not v.keywords)) for v in binds)
                rep.ob(rid + ".next", "next() is always given a default (exhaustion cannot raise StopIteration)", len(n.args) >= 2 or endless, file=fi.file, line=n.lineno,
                       function=fi.qualname, expected="next(it, default)", found=unparse(n))
    rep.floor("next() call sites", nn, 0)
    # (v) file-system calls on the source text
    I = new_interp()
    q = "gherkin.token_scanner.TokenScanner.__init__"
    fi = I.facts.func(q)
    tree, rv, st = I.run(q)
    src = ("param", fi.params()[1])
    for n, ctx in nf.iter_nodes(tree):
        nonraising = ("os.path.exists", "os.path.isfile", "os.path.isdir", "os.path.lexists", "io.StringIO")
        if n[0] == "extcall" and (n[1] in ("open", "io.open") or n[1].startswith(("os.", "pathlib.", "shutil."))) and n[1] not in nonraising and n[2] and n[2][0] == src:
            # the instance names the circumstances as well (the dominating tests and the enclosing handlers): the same call
            # under other circumstances fails on other inputs and is a different finding
            gs = [("" if p else "not ") + fmt(c, I) for c, p in nf.guards_in_ctx(ctx)]
            hs = sorted({str(h) for c in ctx if c[0] == "try" and len(c) > 2 for h in c[2]})
            where = (" when " + " and ".join(gs) if gs else " unconditionally") + (" inside try/except " + ", ".join(hs) if hs else "")
            rep.ob(rid + ".io", f"file-system call on the source text: {n[1]}({fi.params()[1]}){where}", False, file=fi.file, line=n[3], function=q,
                   expected="source text is never used as a path", found=f"{n[1]}({fi.params()[1]}, ...){where}")
    # parse hands its text to the scanner
    from ..frame import parse_nf
    P = parse_nf()
    pf = P.fi
    hands = any(len(n[2]) > 1 and n[2][1] == P.src for n, c in P.ev("new_scanner"))
    rep.ob(rid + ".io", "Parser.parse passes its source argument to the scanner (so scanner I/O is I/O on source text)", hands, file=pf.file, line=pf.node.lineno,
           function=pf.qualname, expected="TokenScanner(source)", found="as expected" if hands else "source is not given to TokenScanner")


def rule_oneshot_flow(rep: Report, rid="C15.iter") -> None:
    """One-shot iterators followed through calls: an iterator object (``itertools.chain(...)``) made outside a loop must not
    be walked inside it - handed down through parameters and argument tuples, the second round finds it exhausted."""
    n = 0
    for label, I, tree, fi in _all_nfs():
        made = {}
        nodes = list(nf.iter_nodes(tree))
        for nd, ctx in nodes:
            if nd[0] == "alloc" and getattr(I.obj(nd[1]), "one_shot", None):
                made[nd[1]] = (nf.loops_in_ctx(ctx), nd[2])
        if not made:
            continue
        for ref, (lc, line0) in made.items():
            uses = []
            for nd, ctx in nodes:
                hit = False
                if nd[0] == "alloc" and nd[1] != ref:
                    o = I.obj(nd[1])
                    if isinstance(o, HList) and any(sg[0] == "s" and sg[1] == ref for sg in o.segs):
                        hit = True
                elif nd[0] == "loop" and I.loops.get(nd[1], {}).get("iter") == ref:
                    hit = True
                elif nd[0] in ("mcall", "extcall") and any(a == ref for a in (nd[3] if nd[0] == "mcall" else nd[2])):
                    hit = True
                if hit:
                    uses.append((nf.loops_in_ctx(ctx), nd[-1] if isinstance(nd[-1], int) else None, nf.guards_in_ctx(ctx)))
            n += 1
            again = [(lu, ln) for lu, ln, _ in uses if [l for l in lu if l not in lc]]
            rep.ob(rid, f"{label}: a one-shot iterator ({I.obj(ref).one_shot}) made outside a loop is not walked inside it", not again, file=fi.file, line=line0,
                   function=fi.qualname, expected="a list, or the iterator made where it is walked",
                   found="walked once" if not again else f"made at line {line0}, walked at line {again[0][1]} inside the loop over "
                   + fmt(I.loops[[l for l in again[0][0] if l not in lc][-1]].get("iter"), I)[:80])
    rep.counts["one-shot iterator objects followed"] = n
