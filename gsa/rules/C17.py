"""C17 - stream output is well-formed Cucumber Messages in the documented order."""
from . import error_rules as er, shape_rules as sh, line_rules as lr, compiler_rules as cr, misc_rules as ms, matcher_rules as mr

META = {
    "level": "other",
    "explanation": "Yield projection of GherkinEvents.enum: parse, then source / gherkinDocument / pickles each gated only by its own "
                   "option, all inside one try whose handlers (composite first, root ParserError last) yield only parseError "
                   "envelopes {source: {uri, location}, message: str(error)} one per error; {**document, uri} is what is emitted and "
                   "compiled. Key-set and None-flow analysis of every dictionary the builder and the compiler emit against the "
                   "TypedDict declarations: keys declared, required keys always present, only NotRequired keys (plus two documented "
                   "ones) can be absent, nothing emitted as null; value vocabularies of keywordType and pickle step type; the source "
                   "envelope reads the file untranslated; one id generator and one parser/compiler per stream, written only by the "
                   "constructor.",
    "assumptions": ["json.dumps serialises str/int/list/dict; field *types* beyond presence are those of the token fields (str/int) by construction"],
}


def run(rep):
    sh.rule_key_reads(rep, "C17.reads")
    er.rule_stream(rep)
    lr.rule_source_io(rep, "C17.src")
    sh.rule_shape(rep)
    sh.rule_vocab(rep)
    cr.rule_skel(rep, "C17.skel")
    cr.rule_fold(rep, "C17.type", "C17.vocab")
    ms.rule_inst(rep, "C17.inst")
    # "the running id counter": one generator for the whole stream, advanced by one per id and never set back
    ms.rule_generator(rep, "C17.gen")
    ms.rule_parse_resets(rep, "C17.reset")
    mr.rule_reset(rep, "C17.builderreset", classes=("gherkin.ast_builder.AstBuilder",))
    # no hidden state: what the property promises for one use must hold for every later use as well
    ms.rule_stateless(rep, "C17")
