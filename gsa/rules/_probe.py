from . import shape_rules as sh
META = {}
def run(rep):
    sh.rule_shape(rep)
    sh.rule_vocab(rep)
