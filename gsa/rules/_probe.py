from . import matcher_rules as mr
META = {}
def run(rep):
    mr.rule_sink(rep)
    mr.rule_roles(rep)
    mr.rule_keyword_types(rep)
    mr.rule_dialect_triple(rep)
    mr.rule_text_extraction(rep)
    mr.rule_docstring_fsm(rep)
    mr.rule_docstring_own(rep)
    mr.rule_other_text(rep)
    mr.rule_token_table(rep)
    mr.rule_reset(rep)
from . import builder_rules as br
_r=run
def run(rep):
    _r(rep)
    br.rule_docstring_ast(rep)
    br.rule_rect(rep)
    br.rule_locations(rep)
    br.rule_ids(rep)
    mr.rule_reset(rep, "C15.reset", classes=("gherkin.ast_builder.AstBuilder","gherkin.token_formatter_builder.TokenFormatterBuilder"))
