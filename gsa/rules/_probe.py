from . import misc_rules as ms
META = {}
def run(rep):
    ms.rule_generator(rep)
    ms.rule_shared(rep)
    ms.rule_inst(rep)
    ms.rule_parse_resets(rep)
    ms.rule_det(rep)
    ms.rule_formatter(rep)
