from . import matcher_rules as mr
META = {}
def run(rep):
    mr.rule_sink(rep)
    mr.rule_roles(rep)
    mr.rule_keyword_types(rep)
    mr.rule_dialect_triple(rep)
    mr.rule_text_extraction(rep)
    mr.rule_docstring_fsm(rep)
    mr.rule_docstring_own(rep)
    mr.rule_other_text(rep)
    mr.rule_token_table(rep)
    mr.rule_reset(rep)
