from . import error_rules as er
META = {}
def run(rep):
    er.rule_messages(rep)
    er.rule_cap(rep)
    er.rule_handle_external(rep)
    er.rule_noast(rep)
    er.rule_stream(rep)
