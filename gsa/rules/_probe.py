from . import dialect_rules as dr
META = {}
def run(rep):
    dr.rule_data(rep)
    dr.rule_dialect(rep)
    dr.rule_shared_table(rep)
    dr.rule_header(rep)
