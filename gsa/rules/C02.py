"""C02 - accepted language and nesting are those of gherkin.berp; same machine as the siblings."""
from . import line_rules as lr
from . import misc_rules as ms
from . import parser_rules as pr, builder_rules as br, matcher_rules as mr

META = {
    "level": "translation_validation",
    "explanation": "The generated parser.py is extracted to a transition table (AST path enumeration of every "
                   "match_token_at_N), and compared (a) with a reference transducer derived directly from gherkin.berp "
                   "by a product construction over all (state, line kind, look-ahead outcome) inputs - same accept/reject, "
                   "same token kind consumed, same start/end-rule productions, EOF closes everything - and (b) transition "
                   "by transition with the tables read from the sibling generated parsers. The look-ahead functions, the "
                   "14 matcher wrappers, the builder forwarders, the dispatch table and the parse loop are checked structurally.",
    "assumptions": ["lines are classified into token kinds as Appendix A of DESIGN.md states (one own kind; every line also "
                    "satisfies #Other; a language header also satisfies #Comment) - that is the matcher's contract (C05/C13)",
                    "gherkin.berp is the published grammar",
                    "sibling parsers are template-generated text of the shape the lexical extractor reads (checked: 42 states/334 transitions each)"],
}


def run(rep):
    pr.rule_shape(rep)
    pr.rule_grammar(rep)
    pr.rule_look(rep)
    pr.rule_glue(rep)
    lr.rule_token(rep, "C02.token")
    pr.rule_siblings(rep)
    br.rule_tags_ast(rep, "C02.attach")
    br.rule_rw(rep, "C02.rw", "C02.flow")
    # the lines looked past are replayed in document order: the machine above reads them in the order the scanner produced them
    pr.rule_queue(rep, "C02.queue")
    # what "its sequence of line tokens" is: the classification of lines the grammar is stated over
    mr.rule_roles(rep, "C02.roles", "C02.text", want=("roles",))
    mr.rule_token_table(rep, "C02.kinds", "C02.col")
    mr.rule_docstring_fsm(rep, "C02.fsm")
    mr.rule_match_result(rep, "C02.result")
    # "its sequence of line tokens" starts at the scanner: one token per line feed terminated line, in order
    lr.rule_scanner(rep, "C02.line", "C02.scan")
    # no hidden state: what the property promises for one use must hold for every later use as well
    ms.rule_stateless(rep, "C02")
