"""C13 - doc strings are opaque: verbatim content, closed only by their own delimiter."""
from . import parser_rules as pr, matcher_rules as mr, builder_rules as br, line_rules as lr, misc_rules as ms

META = {
    "level": "other",
    "explanation": "Automaton: the states inside a doc string (found from the grammar continuation, not by number) have exactly the "
                   "transitions [#DocStringSeparator, #Other] with no ignored-token loop. Matcher typestate: closed -> each opener "
                   "constant tried, the matching one becomes active with the line's indent; open -> only the active delimiter is "
                   "tested and a match clears both fields; the two fields are written by nobody else; reset clears them. match_Other: "
                   "decision table over (active delimiter, indentation relation) = line[indent:] / fully trimmed, with only the active "
                   "delimiter's escaped form restored. Builder: content = join of all Other texts, media type absent when empty.",
    "assumptions": ["str.startswith/replace are literal"],
}


def run(rep):
    pr.rule_docstring_states(rep)
    mr.rule_docstring_fsm(rep)
    mr.rule_docstring_own(rep)
    mr.rule_match_result(rep, "C13.result")
    mr.rule_other_text(rep)
    lr.rule_line_basics(rep, "C13.line")
    br.rule_docstring_ast(rep)
    mr.rule_reset(rep, "C13.reset", classes=(mr.MQ,))
    ms.rule_parse_resets(rep, "C13.parsereset")
    mr.rule_sink(rep, "C13.sink", "C13.crlf", want=("crlf",))
    # content lines are the scanner's physical lines: lines end at line feeds only
    lr.rule_scanner(rep, "C13.physline", "C13.scan")
    # ... also for documents read through the source stream: the file's text reaches the scanner untranslated (a lone CR
    # inside a content line is content, not a line break)
    lr.rule_source_io(rep, "C13.src")
    # no hidden state: what the property promises for one use must hold for every later use as well
    ms.rule_stateless(rep, "C13")
