"""C05 - every keyword of every dialect is recognised in its role; foreign ones are not."""
from . import dialect_rules as dr, matcher_rules as mr, builder_rules as br, misc_rules as ms, line_rules as lr

META = {
    "level": "other",
    "explanation": "Data side: both JSON tables byte-identical, 11 lists per dialect, no cross-role title collisions, no step keyword "
                   "prefixing a title keyword + ':' (all 80 dialects / 1749 keywords enumerated as data). Code side: Dialect properties "
                   "are exactly the table's lists in listed order; each match_<Kind> scans the lists of its own role in order with a "
                   "first-match-wins loop testing startswith(keyword [+ ':']) on the left-trimmed line and reports the list element "
                   "itself; the keyword-category table and the unique-category-else-Unknown rule; the language header regex normal "
                   "form, header only in state 0, unknown dialect raised before any state change at the header's location; "
                   "dialect name / dialect / category table change only together; feature.language comes from the dialect in force.",
    "assumptions": ["str.startswith compares code points literally (no keyword is special-cased in code, so the data rules cover the dialect-dependent part)"],
}


def run(rep):
    dr.rule_data(rep)
    dr.rule_dialect(rep)
    mr.rule_roles(rep, "C05.roles", "C05.text")
    mr.rule_keyword_types(rep, "C05.types")
    dr.rule_header(rep)
    mr.rule_dialect_triple(rep, "C05.triple")
    mr.rule_sink(rep, "C05.sink", "C05.crlf", want=("fields",))
    br.rule_fields(rep, "C05.fields")
    dr.rule_shared_table(rep, "C05.shared")
    ms.rule_parse_resets(rep, "C05.reset")
    mr.rule_reset(rep, "C05.matcherreset", classes=(mr.MQ,))
    lr.rule_scanner(rep, "C05.line", "C05.verbatim")
    lr.rule_line_basics(rep, "C05.trimmed")
    mr.rule_match_result(rep, "C05.result")
    # no hidden state: what the property promises for one use must hold for every later use as well
    ms.rule_stateless(rep, "C05")
