"""C08 - pickle tags = feature, rule, scenario, examples tags, in that order."""
from . import line_rules as lr, compiler_rules as cr
from . import misc_rules as ms
from . import builder_rules as br

META = {
    "level": "other",
    "explanation": "For each of the four emission contexts of the compiler the tag list handed to the pickle is resolved to its "
                   "sources (flattening list copies, concatenations and in-place growth including mutation history of shared lists) "
                   "and must be exactly feature.tags + [rule.tags] + scenario.tags + [examples.tags], unfiltered, each mapped to "
                   "{astNodeId: tag.id, name: tag.name}. The builder's per-element tag collection is checked by provenance.",
    "assumptions": ["AST dictionaries have the shape the builder produces (C03/C17)"],
}


def run(rep):
    cr.rule_skel(rep, "C08.skel")
    cr.rule_tags(rep)
    br.rule_tags_ast(rep, "C08.ast")
    # "the tag's name": what a tag line's pieces are (any blank separates tags; the name is the piece, trimmed)
    lr.rule_tags(rep, "C08.tagline")
    cr.rule_input(rep, "C08.isolation")
    # no hidden state: what the property promises for one use must hold for every later use as well
    ms.rule_stateless(rep, "C08")
