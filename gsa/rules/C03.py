"""C03 - the AST carries every element once, in order, with exact text."""
from . import builder_rules as br
from . import matcher_rules as mr
from . import compiler_rules as cr, misc_rules as ms, line_rules as lr

META = {
    "level": "other",
    "explanation": "transform_node is abstractly interpreted with all helpers inlined and split into its per-rule branches. "
                   "Reader/writer agreement: for every AST rule of gherkin.berp the kinds the parser collects into its node (with "
                   "multiplicity) are read by the consuming branch (repeated ones as lists) and flow into the returned node. "
                   "children lists follow grammar order; field provenance (keyword/name/location/description/steps/...) is compared "
                   "with the expected token fields; the description join/trim is matched against the blank-line predicate; the "
                   "matcher's title/step text extraction skips exactly the prefix it tested and strips the rest; matcher and builder "
                   "state that could add foreign text (doc string indent, comments) is reset.",
    "assumptions": ["the parser delivers tokens into nodes as the grammar says (C02/C18)", "str.strip/startswith/join behave as documented"],
}


def run(rep):
    br.rule_rw(rep)
    br.rule_fields(rep)
    br.rule_order(rep)
    br.rule_desc(rep)
    br.rule_tags_ast(rep, "C03.tags")
    mr.rule_text_extraction(rep, "C03.text")
    mr.rule_docstring_fsm(rep, "C03.verbatim")
    mr.rule_reset(rep, "C03.reset", classes=(mr.MQ, "gherkin.ast_builder.AstBuilder"))
    ms.rule_parse_resets(rep, "C03.fresh")
    cr.rule_input(rep, "C03.immutable")
    lr.rule_scanner(rep, "C03.line", "C03.scan")
    mr.rule_other_text(rep, "C03.other")
    # tag names come from the tag-line splitter
    lr.rule_tags(rep, "C03.tagline")
    # free text, names and cell texts are exact: only line terminators are cut from matched text; cells are split as documented
    mr.rule_sink(rep, "C03.sinkcol", "C03.crlf", want=("crlf", "fields"))
    lr.rule_split(rep, "C03.split", "C03.splitcol")
    lr.rule_split_init(rep, "C03.cells")
    # no hidden state: what the property promises for one use must hold for every later use as well
    ms.rule_stateless(rep, "C03")
