"""C19 - Markdown token matcher."""
from __future__ import annotations

import ast

from ..absint import NONE, const, is_const, fmt, HList, mk_cmp, mk_cond
from ..names import N
from ..common import Report, AnalysisError, read_text
from ..facts import facts
from .. import nf, regexnf
from . import matcher_rules as mr
from .matcher_rules import lin_eq
from .totality_rules import _pattern_safe, _global_const

MDQ = "gherkin.token_matcher_markdown.GherkinInMarkdownTokenMatcher"
MDFILE = "python/gherkin/token_matcher_markdown.py"


def _consts():
    m = facts().modules.get("gherkin.token_matcher_markdown")
    if m is None:
        raise AnalysisError("anchor vanished: gherkin.token_matcher_markdown")
    out = {}
    for k, v in m.globals.items():
        if isinstance(v, ast.Constant) and isinstance(v.value, str):
            out[k] = v.value
    return out


WANT_PREFIX = {"header": (r"^(#{1,6}\s)", "a header prefix is one to six '#' and exactly one blank, captured as group 1, at the start of the line"),
               "bullet": (r"^(\s*[*+-]\s*)", "a bullet prefix is optional blanks, one of * + -, optional blanks, captured as group 1, at the start of the line")}


def _split_skeleton(sk):
    """(prefix, rest) of a pattern skeleton ``prefix(§|§)rest`` (§ = an escaped keyword alternation), else (None, None)."""
    if not isinstance(sk, str) or sk.count("(§|§)") != 1:
        return None, None
    pre, _, rest = sk.partition("(§|§)")
    return pre, rest


def rule_prefix(rep: Report, rid="C19.prefix") -> None:
    """The prefix each title / step pattern really starts with (whatever constant or table it is kept in)."""
    rep.used_file(MDFILE)
    rep.used_file("MARKDOWN_WITH_GHERKIN.md")
    M = mr.mnf(MDQ)
    seen = {"header": [], "bullet": []}
    for kind in list(dict(mr.TITLE_ROLES)) + ["StepLine"]:
        m = M.methods[kind]
        for sn, ctx in m.sinks:
            if sn[1].get("matched_type") != const(kind) or sn[1].get("keyword") is None:
                continue
            gs = [(c, p) for c, p in nf.guards_in_ctx(ctx) if c[0] == "call" and c[1] == "re.search" and p]
            if len(gs) != 1:
                continue
            ok, sk = _pattern_safe(m.I, gs[0][0][2][0], m.tree)
            pre, _rest = _split_skeleton(sk)
            seen["bullet" if kind == "StepLine" else "header"].append((kind, pre))
    for which, (want, what) in WANT_PREFIX.items():
        found = seen[which]
        rep.ob(rid, what, bool(found) and all(pre is not None and regexnf.same(pre, 0, want) for _, pre in found), file=MDFILE,
               function="gherkin.token_matcher_markdown", expected=regexnf.describe(want),
               found=sorted({regexnf.describe(pre) if pre is not None else f"match_{k}: no prefix found" for k, pre in found}) or "no keyword pattern found")


def rule_titles(rep: Report, rid="C19.escape", rid_col="C19.col", rid_roles="C19.roles") -> None:
    M = mr.mnf(MDQ)
    roles = dict(mr.TITLE_ROLES)
    roles["StepLine"] = mr.STEP_LISTS
    cst = _consts()
    for kind, lists in roles.items():
        m = M.methods[kind]
        I = m.I
        rep.used_function(m.fi.qualname)
        line, trimmed, raw = mr.line_terms(m)
        dialect = ("attr", m.selft, N.DIALECT)
        prefix_name = "KEYWORD_PREFIX_BULLET" if kind == "StepLine" else "KEYWORD_PREFIX_HEADER"
        suffix = "" if kind == "StepLine" else ":"
        sinks = [(sn, ctx) for sn, ctx in m.sinks if sn[1].get("matched_type") == const(kind) and sn[1].get("keyword") is not None]
        got_lists = []
        rep.ob(rid_roles, f"Markdown match_{kind} reports keyword matches through the sink", bool(sinks), **mr._kw(m), expected=">= 1", found=len(sinks))
        for sn, ctx in sinks:
            a = sn[1]
            kw = mr._kw(m, sn[2])
            # the match object this sink is guarded by
            gs = [(c, p) for c, p in nf.guards_in_ctx(ctx) if c[0] == "call" and c[1] == "re.search" and p]
            if len(gs) != 1:
                rep.ob(rid, f"match_{kind}: the keyword is found by one regular-expression search", False, **kw, expected="re.search(prefix(kw1|kw2...)suffix(.*), line)",
                       found=[fmt(c, I)[:80] for c, p in nf.guards_in_ctx(ctx)])
                continue
            mt = gs[0][0]
            pat, subj = mt[2][0], mt[2][1]
            ok, sk = _pattern_safe(I, pat, m.tree)
            pre, rest = _split_skeleton(sk)
            want_pre = WANT_PREFIX["bullet" if kind == "StepLine" else "header"][0]
            want_sk = want_pre + "(§|§)" + suffix + "(.*)"
            rep.ob(rid, f"match_{kind}: pattern = prefix + (escaped keyword alternation) + '{suffix}' + (.*) with every keyword passed through re.escape",
                   ok and pre is not None and rest == suffix + "(.*)" and regexnf.same(pre, 0, want_pre), **kw, expected=want_sk, found=sk)
            rep.eq(rid, f"match_{kind}: the search runs on the left-trimmed line", fmt(trimmed, I), fmt(subj, I), **kw)
            flags = [x for x in mt[3]] if len(mt) > 3 else []
            rep.ob(rid, f"match_{kind}: no regex flags alter the anchors", not flags and len(mt[2]) == 2, **kw, expected="no flags", found=[fmt(x[1], I) for x in flags])
            # keyword lists: the alternation joins the role's lists in listed order
            kws = None
            for t in nf.subterms(pat):
                if t[0] == "call" and t[1] == ".join" and is_const(t[2][0], "|"):
                    seq = t[2][1]
                    if seq[0] == "call" and seq[1] == "map":
                        kws = seq[2][1]
                    else:
                        sg_ = nf.flatten_segs(I, nf.value_segs(I, seq, m.tree), m.tree) if seq[0] in ("ref", "cond") else []
                        if len(sg_) == 1 and sg_[0][0] == "loop":
                            kws = I.loops[sg_[0][1]].get("iter")
            def parts(t):
                if t is None:
                    return [None]
                if t[0] == "binop" and t[1] == "Add":
                    return parts(t[2]) + parts(t[3])
                return [t]
            got_lists += mr._kw_parts(m, kws) if kws is not None else [None]
            g = lambda i: ("call", ".group", (mt, const(i)), ())
            okkt = a.get("keyword") == g(2) and a.get("text") == ("call", ".strip", (g(3),), ())
            short = lambda t: (fmt(t, I)[:24] + " ... " + fmt(t, I)[-28:]) if t is not None else None
            rep.ob(rid_col, f"match_{kind}: keyword = group 2 (as listed), title = group 3 stripped on both sides", okkt,
                   expected=".group(m, 2), .strip(.group(m, 3))", found=[short(a.get("keyword")), short(a.get("text"))], **kw)
            want_ind = ("binop", "Add", ("attr", line, N.INDENT), ("call", "len", (g(1),), ()))
            rep.ob(rid_col, f"match_{kind}: column = line indent + length of the prefix (group 1) + 1", a.get("indent") is not None and lin_eq(a["indent"], want_ind), **kw,
                   expected="indent + len(match.group(1))", found=fmt(a.get("indent"), I)[-120:] if a.get("indent") else "default")
        # the verdict depends on the line alone: no matcher state decides whether a well-formed line is recognised
        state_atoms = [t for t in nf.subterms(m.rv) if t[0] == "attr" and t[1] == m.selft and t[2] != N.DIALECT]
        searches = [t for t in nf.subterms(m.rv) if t[0] == "call" and t[1] == "re.search"]
        rep.ob(rid_roles, f"Markdown match_{kind}: whether the line is recognised depends only on the line and the dialect (not on earlier lines)",
               not state_atoms and bool(searches), **mr._kw(m), expected="result = the keyword search matched",
               found={"state read": sorted({t[2] for t in state_atoms}), "result": fmt(m.rv, I)[:160]})
        want_lists = [("attr", dialect, x) for x in lists]
        rep.eq(rid_roles, f"Markdown match_{kind} tries exactly the keyword lists of its role, in listed order", [fmt(x, I) for x in want_lists],
               [fmt(x, I) if x else None for x in got_lists], **mr._kw(m))


def rule_table(rep: Report, rid="C19.table") -> None:
    M = mr.mnf(MDQ)
    m = M.methods["TableRow"]
    I = m.I
    rep.used_function(m.fi.qualname)
    line, trimmed, raw = mr.line_terms(m)
    rep.eq(rid, "Markdown match_TableRow has one way to match", 1, len(m.sinks), **mr._kw(m))
    for sn, ctx in m.sinks:
        gs = nf.guards_in_ctx(ctx)
        kw = mr._kw(m, sn[2])
        rm = [(c, p) for c, p in gs if c[0] == "call" and c[1] in ("re.match", "re.search", "re.fullmatch") and len(c[2]) == 2
              and not (isinstance(c[2][1], tuple) and nf.contains(c[2][1], lambda x: x[0] in ("elem", "prop")))]
        ok = False
        found = None
        if len(rm) == 1 and rm[0][1] and is_const(rm[0][0][2][0]):
            pat = rm[0][0][2][0][1]
            subj = rm[0][0][2][1]
            meth = rm[0][0][1].split(".", 1)[1]
            # the untrimmed line: get_line_text(0)
            raw_forms = [raw, ("slice", raw, const(0), NONE, NONE), mk_cond(mk_cmp("Gt", const(0), ("attr", line, N.INDENT)), trimmed, ("slice", raw, const(0), NONE, NONE))]
            ok = regexnf.same_test(pat, 0, meth, r"^\s{2,5}\|", 0, "search") and subj in raw_forms and meth != "fullmatch"
            found = regexnf.describe(pat) + " on " + fmt(subj, I)
        rep.ob(rid, "a table row is recognised only when the untrimmed line starts with two to five blanks and a pipe", ok, **kw,
               expected=regexnf.describe(r"^\s{2,5}\|") + " on the raw line", found=found)
        sep = [(c, p) for c, p in gs if c not in [x[0] for x in rm]]
        ok_sep = False
        et = nf.emptiness_test(*sep[0]) if len(sep) == 1 else None
        ex = nf.exists_form(I, sep[0][0], m.tree) if len(sep) == 1 and sep[0][1] is False else None
        if ex is not None:
            # "no cell matches": an existential scan over the cells, required to fail on the matching path
            et = (("pair", ex[0], ex[2]), True)
        if et is not None and et[1] is True:
            c = et[0]       # the collection of separator cells, required to be empty on the matching path

            def deep(t, seen=()):
                for x in nf.subterms(t):
                    yield x
                    if x[0] == "ref" and x not in seen and isinstance(I.obj(x), HList):
                        for sg in nf.list_content(I, x, m.tree):
                            yield from deep_seg(sg, seen + (x,))

            def deep_seg(sg, seen):
                if sg[0] in ("e", "s"):
                    yield from deep(sg[1], seen)
                elif sg[0] == "loop":
                    info = I.loops.get(sg[1], {})
                    for cc in info.get("conds") or ():
                        yield from deep(cc, seen)
                    if info.get("iter") is not None:
                        yield from deep(info["iter"], seen)
                    for s2 in sg[2]:
                        yield from deep_seg(s2, seen)
                elif sg[0] == "if":
                    yield from deep(sg[1], seen)
                    for s2 in sg[2] + sg[3]:
                        yield from deep_seg(s2, seen)
            allt = list(deep(c))
            pats = []
            for t in allt:
                if t[0] == "lambda" and "re.match" in t[1]:
                    try:
                        lam = ast.parse(t[1], mode="eval").body
                        pats.append((lam.body.args[0].value, "match"))
                    except Exception:
                        pass
                if t[0] == "call" and t[1] in ("re.match", "re.fullmatch") and t[2] and is_const(t[2][0]):
                    pats.append((t[2][0][1], t[1].split(".", 1)[1]))
                if t[0] == "attr" and t[2] in ("match", "fullmatch") and isinstance(t[1], tuple) and t[1] and t[1][0] == "regex" and is_const(t[1][1]) \
                        and (is_const(t[1][2], None) or is_const(t[1][2], 0)):
                    pats.append((t[1][1][1], t[2]))        # the bound match method of a compiled pattern, used as the predicate
            ok_sep = bool(pats) and all(regexnf.same_test(p0, 0, m0, r"^:?-+:?$", 0, "match") for p0, m0 in pats) and ("prop", "table_cells", line) in allt
        rep.ob(rid, "a GFM separator row (any cell of the form :?-+:?) is not a table row", ok_sep, **kw, expected="if any cell matches ^:?-+:?$: return False",
               found=[(fmt(c, I)[:120], p) for c, p in sep])
        rep.eq(rid, "a Markdown table row reports kind TableRow with the line's cells", [const("TableRow"), ("prop", "table_cells", line)], [sn[1].get("matched_type"), sn[1].get("items")], **kw)


def rule_tags(rep: Report, rid="C19.tags") -> None:
    M = mr.mnf(MDQ)
    m = M.methods["TagLine"]
    I = m.I
    rep.used_function(m.fi.qualname)
    line, trimmed, raw = mr.line_terms(m)
    rep.eq(rid, "Markdown match_TagLine has one way to match", 1, len(m.sinks), **mr._kw(m))
    for sn, ctx in m.sinks:
        kw = mr._kw(m, sn[2])
        items = sn[1].get("items")
        ok = False
        found = fmt(items, I) if items else None
        if items is not None and items[0] == "ref":
            segs = nf.list_content(I, items, m.tree)
            if len(segs) == 1 and segs[0][0] == "loop" and len(segs[0][2]) == 1 and segs[0][2][0][0] == "e":
                lid = segs[0][1]
                it = I.loops[lid].get("iter")
                el = ("elem", lid)
                d = nf.resolve_ref_dict(I, segs[0][2][0][1], m.tree)
                from .line_rules import _re_flags
                import re as _re_mod
                fl = _re_flags(it[3]) if it is not None and it[0] == "call" and len(it) > 3 else 0
                okp = it is not None and it[0] == "call" and it[1] == "re.finditer" and is_const(it[2][0]) and not (fl & ~(_re_mod.VERBOSE | _re_mod.UNICODE)) \
                    and regexnf.same(it[2][0][1], fl, "`(@[^`]+)`") and it[2][1] == trimmed and not I.loops[lid].get("conds")
                # the tag is group 1, by number or by its name; its start is one past the match's start (the opening backtick)
                g1 = [const(1)]
                if okp:
                    try:
                        g1 += [const(k) for k, v in _re_mod.compile(it[2][0][1], fl).groupindex.items() if v == 1]
                    except _re_mod.error:
                        pass
                start_forms = [(("call", ".start", (el, const(0)), ()), 2), (("call", ".start", (el,), ()), 2)] + [(("call", ".start", (el, g), ()), 1) for g in g1]
                okd = d is not None and set(d) == {"column", "text"} and d["text"][0] in [("call", ".group", (el, g), ()) for g in g1] and any(
                    lin_eq(d["column"][0], ("binop", "Add", ("binop", "Add", ("attr", line, N.INDENT), sf), const(off))) for sf, off in start_forms)
                ok = okp and okd
                found = {"pattern": regexnf.describe(it[2][0][1], fl) if it and is_const(it[2][0]) else fmt(it, I), "item": fmt(segs[0][2][0][1], I)}
        rep.ob(rid, "tags are the backtick-quoted '@' words of the line, each with the column of its own '@' (indent + match start + 2)", ok, **kw,
               expected="for m in re.finditer('`(@[^`]+)`', line): {'column': indent + m.start() + 2, 'text': m.group(1)}", found=found)
        gs = nf.guards_in_ctx(ctx)
        from ..frame import truthy_forms
        okg = len(gs) == 1 and any(nf.norm_guard(f_, True) == gs[0] for f_ in truthy_forms(items))
        rep.ob(rid, "a line is a tag line iff it has at least one such tag", okg, **kw,
               expected="len(tags) > 0", found=[(fmt(c, I), p) for c, p in gs])


def rule_doc(rep: Report, rid="C19.doc") -> None:
    txt = read_text("MARKDOWN_WITH_GHERKIN.md")
    needed = ["2-5", "header"]
    rep.ob(rid, "MARKDOWN_WITH_GHERKIN.md still documents the table indentation window the matcher implements", "2-5 spaces" in txt or "2-5" in txt,
           file="MARKDOWN_WITH_GHERKIN.md", expected="'2-5 spaces'", found="present" if "2-5" in txt else "absent")
