"""C12 - table cells are split/unescaped as documented; tables are rectangular."""
from . import line_rules as lr, builder_rules as br, matcher_rules as mr
from . import misc_rules as ms

META = {
    "level": "other",
    "explanation": "The splitter touches characters only through comparisons with constants, so its loop body is abstractly interpreted "
                   "once per (before-first-pipe?, character-class sequence) - 18 rows - and the extracted transducer must equal the "
                   "documented one (\\n -> LF, \\| -> |, \\\\ -> \\, other pairs kept, lone trailing backslash kept, text before the first "
                   "and after the last pipe dropped, never raising at end of row). Trimming patterns are compared as regex normal forms "
                   "(blank but not line feed, after unescaping); README's escape list equals the transducer's; both table branches of "
                   "the builder run the first-row cell-count comparison in order and raise at the deviating row.",
    "assumptions": ["re module semantics for the two constant trimming patterns", "the grammar delivers at least one TableRow to a table node (C02)"],
}


def run(rep):
    lr.rule_split(rep, "C12.split", "C12.col")
    lr.rule_split_init(rep, "C12.cells")
    lr.rule_doc_escapes(rep, "C12.doc")
    br.rule_rect(rep, "C12.rect")
    mr.rule_token_table(rep, "C12.row", "C12.rowcol")
    # the cells reach the token (and so the builder) as the splitter made them
    mr.rule_sink(rep, "C12.sink", "C12.crlf", want=("fields",))
    # a row reaches the splitter as one physical line: lines end at line feeds only
    lr.rule_scanner(rep, "C12.line", "C12.scan")
    # no hidden state: what the property promises for one use must hold for every later use as well
    ms.rule_stateless(rep, "C12")
