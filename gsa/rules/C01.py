"""C01 - the parse/compile pipeline is total and fails only with typed, located errors."""
from . import totality_rules as tr, parser_rules as pr, error_rules as er, line_rules as lr, dialect_rules as dr, builder_rules as br, \
    matcher_rules as mr, misc_rules as ms, shape_rules as sh

META = {
    "level": "other",
    "explanation": "Exception flow: explicit raise/assert sites are propagated over the resolved call graph (dict dispatch, properties, "
                   "callable arguments of handle_external_error bound per call site) with try/except filtering, separately for "
                   "collecting and stop-at-first-error mode; the escape sets of Parser.parse, Compiler.compile and GherkinEvents.enum "
                   "must lie within the library's parser errors. Partial operations: regex patterns are constant or re.escape'd and "
                   "replacements are not data; optional AST keys are read only under 'in' tests; constant indexes have a dominating "
                   "emptiness guard or a grammar justification; next() always has a default; dictionaries the code builds are read with computed keys only under a membership test; file-system calls on the source text are "
                   "reported. Termination/linearity: every state returned is dispatched, the loop ends at EOF, look-ahead loops stop at "
                   "EOF, no look-ahead restarts inside a run already looked past (constant matcher calls per line); the error cap.",
    "assumptions": ["implicit exceptions of library calls outside the five categories (e.g. MemoryError, RecursionError) are out of scope",
                    "an assert whose condition the interpreter can neither prove nor refute is taken as stated by its author (listed per site in the obligations)",
                    "optional parameters added to an entry point after the pinned API (gsa/api_signatures.json) are evaluated at their default",
                    "user-supplied matcher/builder objects obey the same contracts"],
}


def run(rep):
    tr.rule_exc(rep)
    tr.rule_partial(rep)
    pr.rule_state_safety(rep)
    pr.rule_linear(rep)
    lr.rule_token(rep, "C01.token")
    pr.rule_parse_frame(rep, "C01.loop")
    er.rule_cap(rep)
    er.rule_handle_external(rep, "C01.wrap")
    er.rule_messages(rep, "C01.located")
    er.rule_stream(rep, "C01.stream")
    lr.rule_split(rep, "C01.split", "C01.splitcol")
    dr.rule_data(rep, "C01.data")
    dr.rule_dialect(rep, "C01.dialect")
    br.rule_rect(rep, "C01.rect")
    # totality over histories: a re-used parser / matcher / builder starts every parse from a clean state (a stale doc-string
    # mode or rule stack turns a valid text into an untyped failure)
    mr.rule_reset(rep, "C01.reset", classes=(mr.MQ, "gherkin.ast_builder.AstBuilder"))
    ms.rule_parse_resets(rep, "C01.parsereset")
    sh.rule_key_reads(rep, "C01.reads")
    # an unknown dialect is a typed, located error; the look-ahead stops at EOF through the EOF-guarded wrappers
    dr.rule_header(rep, "C01.header")
    pr.rule_look(rep, "C01.look")
    # no hidden state: what the property promises for one use must hold for every later use as well
    ms.rule_stateless(rep, "C01")
