"""Key-set / None-flow analysis of every emitted dictionary against the TypedDict declarations (C17.shape, C17.none)."""
from __future__ import annotations

import ast
import itertools

from ..absint import HList, HDict, NONE, const, is_const, fmt
from ..astutil import unparse
from ..names import N
from ..common import AnalysisError, Report
from ..facts import facts
from .. import nf
from . import builder_rules as br
from . import compiler_rules as cr
from .matcher_rules import cond_atoms, resolve_conds

# documented deviations: declared required but legitimately absent (guarded by the readers, see C01.partial)
OPTIONAL_IN_PRACTICE = {("Examples", "tableHeader"): "an Examples block without a table has no header; the compiler tests 'tableHeader' in examples",
                        ("GherkinDocument", "feature"): "an empty document has no feature; the compiler tests 'feature' in document"}


def typeddicts() -> dict[str, dict[str, bool]]:
    """name -> {key: required}"""
    f = facts()
    out = {}
    prio = ["gherkin.parser_types", "gherkin.pickles.compiler", "gherkin.stream.gherkin_events", "gherkin.stream.source_events"]
    mods = sorted(f.modules.values(), key=lambda m: (prio.index(m.name) if m.name in prio else len(prio), m.name))
    for m in mods:
        if m.name == "gherkin.inout":
            continue
        for c in m.classes.values():
            if not any(x.is_typeddict for x in c.mro()):
                continue
            keys = {}
            for x in reversed(c.mro()):
                for k, ann in x.annotations.items():
                    req = "NotRequired" not in unparse(ann)
                    keys[k] = req
            out.setdefault(c.short, keys)
        # functional form: X = TypedDict("X", {...})
        for name, val in m.globals.items():
            if isinstance(val, ast.Call) and getattr(val.func, "id", "") == "TypedDict" and len(val.args) == 2 and isinstance(val.args[1], ast.Dict):
                out[name] = {k.value: "NotRequired" not in unparse(v) for k, v in zip(val.args[1].keys, val.args[1].values) if isinstance(k, ast.Constant)}
    return out


def may_be_none(t) -> bool:
    """Can the value term be None (so that reject_nones drops the key)?"""
    if is_const(t, None):
        return True
    if isinstance(t, tuple) and t and t[0] == "cond":
        c = t[1]
        if isinstance(c, tuple) and c[0] == "cmp" and c[1] == "Is" and is_const(c[3], None):
            # ``None if x is None else f(x)``: None exactly when x is
            x = c[2]
            return (may_be_none(x) and (may_be_none(t[2]) or t[2] == x)) or may_be_none(t[3])
        return may_be_none(t[2]) or may_be_none(t[3])
    if isinstance(t, tuple) and t and t[0] == "single":
        return may_be_none(t[3])
    if isinstance(t, tuple) and t and t[0] == "call" and t[1] == ".get" and len(t[2]) in (2, 3):
        return len(t[2]) == 2 or may_be_none(t[2][2])        # mapping.get(k) is None when k is absent
    return False


def _dict_cases(I, tree, ref):
    """All (keys present, keys possibly absent) outcomes of a dict object, expanding conditional keys."""
    ents = nf.dict_content(I, nf.strip_dropnone(ref), tree)
    if ents is None:
        return None
    always, maybe = set(), set()
    dropped_ok = True
    for k, v, g in ents:
        drop = isinstance(v, tuple) and v and v[0] == "dropnone"
        vv = nf.strip_dropnone(v)
        atoms = cond_atoms(k) if isinstance(k, tuple) else []
        if not is_const(k):
            if isinstance(k, tuple) and k[0] == "op":
                continue
            # conditional key: enumerate
            at = cond_atoms(("pair", k, vv))
            for bits in itertools.product([True, False], repeat=len(at)):
                a = dict(zip(at, bits))
                kk = resolve_conds(k, a)
                val = resolve_conds(vv, a)
                if not is_const(kk):
                    return None
                if drop and is_const(val, None):
                    continue
                maybe.add(kk[1])
            continue
        key = k[1]
        if g:
            maybe.add(key)
        elif drop and may_be_none(br.canon(vv)):
            maybe.add(key)
        elif not drop and may_be_none(br.canon(vv)):
            always.add(key)
            dropped_ok = False
        else:
            always.add(key)
    return always, maybe - always


def rule_shape(rep: Report, rid="C17.shape", rid_none="C17.none") -> None:
    tds = typeddicts()
    rep.floor("TypedDict declarations", len(tds), 10)
    b = br.bnf()
    I = b.I
    rep.used_file(br.BFILE)
    rep.used_file("python/gherkin/parser_types.py")
    branch_td = {"Step": "Step", "DocString": "DocString", "DataTable": "DataTable", "Background": "Background", "ScenarioDefinition": "Scenario",
                 "ExamplesDefinition": "Examples", "Rule": "Rule", "Feature": "Feature", "GherkinDocument": "GherkinDocument"}

    def check(td_name, ref, tree, I_, where, file, line, function):
        decl = tds.get(td_name)
        if decl is None:
            rep.ob(rid, f"{where}: TypedDict {td_name} is declared", False, file=file, line=line, function=function, expected="declaration", found="missing")
            return
        cs = _dict_cases(I_, tree, ref)
        if cs is None:
            rep.ob(rid, f"{where}: the emitted {td_name} has statically known keys", False, file=file, line=line, function=function, expected="constant keys", found=fmt(ref, I_)[:200])
            return
        always, maybe = cs
        extra = (always | maybe) - set(decl)
        rep.ob(rid, f"{where}: every key of the emitted {td_name} is declared for it", not extra, file=file, line=line, function=function,
               expected=sorted(decl), found=sorted(extra) or "all declared")
        missing = {k for k, req in decl.items() if req and k not in always and (td_name, k) not in OPTIONAL_IN_PRACTICE}
        rep.ob(rid, f"{where}: required keys of {td_name} are always present", not missing, file=file, line=line, function=function,
               expected=sorted(k for k, r in decl.items() if r), found={"always": sorted(always), "sometimes": sorted(maybe)})
        bad_opt = {k for k in maybe if decl.get(k, False) and (td_name, k) not in OPTIONAL_IN_PRACTICE}
        rep.ob(rid_none, f"{where}: only optional keys of {td_name} can be absent, and absent rather than null", not bad_opt, file=file, line=line, function=function,
               expected=sorted(k for k, r in decl.items() if not r) + [k for (t, k) in OPTIONAL_IN_PRACTICE if t == td_name], found=sorted(maybe))
        # null values: a value that may be None must go through reject_nones or a guard
        ents = nf.dict_content(I_, nf.strip_dropnone(ref), tree) or []
        nulls = [k[1] for k, v, g in ents if is_const(k) and not (isinstance(v, tuple) and v and v[0] == "dropnone") and may_be_none(br.canon(v)) and not g]
        rep.ob(rid_none, f"{where}: no field of {td_name} can be emitted as null", not nulls, file=file, line=line, function=function, expected="None values dropped or guarded", found=nulls or "none")

    for p, td in branch_td.items():
        brn = b.branches.get(p)
        mr_ = br._main_return(b, brn) if brn else None
        if mr_ is None:
            rep.ob(rid, f"builder branch {p} returns a dictionary", False, **br._kw(b), expected="dict", found="missing")
            continue
        check(td, mr_[0], b.tree, I, f"builder {p}", br.BFILE, mr_[1], b.fi.qualname)
    # nested constructions: rows, cells, tags (by key signature)
    seen = set()
    for n, ctx in nf.iter_nodes(b.tree):
        if n[0] != "alloc" or not isinstance(I.obj(n[1]), HDict):
            continue
        d = nf.resolve_ref_dict(I, n[1], b.tree) or {}
        ks = frozenset(k for k in d if isinstance(k, str))
        td = {frozenset({"id", "location", "cells"}): "TableRow", frozenset({"location", "value"}): "Cell", frozenset({"id", "location", "name"}): "Tag"}.get(ks)
        if td and (td, n[2]) not in seen:
            seen.add((td, n[2]))
            check(td, n[1], b.tree, I, f"builder {td.lower()}", br.BFILE, n[2], b.fi.qualname)
    # every other dictionary the builder constructs (locations, envelopes, ...) has the shape of some declared TypedDict
    def fits(always, maybe, decl, name):
        keys = always | maybe
        return keys <= set(decl) and all(k in always or (name, k) in OPTIONAL_IN_PRACTICE for k, req in decl.items() if req)
    nshape = 0
    emitted = set()
    seen_refs: set = set()
    for brn in b.branches.values():
        for v, _line, _gs in brn.returns:
            for t in b.deep_terms(v, seen_refs, values_only=True):
                if t[0] == "ref":
                    emitted.add(t)
    for n, ctx in nf.iter_nodes(b.tree):
        if n[0] != "alloc" or not isinstance(I.obj(n[1]), HDict) or n[1] not in emitted:
            continue        # intermediate dictionaries (e.g. the argument of reject_nones) are not part of the AST
        cs = _dict_cases(I, b.tree, n[1])
        if cs is None:
            continue
        always, maybe = cs
        if not (always | maybe):
            continue
        nshape += 1
        cands = [name for name, decl in tds.items() if fits(always, maybe, decl, name)]
        closest = sorted(tds, key=lambda name: -len(set(tds[name]) & (always | maybe)))[:1]
        rep.ob(rid, f"a dictionary built by the AST builder has the shape of a declared TypedDict", bool(cands), file=br.BFILE, line=n[2], function=b.fi.qualname,
               expected=(f"e.g. {closest[0]}: {sorted(tds[closest[0]])}" if closest else "a declared shape"), found=sorted(always | maybe))
    rep.floor("dictionaries built by the AST builder", nshape, 12)
    # compiler
    c = cr.cnf()
    rep.used_file(cr.CFILE)
    for e in c.emits:
        line = c.line_of(e["node"])
        tag = f"{e['level']}-level {e['kind']}"
        if e["node"][3]:
            check("Pickle", e["node"][3][0], c.tree, c.I, f"compiler {tag} pickle", cr.CFILE, line, cr._fn_at(c, line))
        sref, ents = cr._steps_info(c, e)
        for x in ents or []:
            if x[3] is not None:
                check("PickleStep", x[3], c.tree, c.I, f"compiler {tag} pickle step", cr.CFILE, line, cr._fn_at(c, line))
        # everything nested in the pickle (arguments, rows, cells): no field may be emitted as null.  Values are judged
        # under the conditions of the path that leads to them (the arm of a selection they sit in, the guards of their entry)
        if e["node"][3]:
            seen_n: set = set()
            stack = [(e["node"][3][0], ())]
            while stack:
                t, assume = stack.pop()
                if not isinstance(t, tuple) or not t:
                    continue
                if t[0] == "cond":
                    a_ = dict(assume)
                    atoms_ = []
                    nf._test_atoms(t[1], atoms_)
                    try:
                        v_ = nf.eval_test(t[1], a_)
                        stack.append((t[2] if v_ else t[3], assume))
                    except KeyError:
                        if len(atoms_) == 1 and atoms_[0] == t[1]:
                            stack.append((t[2], assume + ((t[1], True),)))
                            stack.append((t[3], assume + ((t[1], False),)))
                        else:
                            stack.append((t[2], assume))
                            stack.append((t[3], assume))
                    continue
                if t[0] == "ref":
                    if (t, assume) in seen_n:
                        continue
                    seen_n.add((t, assume))
                    o = c.I.obj(t)
                    if isinstance(o, HDict):
                        for k, v, g in nf.dict_content(c.I, t, c.tree) or []:
                            here = dict(assume)
                            for gc, gp in g or ():
                                here.setdefault(gc, gp)
                            v2 = nf.resolve_conds(v, here) if isinstance(v, tuple) else v
                            if is_const(k) and not (isinstance(v, tuple) and v and v[0] == "dropnone") and may_be_none(v2):
                                rep.ob(rid_none, f"compiler {tag}: no field nested in a pickle can be emitted as null", False, file=cr.CFILE, line=line,
                                       function=cr._fn_at(c, line), expected="absent rather than null", found=f"{k[1]} = {fmt(v2, c.I)[:120]}")
                            stack.append((v2, tuple(here.items())))
                    elif hasattr(o, "segs"):
                        for kind, term, _l, _g in nf.seg_elems(nf.flatten_segs(c.I, nf.list_content(c.I, t, c.tree), c.tree)):
                            stack.append((term, assume))
                    continue
                for x in t:
                    if isinstance(x, tuple):
                        stack.append((x, assume))
        d = cr._pickle(c, e)
        if d and "tags" in d and d["tags"][0][0] == "ref":
            sl = cr.single_loop_list(c.I, c.tree, d["tags"][0])
            if sl:
                check("PickleTag", sl[1], c.tree, c.I, f"compiler {tag} pickle tag", cr.CFILE, line, cr._fn_at(c, line))
    # comments
    rep.ob(rid, "comment dictionaries are {location, text}", tds.get("Comment") == {"location": True, "text": True}, file="python/gherkin/parser_types.py",
           function="Comment", expected={"location": True, "text": True}, found=tds.get("Comment"))


def rule_vocab(rep: Report, rid="C17.vocab") -> None:
    """keywordType values come from the five constants; the source media type is the Gherkin constant."""
    from . import matcher_rules as mr
    from ..absint import new_interp
    I = new_interp()
    q = f"{mr.MQ}.{N.CHANGE_DIALECT}"
    fi = I.facts.func(q)
    tree, rv, st = I.run(q)
    vals = sorted({n[3][0][1] for n, _ in nf.iter_nodes(tree) if n[0] == "mutate" and n[2] == "append" and n[3] and is_const(n[3][0]) and isinstance(n[3][0][1], str)})
    rep.eq(rid, "step keyword categories are Context, Action, Outcome, Conjunction", ["Action", "Conjunction", "Context", "Outcome"], vals, file=fi.file, line=fi.node.lineno, function=q)
    m = mr.mnf().methods["StepLine"]
    consts = set()
    for sn, ctx in m.sinks:
        kt = sn[1].get("keyword_type")
        for t in nf.subterms(kt) if kt else []:
            if is_const(t) and isinstance(t[1], str):
                consts.add(t[1])
    rep.eq(rid, "the only other keyword type a step can get is 'Unknown'", ["Unknown"], sorted(consts), **mr._kw(m))


def rule_key_reads(rep: Report, rid="C17.reads") -> None:
    """Reader side of the shape agreement: every constant key the compiler reads from (or tests on) an AST / pickle
    dictionary is a key its TypedDict declares (own, inherited, or of a declared sub-shape such as the child envelopes)."""
    from .. import tytype
    c = cr.cnf()
    I = c.I
    rep.used_function(c.fi.qualname)
    rs = tytype.key_reads(I, c.tree, c.fi)
    typed = [r for r in rs if r[3]]
    rep.floor("typed key reads in the compiler", len(typed), 40)
    for line, key, base, cls, ok in typed:
        rep.ob(rid, f"the compiler reads key '{key}' of {' | '.join(sorted(x.short for x in cls))}", bool(ok), file=cr.CFILE, line=line, function=c.fi.qualname,
               expected=f"a declared key: {sorted(set().union(*[set(tytype.Typer(I, c.tree, c.fi).keys_of(x)) for x in cls]))}", found=f"{fmt(base, I)[:120]}[{key!r}]")
    rep.counts["untyped key reads (no annotation reaches them)"] = len(rs) - len(typed)
