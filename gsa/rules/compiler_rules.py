"""Rules on the normal form of the pickle compiler (C06-C11, parts of C01/C15/C17)."""
from __future__ import annotations

from ..absint import new_interp, Interp, HList, HDict, NONE, const, is_const, fmt, fmt_seg, fmt_tree, mk_not, mk_cmp, mk_cond
from ..names import N
from ..common import AnalysisError, Report
from ..facts import facts
from .. import nf

CFILE = "python/gherkin/pickles/compiler.py"
CQ = "gherkin.pickles.compiler.Compiler"


def I_(k):
    return ("item", k[0], const(k[1])) if False else None


def item(base, key):
    return ("item", base, const(key))


def key_in(key, base):
    return ("cmp", "In", const(key), base)


class CompilerNF:
    """Normal form of Compiler.compile with all helpers inlined, and the emission skeleton matched against the
    specification of C06 (one pickle per plain scenario / per body row of each headed examples table)."""

    def __init__(self) -> None:
        self.I = I = new_interp()
        self.fi = I.facts.func(f"{CQ}.compile")
        params = self.fi.params()
        if len(params) < 2:
            raise AnalysisError("Compiler.compile lost its document parameter")
        self.doc = ("param", params[1])
        self.selft = ("param", params[0])
        self.tree, self.rv, self.final = I.run(f"{CQ}.compile")
        self.problems: list[tuple] = []      # (what, expected, found, line)
        self.emits: list[dict] = []
        self.out = None
        self._find_output()
        if self.out is not None:
            self._match_skeleton()

    # -- the returned accumulator ---------------------------------------------------------
    def _find_output(self) -> None:
        rv = self.rv
        cands = set()
        for t in nf.subterms(rv):
            if t[0] == "ref" and isinstance(self.I.obj(t), HList):
                cands.add(t)
        # strip cond wrappers: every alternative must be the same list object
        def alts(t):
            if t[0] == "cond":
                return alts(t[2]) + alts(t[3])
            return [t]
        al = alts(rv)
        objs = {a for a in al if a[0] == "ref"}
        # an early exit may hand back a list of its own as long as it stays empty (nothing to compile)
        def stays_empty(a):
            return a[0] == "ref" and isinstance(self.I.obj(a), HList) and not self.I.obj(a).segs \
                and not any(n[0] == "mutate" and n[1] == a for n, _ in nf.iter_nodes(self.tree))
        filled = {a for a in objs if not stays_empty(a)}
        if len(filled) == 1 and all(a[0] == "ref" for a in al):
            objs = filled
        if len(objs) != 1 or any(a[0] != "ref" for a in al):
            self.problems.append(("compile returns one accumulator list on every path", "a single list object",
                                  fmt(rv, self.I), self.fi.node.lineno))
            if len(objs) >= 1:
                self.out = sorted(objs)[0]
            return
        self.out = objs.pop()

    def is_emit(self, n) -> bool:
        return n[0] == "mutate" and n[1] == self.out

    def line_of(self, n) -> int | None:
        for x in reversed(n):
            if isinstance(x, int):
                return x
        return None

    # -- skeleton -----------------------------------------------------------------------------
    def _paths(self, pt, conds=()):
        out = []
        for n in pt:
            if n[0] == "if":
                out += self._paths(n[2], conds + ((n[1], True),))
                out += self._paths(n[3], conds + ((n[1], False),))
            else:
                out.append((conds, n))
        return out

    def _kind_of(self, conds, child, kinds):
        """Which child kind a path handles, from tests ``'<k>' in child`` (or child.get('<k>'))."""
        pos = set()
        neg = set()
        rest = []
        for c, pol in conds:
            k = None
            if c[0] == "cmp" and c[1] == "In" and is_const(c[2]) and c[3] == child:
                k = c[2][1]
            elif c[0] == "call" and c[1] == ".get" and len(c[2]) == 2 and c[2][0] == child and is_const(c[2][1]):
                k = c[2][1][1]
            if k is not None and k in kinds:
                (pos if pol else neg).add(k)
            else:
                rest.append((c, pol))
        if len(pos) == 1:
            return pos.pop(), rest
        if not pos:
            remain = [k for k in kinds if k not in neg]
            if len(remain) == 1:
                return remain[0], rest
        return None, rest

    def _truthy_of(self, c, term) -> bool:
        return c == term or c == mk_cmp("Gt", ("call", "len", (term,), ()), const(0)) or c == ("call", "len", (term,), ()) \
            or c == ("call", "bool", (term,), ())

    def _match_skeleton(self) -> None:
        I = self.I
        pt = nf.norm_if(nf.project(self.tree, self.is_emit))
        doc = self.doc
        feature = item(doc, "feature")
        # vacuous guards around the traversal
        cur = pt
        while len(cur) == 1 and cur[0][0] == "if":
            c, t, e = cur[0][1], cur[0][2], cur[0][3]
            vac = [key_in("feature", doc), item(feature, "children"), feature, ("call", ".get", (doc, const("feature")), ())]
            if c in vac and not e:
                cur = t
                continue
            if c[0] == "bool" and c[1] == "and" and all(x in vac for x in c[2]) and not e:
                cur = t         # the same vacuous tests, combined
                continue
            self.problems.append(("pickle emission is not guarded by anything but 'no feature' / 'no children'",
                                  "loop over feature.children", fmt(c, I), None))
            return
        loops = [n for n in cur if n[0] == "loop"]
        leaves = [n for n in cur if n[0] != "loop"]
        if len(loops) != 1 or leaves:
            self.problems.append(("exactly one traversal of the feature's children emits pickles", "one loop, no emission outside",
                                  f"{len(loops)} loop(s), {len(leaves)} other emission node(s)", None))
            return
        self._match_children(loops[0], item(feature, "children"), ("background", "rule", "scenario"), {"doc": doc, "feature": feature}, "feature")

    def _match_children(self, loop, expect_iter, kinds, env, level) -> None:
        I = self.I
        lid = loop[1]
        info = I.loops[lid]
        if info.get("iter") != expect_iter or info.get("conds"):
            self.problems.append((f"{level} children are traversed in document order, all of them", fmt(expect_iter, I),
                                  fmt(info.get("iter"), I) + (f" if {info.get('conds')}" if info.get("conds") else ""), info.get("line")))
            return
        child = ("elem", lid)
        env = dict(env)
        env[f"{level}_loop"] = lid
        seen = {"plain": 0, "outline": 0, "rule": 0}
        for conds, n in self._paths(loop[2]):
            k, rest = self._kind_of(conds, child, kinds)
            line = self.line_of(n[1]) if n[0] == "leaf" else I.loops[n[1]].get("line")
            if k is None:
                self.problems.append((f"{level} child case analysis is by envelope key ({'/'.join(kinds)})", "one kind per path",
                                      [(fmt(c, I), p) for c, p in conds], line))
                continue
            if k == "background":
                self.problems.append((f"a background envelope of the {level} yields no pickle", "no emission", "emission on the background path", line))
                continue
            if k == "rule":
                if n[0] != "loop" or rest:
                    self.problems.append(("a rule envelope is compiled by traversing the rule's children unconditionally",
                                          "loop over rule.children", [(fmt(c, I), p) for c, p in rest] + [n[0]], line))
                    continue
                seen["rule"] += 1
                rule = item(child, "rule")
                e2 = dict(env)
                e2["rule"] = rule
                self._match_children(n, item(rule, "children"), ("background", "scenario"), e2, "rule")
                continue
            scenario = item(child, "scenario")
            examples = item(scenario, "examples")
            e2 = dict(env)
            e2["scenario"] = scenario
            if len(rest) != 1 or not self._truthy_of(rest[0][0], examples):
                self.problems.append(("plain/outline dispatch is on the presence of examples, nothing else",
                                      "if not scenario.examples: plain else: outline", [(fmt(c, I), p) for c, p in rest], line))
                continue
            if not rest[0][1]:
                if n[0] != "leaf":
                    self.problems.append(("a scenario without examples yields exactly one pickle", "one emission", "a loop", line))
                    continue
                seen["plain"] += 1
                self.emits.append({"kind": "plain", "level": level, "node": n[1], "env": e2})
                continue
            # outline
            if n[0] != "loop":
                self.problems.append(("an outline yields pickles per examples block and row", "loop over scenario.examples", "direct emission", line))
                continue
            seen["outline"] += 1
            self._match_outline(n, examples, e2, level)
        want = {"plain": 1, "outline": 1, "rule": 1 if "rule" in kinds else 0}
        for k, v in want.items():
            if seen[k] != v:
                self.problems.append((f"{level} level handles {k} children exactly once", v, seen[k], info.get("line")))

    def _match_outline(self, loop, examples, env, level) -> None:
        I = self.I
        lid = loop[1]
        info = I.loops[lid]
        if info.get("iter") != examples or info.get("conds"):
            self.problems.append(("all examples blocks of an outline are traversed in order", fmt(examples, I), fmt(info.get("iter"), I), info.get("line")))
            return
        ex = ("elem", lid)
        paths = self._paths(loop[2])
        if len(paths) != 1:
            self.problems.append(("each examples block contributes through one row loop", 1, len(paths), info.get("line")))
            return
        conds, n = paths[0]
        hdr_ok = [key_in("tableHeader", ex), ("call", ".get", (ex, const("tableHeader")), ())]
        if len(conds) != 1 or conds[0][0] not in hdr_ok or not conds[0][1] or n[0] != "loop":
            self.problems.append(("an examples block yields rows iff it has a table header",
                                  "if 'tableHeader' in examples: loop over examples.tableBody",
                                  [(fmt(c, I), p) for c, p in conds] + [n[0]], info.get("line")))
            return
        rl = n[1]
        rinfo = I.loops[rl]
        if rinfo.get("iter") != item(ex, "tableBody") or rinfo.get("conds"):
            self.problems.append(("every body row of the examples table is traversed in order", fmt(item(ex, "tableBody"), I),
                                  fmt(rinfo.get("iter"), I), rinfo.get("line")))
            return
        row = ("elem", rl)
        rp = self._paths(n[2])
        if len(rp) != 1 or rp[0][0] or rp[0][1][0] != "leaf":
            self.problems.append(("each body row yields exactly one pickle, unconditionally", "one emission per row",
                                  [([(fmt(c, I), p) for c, p in cs], x[0]) for cs, x in rp], rinfo.get("line")))
            return
        e2 = dict(env)
        e2.update({"examples": ex, "row": row, "examples_loop": lid, "row_loop": rl})
        self.emits.append({"kind": "outline", "level": level, "node": rp[0][1][1], "env": e2})


_CNF = None


def cnf() -> CompilerNF:
    global _CNF
    if _CNF is None:
        _CNF = CompilerNF()
    return _CNF


# ---- value-flow matchers --------------------------------------------------------------------
def placeholder_header(t):
    """h such that t is the text '<' + h + '>' (concatenation, f-string or str.format), else None."""
    if t[0] == "binop" and t[1] == "Add":
        a, b = t[2], t[3]
        if is_const(b, ">") and a[0] == "binop" and a[1] == "Add" and is_const(a[2], "<"):
            return a[3]
        if is_const(a, "<") and b[0] == "binop" and b[1] == "Add" and is_const(b[3], ">"):
            return b[2]
    if t[0] == "fstr" and len(t[1]) == 3 and is_const(t[1][0], "<") and is_const(t[1][2], ">"):
        return t[1][1]
    if t[0] == "call" and t[1] == ".format" and len(t[2]) == 2 and is_const(t[2][0], "<{}>", "<{0}>"):
        return t[2][1]
    return None


class InterpNF:
    """A recognised literal per-column substitution:  for n, h in enumerate(H): s = s.replace('<'+h.value+'>', V[n].value)."""
    def __init__(self, subject, headers, values, loop, why=None):
        self.subject, self.headers, self.values, self.loop, self.why = subject, headers, values, loop, why


def _as_literal_replace(I: Interp, t):
    """``re.sub(re.escape(K), f, text)`` with ``f`` a function that answers the same V for every match and no flags / count
    is ``text.replace(K, V)``: every non-overlapping occurrence of the literal K, left to right, replaced by V as it is."""
    if not (isinstance(t, tuple) and t and t[0] == "call" and t[1] == "re.sub" and len(t[2]) == 3 and not t[3]):
        return t
    pat, repl, subject = t[2]
    if pat[0] == "call" and pat[1] == "re.compile" and len(pat[2]) == 1 and not pat[3]:
        pat = pat[2][0]
    if not (pat[0] == "call" and pat[1] == "re.escape" and len(pat[2]) == 1):
        return t
    if not (isinstance(repl, tuple) and repl and repl[0] == "lambda" and len(repl) >= 4):
        return t
    try:
        from ..absint import State
        fi_c, _env = I.closures[repl[3]]
        if len(fi_c.node.args.args) - len(fi_c.node.args.defaults) != 1:
            return t
        probe = ("cbarg", repl[3], 0)
        sub: list = []
        v = I.apply(State(), repl, [probe], {}, None, sub)
    except AnalysisError:
        raise
    except Exception:
        return t
    if nf.contains(v, lambda x: x == probe) or not Interp._effect_free(sub):
        return t
    return ("call", ".replace", (subject, pat[2][0], v), ())


def match_interp(I: Interp, t) -> InterpNF | None:
    """Recognise the value of an interpolated string; returns InterpNF (why != None explains a deviation)."""
    subj_guard = None
    if t[0] == "cond":
        c = t[1]
        if c[0] == "cmp" and c[1] == "Is" and is_const(c[3], None) and (t[2] == c[2] or is_const(t[2], None)):
            subj_guard = c[2]
            t = t[3]
    if t[0] != "loopout":
        return None
    lid, var = t[1], t[2]
    info = I.loops.get(lid)
    if info is None or var not in info.get("carried", {}):
        return None
    upd = info["carried"][var]
    init = info.get("carried_init", {}).get(var)
    it = info.get("iter")
    r = InterpNF(init, None, None, lid)
    if subj_guard is not None and subj_guard != init:
        r.why = "None-guard tests a different value than the one substituted"
    phi = ("phi", lid, var)
    # iteration: enumerate(H) with V[idx], or zip(H, V)
    hcell = vcell = None
    if it is not None and it[0] == "call" and it[1] == "enumerate" and len(it[2]) == 1:
        r.headers = it[2][0]
        hcell = ("elem", lid)
    elif it is not None and it[0] == "call" and it[1] == "zip" and len(it[2]) == 2:
        r.headers, r.values = it[2]
        hcell, vcell = ("item", ("elem", lid), const(0)), ("item", ("elem", lid), const(1))
    else:
        r.why = f"columns are not applied by one loop over the header cells (iterates {fmt(it, I)})"
        return r
    if info.get("conds"):
        r.why = "header loop is filtered"
        return r
    upd = _as_literal_replace(I, upd)
    if not (upd[0] == "call" and upd[1] == ".replace" and len(upd[2]) == 3 and upd[2][0] == phi):
        r.why = f"substitution primitive is not literal str.replace on the running text: {fmt(upd, I)}"
        return r
    ph = placeholder_header(upd[2][1])
    if ph != ("item", hcell, const("value")):
        r.why = f"placeholder is not '<' + header cell value + '>': {fmt(upd[2][1], I)}"
        return r
    val = upd[2][2]
    if vcell is None:
        if val[0] == "item" and is_const(val[2], "value") and val[1][0] == "item" and val[1][2] == ("idx", lid):
            r.values = val[1][1]
        else:
            r.why = f"value for header n is not row.cells[n].value: {fmt(val, I)}"
            return r
    elif val != ("item", vcell, const("value")):
        r.why = f"value is not the zipped value cell's value: {fmt(val, I)}"
        return r
    return r


def is_empty_list(I: Interp, t, tree) -> bool:
    o = I.obj(t)
    if isinstance(o, HList):
        return not nf.list_content(I, t, tree)
    return t == ("tuple", ())


def check_text(I, tree, t, source, H, V, what):
    """t must be source (when H, V are the empty lists / no interpolation) or Interp(source, H, V).
    Returns None if ok else explanation."""
    if H is None:
        if t == source:
            return None
        # ``None if x is None else x`` (an early ``return None`` for an absent text, the rest of the function a no-op) is x
        if t[0] == "cond" and t[1] in (("cmp", "Is", source, NONE), ("cmp", "Eq", source, NONE)) and t[2] == NONE and t[3] == source:
            return None
        m = match_interp(I, t)
        if m is not None and m.why is None and m.subject == source and is_empty_list(I, m.headers, tree) and is_empty_list(I, m.values, tree):
            return None
        return f"{what} should be {fmt(source, I)} unchanged, found {fmt(t, I)}"
    m = match_interp(I, t)
    if m is None:
        return f"{what} should be interpolate({fmt(source, I)}), found {fmt(t, I)}"
    if m.why:
        return f"{what}: {m.why}"
    if m.subject != source:
        return f"{what} substitutes into {fmt(m.subject, I)} instead of {fmt(source, I)}"
    if m.headers != H or m.values != V:
        return f"{what} uses headers {fmt(m.headers, I)} / values {fmt(m.values, I)} instead of {fmt(H, I)} / {fmt(V, I)}"
    return None


def single_loop_list(I, tree, ref):
    """If list ``ref`` is exactly [for x in IT: ELT] (comprehension or append-loop) return (loop id, elt term)."""
    segs = nf.flatten_segs(I, nf.list_content(I, ref, tree), tree)
    if len(segs) == 1 and segs[0][0] == "loop" and len(segs[0][2]) == 1 and segs[0][2][0][0] == "e":
        return segs[0][1], segs[0][2][0][1]
    return None


def check_argument(I, tree, arg, step, H, V, guards=None):
    """arg must be the copy of step's dataTable / docString (interpolated with H, V when given), present exactly when the
    step has one - decided per case over ('dataTable' in step, 'docString' in step), whatever shape the selection has."""
    import itertools
    probs = []
    dt_in = key_in("dataTable", step)
    ds_in = key_in("docString", step)

    def guard_holds(c, pol, assign):
        if c[0] == "cmp" and c[1] == "Is" and is_const(c[3], None):
            leaf = nf.resolve_conds(c[2], assign)
            if is_const(leaf):
                return (leaf[1] is None) == pol
            if leaf[0] in ("ref", "tuple"):
                return (False) == pol
            return None
        try:
            return nf.eval_test(c, assign) == pol
        except KeyError:
            return None

    atoms = set(nf.cond_atoms(("pair", arg) + tuple(c for c, _ in guards or ())))
    extra_atoms = {a_ for a_ in atoms if a_ not in (dt_in, ds_in) and not (a_[0] == "cmp" and a_[1] == "Is")}
    if extra_atoms:
        return [f"argument depends on {[fmt(a_, I) for a_ in sorted(extra_atoms, key=str)][:3]}, not only on which argument the step has"]
    dt = ds = None
    for has_dt, has_ds in itertools.product((True, False), repeat=2):
        assign = {dt_in: has_dt, ds_in: has_ds}
        leaf = nf.resolve_conds(arg, assign)
        if guards is not None:
            hs = [guard_holds(c, p_, assign) for c, p_ in guards]
            if any(h is None for h in hs):
                return [f"'argument' is set under a guard that is not decided by which argument the step has: {[(fmt(c, I), p_) for c, p_ in guards]}"]
            is_set = all(hs)
            if is_set != (has_dt or has_ds):
                probs.append(f"'argument' is not set exactly when an argument exists (case dataTable={has_dt}, docString={has_ds}: set={is_set}; guards {[(fmt(c, I), p_) for c, p_ in guards]})")
                continue
        elif not (has_dt or has_ds):
            if not is_const(leaf, None):
                probs.append(f"a step without argument gets {fmt(leaf, I)[:80]}")
            continue
        if not (has_dt or has_ds):
            continue
        if has_dt:
            if dt is not None and leaf != dt:
                probs.append("the data table argument differs between cases")
            dt = leaf
        else:
            ds = leaf
    if dt is None or ds is None or probs:
        return probs or ["argument cases could not be separated"]
    d = nf.resolve_ref_dict(I, dt, tree)
    if d is None or set(d) != {"dataTable"}:
        probs.append(f"data table argument envelope has keys {sorted(map(str, d or []))}")
    else:
        tab = nf.resolve_ref_dict(I, d["dataTable"][0], tree)
        if tab is None or set(tab) != {"rows"}:
            probs.append("pickle table is not {'rows': ...}")
        else:
            rl = single_loop_list(I, tree, tab["rows"][0])
            if rl is None or I.loops[rl[0]].get("iter") != item(item(step, "dataTable"), "rows") or I.loops[rl[0]].get("conds"):
                probs.append(f"pickle table rows are not the step's rows in order: {fmt(tab['rows'][0], I)}")
            else:
                rowd = nf.resolve_ref_dict(I, rl[1], tree)
                if rowd is None or set(rowd) != {"cells"}:
                    probs.append("pickle table row is not {'cells': ...}")
                else:
                    cl = single_loop_list(I, tree, rowd["cells"][0])
                    if cl is None or I.loops[cl[0]].get("iter") != item(("elem", rl[0]), "cells") or I.loops[cl[0]].get("conds"):
                        probs.append(f"pickle cells are not the row's cells in order: {fmt(rowd['cells'][0], I)}")
                    else:
                        cd = nf.resolve_ref_dict(I, cl[1], tree)
                        if cd is None or set(cd) != {"value"}:
                            probs.append("pickle cell is not {'value': ...}")
                        else:
                            w = check_text(I, tree, cd["value"][0], item(("elem", cl[0]), "value"), H, V, "data table cell value")
                            if w:
                                probs.append(w)
    d = nf.resolve_ref_dict(I, ds, tree)
    if d is None or set(d) != {"docString"}:
        probs.append(f"doc string argument envelope has keys {sorted(map(str, d or []))}")
    else:
        dd = nf.resolve_ref_dict(I, d["docString"][0], tree)
        src = item(step, "docString")
        if dd is None or not {"content"} <= set(dd) <= {"content", "mediaType"}:
            probs.append(f"pickle doc string has keys {sorted(map(str, dd or []))}")
        else:
            w = check_text(I, tree, dd["content"][0], item(src, "content"), H, V, "doc string content")
            if w:
                probs.append(w)
            if "mediaType" not in dd:
                probs.append("doc string media type is not carried over")
            else:
                v, g = dd["mediaType"]
                w = check_text(I, tree, v, item(src, "mediaType"), H, V, "doc string media type")
                if w:
                    probs.append(w)
                want_g = (key_in("mediaType", src), True)
                if g is not None:
                    extra = [x for x in g if x != want_g and x != (ds_in, True) and x != (dt_in, False)]
                    if want_g not in g or extra:
                        probs.append(f"media type is set under guard {[(fmt(c, I), p) for c, p in g]}, expected only 'mediaType' in docString")
    return probs


# ---- rules ----------------------------------------------------------------------------------
def _kw(c: CompilerNF, line=None, fn=None):
    return dict(file=CFILE, line=line, function=fn or c.fi.qualname)


def _fn_at(c: CompilerNF, line) -> str:
    """Qualified name of the compiler function containing ``line``."""
    if line is None:
        return c.fi.qualname
    cls = facts().cls(CQ)
    best = None
    for m in cls.methods.values():
        if m.node.lineno <= line <= (m.node.end_lineno or m.node.lineno):
            best = m.qualname
    return best or c.fi.qualname


def rule_skel(rep: Report, rid="C06.skel") -> None:
    c = cnf()
    rep.used_file(CFILE)
    for q in sorted({x[1] for x in c.I.call_log} | {c.fi.qualname}):
        rep.used_function(q)
    for what, exp, found, line in c.problems:
        rep.ob(rid, what, False, expected=exp, found=found, **_kw(c, line, _fn_at(c, line)))
    for e in c.emits:
        line = c.line_of(e["node"])
        rep.ob(rid, f"{e['level']}-level {e['kind']} scenario: one pickle per "
                    + ("scenario" if e["kind"] == "plain" else "body row of each headed examples table")
                    + ", in traversal order", True, **_kw(c, line, _fn_at(c, line)),
               expected="emission matched by the C06 skeleton", found="matched")
    rep.floor("pickle emission sites", len(c.emits), 4 if not c.problems else 0)
    # no early exit from the traversal loops
    trav = set()
    for e in c.emits:
        for k in ("feature_loop", "rule_loop", "examples_loop", "row_loop"):
            if k in e["env"]:
                trav.add(e["env"][k])
    for n, ctx in nf.iter_nodes(c.tree):
        if n[0] in ("break", "return", "raise"):
            # loops entered since the innermost inlined call
            idx = max([i for i, x in enumerate(ctx) if x[0] == "call"], default=-1)
            inner = [x[1] for x in ctx[idx + 1:] if x[0] == "loop"]
            hit = [l for l in inner if l in trav]
            if hit:
                line = c.line_of(n)
                rep.ob(rid, f"no {n[0]} leaves a traversal loop early", False, expected="continue-style skipping only",
                       found=f"{n[0]} inside loop over {fmt(c.I.loops[hit[0]].get('iter'), c.I)}", **_kw(c, line, _fn_at(c, line)))
    rep.ob(rid, "traversal loops are left only by exhaustion", True, **_kw(c), expected="no break/return/raise in traversal loops",
           found=f"{len(trav)} traversal loops checked")


def _pickle(c: CompilerNF, e):
    n = e["node"]
    if n[2] != "append" or len(n[3]) != 1:
        return None
    return nf.resolve_ref_dict(c.I, n[3][0], c.tree)


def rule_fields(rep: Report, rid="C06.fields") -> None:
    c = cnf()
    I = c.I
    for e in c.emits:
        env = e["env"]
        line = c.line_of(e["node"])
        tag = f"{e['level']}-level {e['kind']}"
        kw = _kw(c, line, _fn_at(c, line))
        d = _pickle(c, e)
        if d is None:
            rep.ob(rid, f"{tag}: the accumulator receives one pickle dictionary per emission", False,
                   expected="pickles.append({...})", found=fmt(e["node"][3][0] if e["node"][3] else None, I), **kw)
            continue
        sc = env["scenario"]
        rep.eq(rid, f"{tag}: pickle.uri is the document's uri", fmt(item(env["doc"], "uri"), I), fmt(d.get("uri", (None,))[0], I), **kw)
        rep.eq(rid, f"{tag}: pickle.language is the feature's language", fmt(item(env["feature"], "language"), I),
               fmt(d.get("language", (None,))[0], I), **kw)
        if e["kind"] == "plain":
            rep.eq(rid, f"{tag}: pickle.name is the scenario's name", fmt(item(sc, "name"), I), fmt(d.get("name", (None,))[0], I), **kw)
            want_ids = [item(sc, "id")]
        else:
            H = item(item(env["examples"], "tableHeader"), "cells")
            V = item(env["row"], "cells")
            w = check_text(I, c.tree, d.get("name", (NONE,))[0], item(sc, "name"), H, V, "pickle name")
            rep.ob(rid, f"{tag}: pickle.name is the scenario's name with this row's values substituted", w is None,
                   expected="interpolate(scenario.name, tableHeader.cells, row.cells)", found=w or "as expected", **kw)
            want_ids = [item(sc, "id"), item(env["row"], "id")]
        ids = d.get("astNodeIds", (NONE,))[0]
        segs = nf.flatten_segs(I, nf.list_content(I, ids, c.tree), c.tree) if ids[0] == "ref" else None
        rep.eq(rid, f"{tag}: pickle.astNodeIds points back to the scenario" + (" and the example row" if e["kind"] == "outline" else ""),
               [fmt(x, I) for x in want_ids], [fmt_seg(s, I) for s in segs] if segs is not None else fmt(ids, I), **kw)


def _concat_sources(I, it):
    """Sources of an iterated sequence: a '+'/display concatenation is split into its operands; a named list
    object (an accumulator) is one source."""
    if it[0] == "binop" and it[1] == "Add":
        return _concat_sources(I, it[2]) + _concat_sources(I, it[3])
    o = I.obj(it)
    if isinstance(o, HList) and o.segs and all(x[0] == "s" for x in o.segs) and not _CNF_mutated(it):
        out = []
        for x in o.segs:
            out += _concat_sources(I, x[1])      # (a copy of a copy ... of a sequence is that sequence's elements)
        return out
    return [("s", it)]


def _CNF_mutated(ref) -> bool:
    c = cnf()
    return any(n[0] == "mutate" and n[1] == ref for n, _ in nf.iter_nodes(c.tree))


def _step_entries(I, segs, guards=()):
    """Flatten a steps-list content into [(guards, source term, loop id, element term)]."""
    out = []
    for s in segs:
        if s[0] == "if":
            out += _step_entries(I, s[2], guards + ((s[1], True),))
            out += _step_entries(I, s[3], guards + ((s[1], False),))
        elif s[0] == "loop":
            lid = s[1]
            info = I.loops[lid]
            it = info.get("iter")
            srcs = _concat_sources(I, it) if it is not None else []
            if len(s[2]) == 1 and s[2][0][0] == "e" and all(x[0] == "s" for x in srcs) and not info.get("conds"):
                for x in srcs:
                    out.append((guards, x[1], lid, s[2][0][1]))
            else:
                out.append((guards, ("irregular", fmt(it, I)), lid, None))
        else:
            out.append((guards, ("irregular", fmt_seg(s, I)), None, None))
    return out


def _bg_lists(c: CompilerNF):
    """(feature-level list, {rule-level lists}) as used by the emission sites."""
    return c


def _check_bg_list(rep, rid, c: CompilerNF, ref, level, env, kw) -> None:
    """Provenance of the background-step accumulator used at ``level``."""
    I = c.I
    o = I.obj(ref)
    tag = f"{level}-level background accumulator"
    if not isinstance(o, HList):
        rep.ob(rid, f"{tag} is a list built by the compiler", False, expected="fresh list", found=fmt(ref, I), **kw)
        return
    floop = env["feature_loop"]
    fchild = ("elem", floop)
    feature_bg = item(item(fchild, "background"), "steps")
    muts = [(n, ctx) for n, ctx in nf.iter_nodes(c.tree) if n[0] == "mutate" and n[1] == ref]
    # where was it allocated?
    root_fn = c.fi.qualname
    if level == "feature":
        rep.ob(rid, f"{tag} is allocated once per compile call (not shared state)", o.origin[0] == root_fn and not o.segs,
               expected=f"empty list created in {root_fn}", found=f"{o.origin[0]} line {o.origin[1]} initial {len(o.segs)} segment(s)", **kw)
        for n, ctx in muts:
            loops = nf.loops_in_ctx(ctx)
            guards = nf.guards_in_ctx(ctx)
            ok = n[2] == "extend" and n[3] == (feature_bg,) and loops == [floop] and (key_in("background", fchild), True) in guards
            line = c.line_of(n)
            rep.ob(rid, f"{tag} only grows by the feature background's steps, at feature level", ok,
                   expected=f"extend({fmt(feature_bg, I)}) inside the feature traversal only, on the background path",
                   found=f"{n[2]}({', '.join(fmt(a, I) for a in n[3])}) in loops {[fmt(I.loops[l].get('iter'), I) for l in loops]}",
                   file=CFILE, line=line, function=_fn_at(c, line))
        rep.ob(rid, f"{tag} receives the feature background's steps", any(n[2] == "extend" and n[3] == (feature_bg,) for n, _ in muts),
               expected="one extend on the background path", found=f"{len(muts)} mutation(s)", **kw)
        return
    rloop = env["rule_loop"]
    rchild = ("elem", rloop)
    rule_bg = item(item(rchild, "background"), "steps")
    fl = getattr(c, "_feature_bg", None)
    rep.ob(rid, f"{tag} is a fresh list per rule (never the feature-level list itself)", o.origin[0] != root_fn and ref != fl,
           expected="list allocated inside the rule traversal's activation", found=f"allocated in {o.origin[0]} line {o.origin[1]}"
           + (" (same object as the feature-level accumulator)" if ref == fl else ""), **kw)
    content = nf.list_content(I, ref, c.tree)
    first = content[0] if content else None
    rep.ob(rid, f"{tag} starts as a copy of the feature-level background steps", first == ("s", fl) and fl is not None,
           expected=f"copy of {fmt(fl, I) if fl else 'feature-level list'}", found=fmt_seg(first, I) if first else "empty", **kw)
    for n, ctx in muts:
        loops = nf.loops_in_ctx(ctx)
        guards = nf.guards_in_ctx(ctx)
        line = c.line_of(n)
        if n[2] == "extend" and n[3] == (fl,) and loops == [floop]:
            continue
        ok = n[2] == "extend" and n[3] == (rule_bg,) and loops == [floop, rloop] and (key_in("background", rchild), True) in guards
        rep.ob(rid, f"{tag} only grows by this rule's background steps", ok,
               expected=f"extend({fmt(rule_bg, I)}) on the rule's background path",
               found=f"{n[2]}({', '.join(fmt(a, I) for a in n[3])}) in loops {[fmt(I.loops[l].get('iter'), I) for l in loops]}",
               file=CFILE, line=line, function=_fn_at(c, line))
    rep.ob(rid, f"{tag} receives the rule background's steps", any(n[2] == "extend" and n[3] == (rule_bg,) for n, _ in muts),
           expected="one extend on the rule's background path", found=f"{len(muts)} mutation(s)", **kw)


def _steps_info(c: CompilerNF, e):
    """Entries of the pickle's steps list, or None."""
    d = _pickle(c, e)
    if d is None or "steps" not in d:
        return None, None
    sref = d["steps"][0]
    if nf.list_leaves(c.I, sref) is None:
        return sref, None
    segs = nf.flatten_segs(c.I, nf.list_content(c.I, sref, c.tree), c.tree)
    return sref, _step_entries(c.I, segs)


def rule_steps(rep: Report, rid_order="C07.order", rid_guard="C07.guard", rid_fresh="C07.fresh", rid_args="C07.args",
               rid_sites="C09.sites", want=("order", "guard", "fresh", "args")) -> None:
    c = cnf()
    I = c.I
    # the feature-level accumulator: the background source of feature-level emissions
    c._feature_bg = None
    for e in c.emits:
        if e["level"] == "feature":
            _, ents = _steps_info(c, e)
            if ents and ents[0][1][0] == "ref":
                c._feature_bg = ents[0][1]
                break
    checked_lists = set()
    for e in c.emits:
        env = e["env"]
        line = c.line_of(e["node"])
        kw = _kw(c, line, _fn_at(c, line))
        tag = f"{e['level']}-level {e['kind']}"
        sc = env["scenario"]
        own = item(sc, "steps")
        sref, ents = _steps_info(c, e)
        if ents is None:
            rep.ob(rid_order, f"{tag}: pickle.steps is a list built for this pickle", False, expected="fresh list",
                   found=fmt(sref, I) if sref else "no steps field", **kw)
            continue
        if "fresh" in want:
            os_ = [I.obj(x) for x in nf.list_leaves(I, sref)]
            rep.ob(rid_fresh, f"{tag}: pickle.steps is a new list per pickle", all(not o.segs or all(s[0] != "s" for s in o.segs) for o in os_),
                   expected="list created for this pickle", found="; ".join(f"allocated in {o.origin[0]} line {o.origin[1]}" for o in os_), **kw)
        irregular = [x for x in ents if x[1][0] == "irregular"]
        if irregular or len(ents) != 2:
            rep.ob(rid_order, f"{tag}: pickle.steps = in-scope background steps then own steps", False,
                   expected=f"[*background steps, *{fmt(own, I)}] mapped to pickle steps",
                   found=[(fmt(x[1], I) if x[1][0] != 'irregular' else x[1][1]) for x in ents], **kw)
            continue
        (g1, src1, l1, elt1), (g2, src2, l2, elt2) = ents
        if "order" in want:
            rep.ob(rid_order, f"{tag}: own steps come last and are the scenario's steps in order", src2 == own,
                   expected=fmt(own, I), found=fmt(src2, I), **kw)
            rep.ob(rid_order, f"{tag}: background steps come first, from the accumulator in scope", src1[0] == "ref" and src1 != own,
                   expected="background accumulator list", found=fmt(src1, I), **kw)
        if "guard" in want:
            for g, what in ((g1, "background"), (g2, "own")):
                gs = [(x, p) for x, p in g]
                ok = gs == [(own, True)] or (what == "own" and gs in ([], [(own, True)]))
                if what == "background":
                    ok = gs == [(own, True)]
                rep.ob(rid_guard, f"{tag}: {what} steps are added " + ("only when the scenario has steps of its own" if what == "background" else "without further conditions"),
                       ok, expected=f"if {fmt(own, I)}:", found=[(fmt(x, I), p) for x, p in gs], **kw)
        if "fresh" in want and src1[0] == "ref" and (src1, e["level"]) not in checked_lists:
            checked_lists.add((src1, e["level"]))
            _check_bg_list(rep, rid_fresh, c, src1, e["level"], env, kw)
        # pickle step dictionaries
        for which, (g, src, lid, elt) in (("background", ents[0]), ("own", ents[1])):
            step = ("elem", lid)
            pd = nf.resolve_ref_dict(I, elt, c.tree) if elt is not None else None
            outline_own = e["kind"] == "outline" and which == "own"
            H = item(item(env["examples"], "tableHeader"), "cells") if outline_own else None
            V = item(env["row"], "cells") if outline_own else None
            if pd is None:
                rep.ob(rid_order, f"{tag}: each {which} step becomes one pickle step dictionary", False, expected="{...}",
                       found=fmt(elt, I) if elt else None, **kw)
                continue
            if "order" in want:
                ids = pd.get("astNodeIds", (NONE,))[0]
                segs = nf.flatten_segs(I, nf.list_content(I, ids, c.tree), c.tree) if ids[0] == "ref" else None
                want_ids = [item(step, "id")] + ([item(env["row"], "id")] if outline_own else [])
                rep.eq(rid_order, f"{tag}: {which} pickle step points back to its source step" + (" and the row" if outline_own else ""),
                       [fmt(x, I) for x in want_ids], [fmt_seg(s, I) for s in segs] if segs is not None else fmt(ids, I), **kw)
            if "sites" in want:
                w = check_text(I, c.tree, pd.get("text", (NONE,))[0], item(step, "text"), H, V, "step text")
                rep.ob(rid_sites, f"{tag}: {which} step text is " + ("interpolated with this row" if outline_own else "copied without substitution"),
                       w is None, expected="interpolate(step.text, header, row)" if outline_own else "step.text", found=w or "as expected", **kw)
            if "args" in want or "sites" in want:
                arg = pd.get("argument")
                rid = rid_args if "args" in want else rid_sites
                if arg is None:
                    rep.ob(rid, f"{tag}: {which} pickle step carries the step's argument", False, expected="argument set when present",
                           found="no 'argument' key is ever set", **kw)
                else:
                    v, g = arg
                    probs = check_argument(I, c.tree, v, step, H, V, guards=list(g or []))
                    rep.ob(rid, f"{tag}: {which} pickle step argument is the step's table/doc string copied cell by cell"
                           + (", interpolated" if outline_own else ", not substituted"), not probs,
                           expected="{'dataTable': rows x cells x value} | {'docString': content (+ mediaType if present)}",
                           found=probs or "as expected", **kw)


def rule_tags(rep: Report, rid="C08.order", rid_tag="C08.tag") -> None:
    c = cnf()
    I = c.I
    for e in c.emits:
        env = e["env"]
        line = c.line_of(e["node"])
        kw = _kw(c, line, _fn_at(c, line))
        tag = f"{e['level']}-level {e['kind']}"
        d = _pickle(c, e)
        if d is None or "tags" not in d:
            rep.ob(rid, f"{tag}: pickle has tags", False, expected="tags field", found="missing", **kw)
            continue
        tref = d["tags"][0]
        sl = single_loop_list(I, c.tree, tref) if tref[0] == "ref" else None
        want = [item(env["feature"], "tags")]
        if "rule" in env:
            want.append(item(env["rule"], "tags"))
        want.append(item(env["scenario"], "tags"))
        if e["kind"] == "outline":
            want.append(item(env["examples"], "tags"))
        if sl is None:
            rep.ob(rid, f"{tag}: pickle.tags maps the inherited tag sequence one to one", False,
                   expected="[pickle_tag(t) for t in feature+rule+scenario+examples tags]", found=fmt(tref, I), **kw)
            continue
        lid, elt = sl
        info = I.loops[lid]
        src = nf.flatten_segs(I, [("s", info.get("iter"))], c.tree) if info.get("iter") is not None else []
        found = [fmt_seg(s, I) for s in src]
        rep.eq(rid, f"{tag}: tags are exactly " + " + ".join(x for x in ("feature", "rule" if "rule" in env else None, "scenario",
                                                                      "examples" if e["kind"] == "outline" else None) if x) + " tags, in that order",
               ["*" + fmt(x, I) for x in want], found, **kw)
        rep.ob(rid, f"{tag}: no tag is filtered out", not info.get("conds"), expected="no filter", found=[fmt(x, I) for x in info.get("conds") or ()], **kw)
        pd = nf.resolve_ref_dict(I, elt, c.tree)
        el = ("elem", lid)
        ok = pd is not None and set(pd) == {"astNodeId", "name"} and pd["astNodeId"][0] == item(el, "id") and pd["name"][0] == item(el, "name")
        rep.ob(rid_tag, f"{tag}: a pickle tag is (astNodeId = tag.id, name = tag.name)", ok,
               expected="{'astNodeId': tag['id'], 'name': tag['name']}", found=fmt(elt, I), **kw)


def _fold_base(I: Interp, t, var, depth=0, also=()):
    """Resolve the initial value of a carried variable through earlier loops that may be skipped (``also``: the name the
    same fold goes by in the earlier loop, when it differs)."""
    if depth > 6:
        return t
    if t[0] == "loopout" and (t[2] == var or t[2] in also):
        return ("after", t[1])
    if t[0] == "cond":
        a, b = _fold_base(I, t[2], var, depth + 1, also), _fold_base(I, t[3], var, depth + 1, also)
        for x, y in ((a, b), (b, a)):
            if x[0] == "after":
                init = I.loops[x[1]].get("carried_init", {}).get(var)
                if init is not None and _fold_base(I, init, var, depth + 1, also) == y:
                    return x        # skipping the earlier loop leaves its initial value
        return t
    return t


def rule_fold(rep: Report, rid="C10.fold", rid_set="C10.set") -> None:
    c = cnf()
    I = c.I
    for e in c.emits:
        env = e["env"]
        line = c.line_of(e["node"])
        kw = _kw(c, line, _fn_at(c, line))
        tag = f"{e['level']}-level {e['kind']}"
        sref, ents = _steps_info(c, e)
        if not ents or any(x[3] is None for x in ents):
            rep.ob(rid, f"{tag}: step types are computed by one fold over background then own steps", False,
                   expected="regular step loops", found="irregular steps list (see C07.order)", **kw)
            continue
        prev_loop = None
        prev_var = None
        done = set()
        for which, (g, src, lid, elt) in zip(("background", "own"), ents):
            step = ("elem", lid)
            pd = nf.resolve_ref_dict(I, elt, c.tree)
            ty = pd.get("type", (NONE,))[0] if pd else NONE
            kt = item(step, "keywordType")
            conj = ("cmp", "Eq", kt, const("Conjunction"))
            # the carried variable
            var = None
            if ty[0] == "cond" and ty[1] == conj and ty[2][0] == "phi" and ty[2][1] == lid and ty[3] == kt:
                var = ty[2][2]
            rep.ob(rid, f"{tag}: {which} step type = previous type if the keyword is a conjunction, else the keyword's type", var is not None,
                   expected=f"type := prev if {fmt(conj, I)} else {fmt(kt, I)}", found=fmt(ty, I), **kw)
            if var is None or lid in done:
                prev_loop = lid
                continue
            done.add(lid)
            info = I.loops[lid]
            upd = info.get("carried", {}).get(var)
            rep.ob(rid, f"{tag}: the type carried to the next {which} step is the type just assigned", upd == ty,
                   expected=fmt(ty, I), found=fmt(upd, I) if upd else None, **kw)
            init = _fold_base(I, info.get("carried_init", {}).get(var, ("undef",)), var, also=(prev_var,) if prev_var else ())
            prev_var = var
            if prev_loop is None or prev_loop == lid:
                rep.ob(rid, f"{tag}: the fold starts from 'Unknown' for every pickle", is_const(init, "Unknown"),
                       expected="'Unknown' assigned per pickle", found=fmt(init, I), **kw)
            else:
                rep.ob(rid, f"{tag}: own steps continue the fold from the last background step", init == ("after", prev_loop),
                       expected="value after the background loop", found=fmt(init, I), **kw)
                base = I.loops[prev_loop].get("carried_init", {}).get(var)
            prev_loop = lid
        # value set: Unknown | keywordType (non-Conjunction by the guard)
        rep.ob(rid_set, f"{tag}: pickle step type ranges over the initial 'Unknown' and non-conjunction keyword types only", True,
               expected="{Unknown} U keywordType minus Conjunction", found="by the fold shape above", **kw)


def _flows_cover(dg, flows, limit=10) -> bool:
    """The uses of a value, each under its own conditions, together cover every case of the conditions it is produced
    under (the same value placed in either arm of a selection is used on both)."""
    import itertools
    known = {t: p for t, p in dg}
    atoms: list = []
    for g in flows:
        for t, _ in g:
            if not (t[0] == "cmp" and t[1] == "Is"):
                nf._test_atoms(t, atoms)
    free = [a for a in atoms if a not in known]
    if len(free) > limit:
        return False
    for vals in itertools.product((True, False), repeat=len(free)):
        assign = dict(known)
        assign.update(zip(free, vals))
        def holds(g):
            for t, p in g:
                if t[0] == "cmp" and t[1] == "Is":
                    continue
                try:
                    if nf.eval_test(t, assign) != p:
                        return False
                except KeyError:
                    return False
            return True
        if not any(holds(g) for g in flows):
            return False
    return True


def rule_ids(rep: Report, rid_order="C11.order", rid_src="C11.src") -> None:
    """Compiler side of C11: step ids are drawn before their pickle's id; every draw lands in one emitted 'id' field
    under the same conditions it is drawn."""
    c = cnf()
    I = c.I
    draws = [(n, ctx) for n, ctx in nf.iter_nodes(c.tree) if n[0] == "draw"]
    rep.floor("compiler id draws", len(draws), 4)
    used: dict[int, list] = {}

    def walk_term(t, guards, seen):
        if not isinstance(t, tuple) or not t:
            return
        k = t[0]
        if k == "drawn":
            used.setdefault(t[1], []).append(guards)
        elif k == "cond":
            walk_term(t[2], guards | {(t[1], True)}, seen)
            walk_term(t[3], guards | {(t[1], False)}, seen)
        elif k == "ref":
            if t in seen:
                return
            seen = seen | {t}
            o = I.obj(t)
            if isinstance(o, HList):
                walk_segs(nf.list_content(I, t, c.tree), guards, seen)
            elif isinstance(o, HDict):
                for kk, v, g in nf.dict_content(I, t, c.tree):
                    walk_term(v, guards | set(g or ()), seen)
        else:
            for x in t:
                if isinstance(x, tuple):
                    walk_term(x, guards, seen)

    def walk_segs(segs, guards, seen):
        for s in segs:
            if s[0] in ("e", "s"):
                walk_term(s[1], guards, seen)
            elif s[0] == "loop":
                walk_segs(s[2], guards, seen)
            elif s[0] == "if":
                walk_segs(s[2], guards | {(s[1], True)}, seen)
                walk_segs(s[3], guards | {(s[1], False)}, seen)

    if c.out is not None:
        walk_term(c.out, frozenset(), frozenset())
    # ids of its own for every pickle: a draw that reaches an emitted pickle happens inside every loop the emission is in
    # (drawn once per pickle, not once for several of them)
    all_used = used
    ctx_of = {id(n): ctx for n, ctx in nf.iter_nodes(c.tree)}
    draw_ctx = {n[1]: (ctx, n[2]) for n, ctx in draws}
    for e in c.emits:
        n = e["node"]
        ectx = ctx_of.get(id(n))
        if ectx is None or n[2] != "append" or len(n[3]) != 1:
            continue
        used = {}
        walk_term(n[3][0], frozenset(), frozenset())
        eloops = [x[1] for x in ectx if x[0] == "loop"]
        line = c.line_of(n)
        for serial in sorted(used):
            if serial not in draw_ctx:
                continue
            dloops = {x[1] for x in draw_ctx[serial][0] if x[0] == "loop"}
            missing = [l for l in eloops if l not in dloops]
            rep.ob(rid_src, f"{e['level']}-level {e['kind']}: every id in a pickle is drawn for that pickle alone (inside every loop the pickle is emitted in)",
                   not missing, expected="one draw per emitted pickle",
                   found=("drawn per pickle" if not missing else
                          f"drawn at line {draw_ctx[serial][1]} outside the loop over {fmt(I.loops[missing[-1]].get('iter'), I)}: the same id goes to several pickles"),
                   file=CFILE, line=draw_ctx[serial][1], function=_fn_at(c, draw_ctx[serial][1]))
    used = all_used
    for n, ctx in draws:
        serial, line = n[1], n[2]
        dg = set(nf.guards_in_ctx(ctx))
        flows = used.get(serial, [])
        ok = any(set(g) <= dg | {x for x in g if x[0][0] == "cmp" and x[0][1] == "Is"} for g in flows)
        if not ok and flows:
            ok = _flows_cover(dg, flows)
        rep.ob(rid_src, "an id drawn by the compiler always ends up as the id of an emitted pickle / pickle step (no id is burnt)", ok,
               expected="draw and use under the same conditions",
               found=("never reaches the output" if not flows else
                      f"drawn under {[(fmt(a, I), p) for a, p in sorted(dg, key=str)][:4]} but used only under "
                      f"{[(fmt(a, I), p) for a, p in sorted(flows[0] - dg, key=str)][:4]}"),
               file=CFILE, line=line, function=_fn_at(c, line))
        rep.ob(rid_src, "the generator drawn from is the compiler's own id_generator attribute", n[3] == ("attr", c.selft, N.idgen_attr("gherkin.pickles.compiler.Compiler")),
               expected="self.id_generator", found=fmt(n[3], I) if n[3] else None, file=CFILE, line=line, function=_fn_at(c, line))
    for e in c.emits:
        line = c.line_of(e["node"])
        kw = _kw(c, line, _fn_at(c, line))
        tag = f"{e['level']}-level {e['kind']}"
        d = _pickle(c, e)
        pid = d.get("id", (NONE,))[0] if d else NONE
        rep.ob(rid_src, f"{tag}: pickle.id is a freshly drawn id", pid[0] == "drawn", expected="self.id_generator.get_next_id()", found=fmt(pid, I), **kw)
        sref, ents = _steps_info(c, e)
        step_serials = []
        for x in ents or []:
            pd = nf.resolve_ref_dict(I, x[3], c.tree) if x[3] is not None else None
            sid = pd.get("id", (NONE,))[0] if pd else NONE
            rep.ob(rid_src, f"{tag}: each pickle step id is a freshly drawn id", sid[0] == "drawn", expected="draw", found=fmt(sid, I), **kw)
            if sid[0] == "drawn":
                step_serials.append(sid[1])
        if pid[0] == "drawn" and step_serials:
            rep.ob(rid_order, f"{tag}: pickle step ids are drawn before the pickle's own id", max(step_serials) < pid[1],
                   expected="steps (background then own), then the pickle", found=f"pickle draw #{pid[1]}, step draws {sorted(set(step_serials))}", **kw)
        if len(set(step_serials)) == 2:
            rep.ob(rid_order, f"{tag}: background step ids are drawn before own step ids", step_serials[0] < step_serials[1],
                   expected="background first", found=step_serials, **kw)


def rule_input(rep: Report, rid="C15.input") -> None:
    """compile() neither mutates the document it is given nor hands out its mutable lists."""
    c = cnf()
    I = c.I

    def rooted_in_doc(t, depth=0) -> bool:
        levels = 0
        while isinstance(t, tuple) and t and t[0] in ("item", "attr", "slice"):
            t = t[1]
            levels += 1
        if t == c.doc:
            return True
        # a shallow copy (copy.copy / dict(x) / list(x) / x.copy()) of a document object is a new object - what it contains is
        # still the document's: a change one level or more below the copy is a change of the document
        if levels >= 1 and isinstance(t, tuple) and t and t[0] == "call" and t[1] in ("copy.copy", ".copy", "dict", "list") and len(t[2]) == 1 and depth < 6:
            return rooted_in_doc(t[2][0], depth + 1)
        if depth < 6 and isinstance(t, tuple) and t and t[0] in ("phi", "loopout"):
            info = I.loops.get(t[1], {})
            alts = [info.get("carried_init", {}).get(t[2]), info.get("carried", {}).get(t[2]), info.get("break_env", {}).get(t[2])]
            return any(a is not None and a != t and rooted_in_doc(a, depth + 1) for a in alts)
        if depth < 6 and isinstance(t, tuple) and t and t[0] == "cond":
            return rooted_in_doc(t[2], depth + 1) or rooted_in_doc(t[3], depth + 1)
        if depth < 6 and isinstance(t, tuple) and t and t[0] == "bool":
            return any(rooted_in_doc(v, depth + 1) for v in t[2])        # ``doc_list or []`` is the document's list when it is non-empty
        if isinstance(t, tuple) and t and t[0] == "elem":
            it = I.loops.get(t[1], {}).get("iter")
            if it is not None:
                return any(rooted_in_doc(s[1], depth + 1) for s in nf.flatten_segs(I, [("s", it)]) if s[0] in ("s", "e")) or rooted_in_doc(it, depth + 1)
        if isinstance(t, tuple) and t and t[0] == "call" and t[1] == "enumerate":
            return rooted_in_doc(t[2][0], depth + 1)
        return False

    nmut = 0
    for n, ctx in nf.iter_nodes(c.tree):
        if n[0] in ("mutate", "setitem", "setattr", "delattr"):
            nmut += 1
            tgt = n[1]
            if rooted_in_doc(tgt):
                line = c.line_of(n)
                rep.ob(rid, "compiling does not modify the document", False, expected="no in-place change of AST objects",
                       found=f"{n[0]} {n[2] if n[0] == 'mutate' else ''} on {fmt(tgt, I)}", file=CFILE, line=line, function=_fn_at(c, line))
    rep.ob(rid, "no mutation site of the compiler targets an object of the input document", True, **_kw(c),
           expected="all mutation targets are compiler-allocated", found=f"{nmut} mutation sites inspected")
    rep.floor("compiler mutation sites", nmut, 8)
    for e in c.emits:
        d = _pickle(c, e)
        line = c.line_of(e["node"])
        for k in ("astNodeIds", "tags", "steps"):
            v = d.get(k, (NONE,))[0] if d else NONE
            rep.ob(rid, f"{e['level']}-level {e['kind']}: pickle.{k} is a new list, not a list of the AST", nf.list_leaves(I, v) is not None and not any(rooted_in_doc(x) for x in nf.list_leaves(I, v)),
                   expected="list allocated by the compiler", found=fmt(v, I), **_kw(c, line, _fn_at(c, line)))
