"""C11 - ids unique, dense, canonically ordered; references resolve."""
from . import line_rules as lr, compiler_rules as cr, builder_rules as br, misc_rules as ms, error_rules as er

META = {
    "level": "other",
    "explanation": "Generator typestate: get_next_id returns the pre-increment value and increments once on every path; the counter is "
                   "written by nobody else (no rewind/reset), id_generator attributes are bound in constructors only, the stream hands "
                   "one generator object to builder and compiler, no mutable default generator. Draw-order projection: in the builder "
                   "ids are drawn only under transform_node (children are transformed at end_rule, hence before parents), own tags in "
                   "token/item order before the node, rows in order; in the compiler step ids (background, then own) before the "
                   "pickle id. Every draw flows into exactly one emitted 'id' under the same conditions it is drawn (no burnt ids); "
                   "astNodeIds/astNodeId provenance; no nondeterminism source is reachable.",
    "assumptions": ["one process-local generator per stream; ids of rejected documents are drawn and discarded by design (history quantifier)"],
}


def run(rep):
    ms.rule_generator(rep)
    er.rule_stream(rep, "C11.stream")
    br.rule_ids(rep)
    cr.rule_skel(rep, "C11.skel")
    cr.rule_ids(rep)
    cr.rule_fields(rep, "C11.refs")
    cr.rule_steps(rep, rid_order="C11.refs", want=("order",))
    cr.rule_tags(rep, "C11.tagorder", "C11.refs")
    ms.rule_det(rep, "C11.det")
    # which lines are elements at all (and so get ids): a line's indentation is every leading blank
    lr.rule_line_basics(rep, "C11.line")
    # no hidden state: what the property promises for one use must hold for every later use as well
    ms.rule_stateless(rep, "C11")
