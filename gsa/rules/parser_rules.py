"""Rules decided on the extracted parser automaton and the hand-written frame around it
(parse loop, wrappers, look-ahead loops, error handling).  Shared by C01, C02, C13, C14, C15, C16, C18."""
from __future__ import annotations

import ast

from ..astutil import unparse, is_self_attr, call_name, dotted, body_wo_doc, walk_no_nested_defs, is_const
from ..berp import grammar, fmt_cont
from ..names import N
from ..common import AnalysisError, Report
from ..facts import facts
from ..product import run_product, lookahead_expected, LINE_KINDS
from ..ptable import ptable, PARSER_FILE, PARSER_CLASS
from .. import siblings as sib

FLOOR_STATES = 42
FLOOR_TRANSITIONS = 334
PC = "gherkin.parser.Parser"


def _fn(rep: Report, name: str):
    f = facts().func(f"{PC}.{name}")
    rep.used_function(f.qualname)
    return f


# ----------------------------------------------------------------------------------------
def rule_shape(rep: Report, rid="C02.shape") -> None:
    pt = ptable()
    rep.used_file(PARSER_FILE)
    rep.used_file("gherkin.berp")
    rep.floor("parser states", len(pt.states), FLOOR_STATES)
    rep.floor("parser transitions", pt.n_transitions(), FLOOR_TRANSITIONS)
    for n, st in sorted(pt.states.items()):
        rep.used_function(st.fi.qualname)
        for i, t in enumerate(st.transitions):
            ok = t.token is not None and t.target is not None and not t.extra_conds and not t.stmts
            rep.ob(rid, f"state {n} transition {i} is (token test, optional look-ahead, productions, constant target)",
                   ok, file=PARSER_FILE, line=t.line, function=st.fi.qualname,
                   expected="if self.match_K(context, token): [if self.lookahead_n(...):] start/end_rule*, build, return <int>",
                   found=f"{t!r} extra_conds={t.extra_conds} other_stmts={t.stmts}")
    rep.eq(rid, "exactly one end state (returned, not dispatched)", 1, len(pt.end_states()),
           file=PARSER_FILE, function=f"{PC}.match_token")


def rule_grammar(rep: Report, rid="C02.grammar") -> None:
    """Product of python table and reference machine; one obligation per (state, line kind, look-ahead outcome)."""
    pt = ptable()
    g = grammar()
    rep.used_file(PARSER_FILE)
    rep.used_file("gherkin.berp")
    mm, stats = run_product(pt, g)
    bad = {(m["state"], m["line_kind"], m["lookahead_outcome"], m["continuation"]) for m in mm}
    rep.counts["product_states"] = stats["product_states"]
    rep.counts["product_triples"] = stats["triples"]
    rep.extra["product_samples"] = stats["samples"]
    ok_triples = stats["triples"] - len(mm)
    # discharged triples are summarised per python state to keep evidence readable
    per_state: dict[int, int] = {}
    for s, conts in stats["state_conts"].items():
        per_state[s] = len(conts)
    for s in sorted(pt.states):
        nbad = [m for m in mm if m["state"] == s]
        nconts = per_state.get(s, 0)
        if not nbad:
            rep.ob(rid, f"state {s}: all {len(LINE_KINDS) + 2} (line kind, look-ahead) inputs agree with the grammar "
                        f"at {nconts} reachable continuation(s)", nconts > 0,
                   file=PARSER_FILE, line=pt.states[s].fi.node.lineno, function=pt.states[s].fi.qualname,
                   expected="reachable and equivalent", found="equivalent" if nconts else "state not reachable in product")
    for m in mm:
        s = m["state"]
        rep.ob(rid, f"state {s} on #{m['line_kind']}"
                    + (f" (look-ahead finds {m['lookahead_outcome']})" if m["line_kind"] == "TagLine" else "")
                    + f": {m['what']}", False,
               file=PARSER_FILE, line=m.get("line"), function=pt.states[s].fi.qualname if s in pt.states else PC,
               expected=m["expected"], found=m["found"], note="grammar position: " + m["continuation"])
    reached = set(stats["reached_python_states"])
    for s in sorted(pt.states):
        if s not in reached:
            rep.ob(rid, f"state {s} is reachable in the product", False, file=PARSER_FILE,
                   line=pt.states[s].fi.node.lineno, function=pt.states[s].fi.qualname,
                   expected="reachable", found="unreachable")
    rep.extra["programs"] = 2
    rep.extra["disagreements_checked"] = stats["triples"]


def rule_look(rep: Report, rid="C02.look") -> None:
    pt = ptable()
    g = grammar()
    hints = {}
    for r in g.rules.values():
        if r.hint:
            hints[r.name] = r.hint
    rep.floor("look-ahead functions", len(pt.lookaheads), len({h for h in hints.values()}))
    la_exp = lookahead_expected(pt)
    # every hint has exactly one look-ahead function with that expected token and skip set
    for rname, (skip, exp) in sorted(hints.items()):
        cands = [n for n, i in pt.lookaheads.items() if i["expected"] == [exp]]
        rep.ob(rid, f"hint of {rname} [{'|'.join(skip)} -> {exp}] has a look-ahead function", len(cands) == 1,
               file=PARSER_FILE, function=PC, expected=f"one lookahead_n expecting #{exp}", found=cands)
        for c in cands:
            info = pt.lookaheads[c]
            rep.used_function(info["fi"].qualname)
            rep.eq(rid, f"{c}: skip set equals the hint's", sorted(skip), sorted(info["skip"]),
                   file=PARSER_FILE, line=info["line"], function=info["fi"].qualname)
    for n, info in sorted(pt.lookaheads.items()):
        rep.ob(rid, f"{n}: has the read-ahead loop shape (read, queue, expected test, skip test, re-queue, return flag)",
               not info["problems"], file=PARSER_FILE, line=info["line"], function=info["fi"].qualname,
               expected="no deviations", found=info["problems"])
    # each guarded transition starts the rule whose hint its look-ahead implements
    nguard = 0
    for s, st in sorted(pt.states.items()):
        for i, t in enumerate(st.transitions):
            if t.lookahead is None:
                continue
            nguard += 1
            started = [p[1] for p in t.productions if p[0] == "start"]
            want = la_exp.get(t.lookahead)
            hinted = [r for r in started if r in hints]
            ok = len(hinted) == 1 and hints[hinted[0]][1] == want and t.token in hints[hinted[0]][0]
            rep.ob(rid, f"state {s} transition {i}: look-ahead guard matches the hinted rule it starts", ok,
                   file=PARSER_FILE, line=t.line, function=st.fi.qualname,
                   expected=f"starts a rule hinted -> #{want} on a token of the hint's skip set",
                   found=f"{t.lookahead} guards #{t.token} starting {started}")
    rep.floor("look-ahead guarded transitions", nguard, 40)


def rule_glue(rep: Report, rid="C02.glue") -> None:
    pt = ptable()
    tm = facts().cls("gherkin.token_matcher.TokenMatcher")
    kinds = set(LINE_KINDS)
    rep.floor("matcher wrappers", len(pt.wrappers), 14)
    for k in sorted(kinds):
        w = pt.wrappers.get(k)
        if w is None:
            rep.ob(rid, f"wrapper match_{k} exists", False, file=PARSER_FILE, function=PC, expected="def match_" + k, found="missing")
            continue
        rep.used_function(w["fi"].qualname)
        ok = w["shape_ok"] and w["target"] == f"match_{k}" and w["default"] is False and w["argument"] is not None
        rep.ob(rid, f"wrapper match_{k} forwards the token to token_matcher.match_{k} (default False)", ok,
               file=PARSER_FILE, line=w["line"], function=w["fi"].qualname,
               expected=f"return self.handle_external_error(context, False, token, context.token_matcher.match_{k})",
               found=f"target={w['target']} default={w['default']} argument={w['argument']} shape_ok={w['shape_ok']}")
        if k != "EOF":
            rep.ob(rid, f"wrapper match_{k} returns False on the EOF token", w["eof_guard"] and w.get("guard_var") == w["argument"],
                   file=PARSER_FILE, line=w["line"], function=w["fi"].qualname,
                   expected="if token.eof(): return False", found="guard present" if w["eof_guard"] else "no EOF guard")
        rep.ob(rid, f"TokenMatcher defines match_{k}", tm.find_method(f"match_{k}") is not None,
               file="python/gherkin/token_matcher.py", function=tm.qualname, expected="method", found="missing" if tm.find_method(f"match_{k}") is None else "method")
    # forwarders (normal form: the argument reaches the builder method of the same name through the error wrapper)
    from ..frame import analyse_forwarder
    for name, target in (("build", "build"), ("start_rule", "start_rule"), ("end_rule", "end_rule")):
        a = analyse_forwarder(name, target)
        rep.used_function(a["fi"].qualname)
        rep.ob(rid, f"Parser.{name} forwards its argument to ast_builder.{target} through the error wrapper", a["ok"],
               file=PARSER_FILE, line=a["fi"].node.lineno, function=a["fi"].qualname,
               expected=f"self.handle_ast_error(context, <arg>, self.ast_builder.{target})", found=a["found"])
    fi = _fn(rep, "get_result")
    from ..absint import new_interp as _ni, fmt as _fmt
    I_ = _ni()
    I_.intrinsics["gherkin.ast_builder.AstBuilder.get_result"] = lambda I2, st, fi2, args, kw, n, tree: ("builder_result", args[0])
    t_, rv_, s_ = I_.run(fi.qualname)
    ok = rv_ == ("builder_result", ("attr", ("param", fi.params()[0]), N.PARSER_BUILDER))
    rep.ob(rid, "Parser.get_result returns ast_builder.get_result()", ok, file=PARSER_FILE, line=fi.node.lineno,
           function=fi.qualname, expected="return self.ast_builder.get_result()", found=_fmt(rv_, I_))
    # dispatch
    rule_dispatch(rep, rid)
    rule_parse_frame(rep, rid)


_DISPATCH = None


def dispatch_results():
    """{state number: (I, return term, state_fn calls, raises)} of match_token evaluated with that constant state, for every
    state of the table and two numbers outside it."""
    global _DISPATCH
    if _DISPATCH is not None:
        return _DISPATCH
    from ..absint import new_interp, const
    from .. import nf
    pt = ptable()
    fi = pt.dispatch_fi
    p = fi.params()
    if len(p) < 4:
        raise AnalysisError("anchor vanished: Parser.match_token(state, token, context)")

    def stub(k):
        def h(I_, st_, fi_, args, kwargs, n, tree_):
            tree_.append(("ev", "state_fn", (k,) + tuple(args), getattr(n, "lineno", None), 0))
            return ("state_result", k, tuple(args[1:]))
        return h
    out = {}
    for n in sorted(pt.states) + [max(pt.states) + 1, -1]:
        I = new_interp()
        for k in pt.states:
            I.intrinsics[f"{PC}.match_token_at_{k}"] = stub(k)
        tree, rv, st = I.run(fi.qualname, args={p[1]: const(n)})
        calls = [e for e, c in nf.iter_nodes(tree) if e[0] == "ev" and e[1] == "state_fn"]
        raises = [e for e, c in nf.iter_nodes(tree) if e[0] == "raise"]
        out[n] = (I, rv, calls, raises)
    _DISPATCH = out
    return out


def dispatched_states() -> set:
    pt = ptable()
    p = pt.dispatch_fi.params()
    tok, ctx = ("param", p[2]), ("param", p[3])
    return {n for n, (I, rv, calls, raises) in dispatch_results().items()
            if n in pt.states and rv == ("state_result", n, (tok, ctx)) and len(calls) == 1 and not raises}


def rule_dispatch(rep: Report, rid: str) -> None:
    """match_token(state, token, context) hands (token, context) to match_token_at_<state> and returns its result, for every
    state of the table; any other state number raises.  Decided by evaluating match_token once per constant state with the
    state methods kept symbolic, so any dispatch mechanism (dict, helper returning the table, if-chain) reads the same."""
    from ..absint import new_interp, const, fmt
    from .. import nf
    pt = ptable()
    fi = pt.dispatch_fi
    rep.used_function(fi.qualname)
    p = fi.params()
    if len(p) < 4:
        raise AnalysisError("anchor vanished: Parser.match_token(state, token, context)")
    tok, ctx = ("param", p[2]), ("param", p[3])

    for n, (I, rv, calls, raises) in sorted(dispatch_results().items()):
        if n in pt.states:
            ok = rv == ("state_result", n, (tok, ctx)) and len(calls) == 1 and not raises
            rep.ob(rid, f"dispatch[{n}] is match_token_at_{n}", ok, file=PARSER_FILE, line=fi.node.lineno, function=fi.qualname,
                   expected=f"return self.match_token_at_{n}(token, context)", found=fmt(rv, I)[:160])
        else:
            ok = not calls and len(raises) >= 1 and rv[0] != "state_result"
            rep.ob(rid, f"a state number outside the table ({n}) is an error, not a transition", ok, file=PARSER_FILE, line=fi.node.lineno,
                   function=fi.qualname, expected="raise", found=fmt(rv, I)[:160])


def rule_parse_frame(rep: Report, rid: str) -> None:
    """parse(): start_rule(GherkinDocument); state=0; loop{read; state=match_token(state, token, ctx)} left exactly when the
    token just matched is EOF; end_rule(GherkinDocument).  Read off the normal form (helpers kept symbolic)."""
    from ..frame import parse_nf
    from ..absint import fmt, is_const, const
    from .. import nf
    P = parse_nf()
    I = P.I
    fi = P.fi
    rep.used_function(fi.qualname)
    kw = dict(file=PARSER_FILE, line=fi.node.lineno, function=fi.qualname)
    names = [n[1] for n, c in P.events]
    rep.ob(rid, "parse has exactly one token loop", len(P.loops) == 1, **kw, expected="one loop", found=f"{len(P.loops)} loop(s); events {names}")
    if len(P.loops) != 1:
        return
    loop, lctx = P.loops[0]
    li = P.index(loop)
    in_loop = lambda c: loop[1] in nf.loops_in_ctx(c)
    sr, er = P.ev("start_rule"), P.ev("end_rule")
    ok = len(sr) == 1 and sr[0][0][2][1:] == (P.ctx, const("GherkinDocument")) and P.index(sr[0][0]) < li and not nf.guards_in_ctx(sr[0][1])
    rep.ob(rid, "parse opens rule GherkinDocument once, unconditionally, before the loop", ok, **kw,
           expected="self.start_rule(context, 'GherkinDocument') before the loop", found=[[fmt(a, I) for a in n[2][1:]] for n, c in sr])
    ok = len(er) == 1 and er[0][0][2][1:] == (P.ctx, const("GherkinDocument")) and P.index(er[0][0]) > li and not in_loop(er[0][1]) and not nf.guards_in_ctx(er[0][1])
    rep.ob(rid, "parse closes rule GherkinDocument once, unconditionally, after the loop", ok, **kw,
           expected="self.end_rule(context, 'GherkinDocument') after the loop", found=[[fmt(a, I) for a in n[2][1:]] for n, c in er])
    rd, mt = P.ev("read_token"), P.ev("match_token")
    ok = len(rd) == 1 and len(mt) == 1 and in_loop(rd[0][1]) and in_loop(mt[0][1]) and P.index(rd[0][0]) < P.index(mt[0][0]) \
        and not [g for g in nf.guards_in_ctx(rd[0][1])] and not [g for g in nf.guards_in_ctx(mt[0][1])]
    tok = ("token", rd[0][0][4]) if rd else None
    state_ok = False
    found = None
    if ok:
        a = mt[0][0][2]
        st_arg = a[1] if len(a) > 1 else None
        found = [fmt(x, I) for x in a[1:]]
        info = I.loops[loop[1]]
        if st_arg is not None and st_arg[0] == "phi" and st_arg[1] == loop[1]:
            var = st_arg[2]
            init = info.get("carried_init", {}).get(var)
            upd = info.get("carried", {}).get(var)
            state_ok = len(a) == 4 and a[2] == tok and a[3] == P.ctx and is_const(init, 0) and upd == ("state", mt[0][0][4]) and rd[0][0][2][1:] == (P.ctx,)
            found = {"state": fmt(st_arg, I), "starts at": fmt(init, I) if init else None, "next": fmt(upd, I) if upd else None, "token": fmt(a[2], I), "context": fmt(a[3], I)}
    rep.ob(rid, "each iteration reads one token and threads a local state: state = match_token(state, token, context)", ok and state_ok, **kw,
           expected="token = self.read_token(context); state = self.match_token(state, token, context), state a local",
           found=found if ok else {"read": len(rd), "match": len(mt)})
    rep.ob(rid, "the state starts at 0 on every call (local initialised before the loop)", state_ok, **kw, expected="state = 0 before the loop", found=found)
    le = P.loop_exit()
    cond = le[1] if le else None
    eof_forms = [("call", ".eof", (tok,), ()), ("eof", tok)] if tok else []
    # other ways out of the loop: raises anywhere, returns of parse itself (a callee's return only ends the callee)
    exits = [n for n, c in nf.iter_nodes(loop[2]) if (n[0] == "raise" or (n[0] == "return" and not any(x[0] == "call" for x in c)))
             and not (le and len(le) > 3 and n is le[3])]
    ok = cond in eof_forms and not exits
    if ok and le[2] == "break":
        ok = P.index(le[3]) > P.index(mt[0][0]) if mt else False
    rep.ob(rid, "the loop ends exactly when the token just matched is EOF", ok, **kw, expected="left iff token.eof(), tested after match_token",
           found={"exit": fmt(cond, I) if cond else None, "how": le[2] if le else None, "other exits": [n[0] for n in exits]})


def rule_siblings(rep: Report, rid="C02.siblings") -> None:
    pt = ptable()
    names = list(sib.QUICK)
    if rep.tier == "thorough":
        names = [n for n in sib.SIBLINGS]
    used = 0
    extracted = []
    for n in names:
        tab = sib.extract(n)
        usable = tab.problem is None and len(tab.states) == FLOOR_STATES and tab.n_transitions() == FLOOR_TRANSITIONS
        if not usable:
            if n in sib.QUICK:
                # a named sibling must be extractable: otherwise the comparison is vacuous
                raise AnalysisError(f"sibling {n} not extractable ({tab.problem or f'{len(tab.states)} states/{tab.n_transitions()} transitions'})")
            rep.note(f"sibling {n}: not comparable ({tab.problem or f'{len(tab.states)} states/{tab.n_transitions()} transitions (different grammar version or template)'})")
            continue
        used += 1
        extracted.append(n)
        rep.used_file(tab.rel)
        diffs = sib.compare(pt, tab)
        by_state: dict[int, list] = {}
        for d in diffs:
            by_state.setdefault(d["state"], []).append(d)
        for s in sorted(pt.states):
            ds = by_state.get(s, [])
            if not ds:
                rep.ob(rid, f"{n}: state {s} has the same transitions, expected tokens and error state", True,
                       file=PARSER_FILE, line=pt.states[s].fi.node.lineno, function=pt.states[s].fi.qualname)
            for d in ds:
                rep.ob(rid, f"{n}: state {s}" + (f" transition {d['transition']}" if "transition" in d else "") + f": {d['what']}",
                       False, file=PARSER_FILE, line=d.get("line"), function=pt.states[s].fi.qualname,
                       expected=f"{n}: {d.get('sibling')}", found=f"python: {d.get('python')}")
        for s, ds in by_state.items():
            if s not in pt.states:
                rep.ob(rid, f"{n}: state {s} exists in python", False, file=PARSER_FILE, function=PC,
                       expected="state present", found="missing")
    rep.counts["siblings_compared"] = used
    rep.extra["siblings"] = extracted
    rep.extra["programs"] = 2 + used


# ----------------------------------------------------------------------------------------
def rule_expected(rep: Report, rid="C14.expected") -> None:
    """expected_tokens of each state = distinct transition tokens in source order = grammar's expected set."""
    pt = ptable()
    g = grammar()
    _, stats = run_product(pt, g)
    for s, st in sorted(pt.states.items()):
        order = []
        for t in st.transitions:
            if t.token and ("#" + t.token) not in order:
                order.append("#" + t.token)
        rep.ob(rid, f"state {s}: expected-token list = transition tokens in order", st.tail.expected_tokens == order,
               file=PARSER_FILE, line=st.tail.expected_line or st.tail.line, function=st.fi.qualname,
               expected=order, found=st.tail.expected_tokens)
        # grammar side: FIRST of the continuation, plus ignored tokens where free text is not expected
        for cont in sorted(stats["state_conts"].get(s, []), key=fmt_cont):
            exp = set(g.expected_kinds(cont))
            if "Other" not in exp:
                exp |= set(g.ignored)
            found = {x.lstrip("#") for x in (st.tail.expected_tokens or [])}
            rep.ob(rid, f"state {s}: expected set = what the grammar expects at {fmt_cont(cont)[:70]}", exp == found,
                   file=PARSER_FILE, line=st.tail.expected_line or st.tail.line, function=st.fi.qualname,
                   expected=sorted(exp), found=sorted(found))


def rule_tail(rep: Report, rid="C14.tail") -> None:
    """No-match path: build the EOF/token error, raise it in stop mode else add_error, no build, same state."""
    pt = ptable()
    for s, st in sorted(pt.states.items()):
        t = st.tail
        kinds = [e[0] for e in t.events]
        kw = dict(file=PARSER_FILE, line=t.line, function=st.fi.qualname)
        err_name = getattr(t, "error_name", None)
        shape = kinds == ["raise_if_stop", "add_error", "return"]
        same_err = shape and t.events[0][1] == err_name and t.events[1][1] == err_name
        rep.ob(rid, f"state {s}: no-match path raises the error in stop mode, otherwise collects it, exactly once", shape and same_err, **kw,
               expected="if self.stop_at_first_error: raise error; self.add_error(context, error); return <state>",
               found=t.events)
        rep.ob(rid, f"state {s}: after an error the parser stays in state {s}", t.returns == [s], **kw,
               expected=[s], found=t.returns)
        # error construction: EOF variant iff token.eof()
        e = t.error_expr
        ok = False
        found = unparse(e) if e is not None else None
        exp_name = getattr(t, "expected_name", None)
        if isinstance(e, ast.IfExp) and isinstance(e.test, ast.Call) and isinstance(e.test.func, ast.Attribute) \
                and e.test.func.attr == "eof" and isinstance(e.body, ast.Call) and isinstance(e.orelse, ast.Call):
            tokvar = unparse(e.test.func.value)
            a, b = e.body, e.orelse
            ok = call_name(a) == "UnexpectedEOFException" and call_name(b) == "UnexpectedTokenException" \
                and len(a.args) >= 2 and len(b.args) >= 2 \
                and unparse(a.args[0]) == tokvar and unparse(b.args[0]) == tokvar == st.fi.params()[1] \
                and unparse(a.args[1]) == exp_name and unparse(b.args[1]) == exp_name
        rep.ob(rid, f"state {s}: the error is the EOF variant iff the token is EOF and carries this state's expected list", ok, **kw,
               expected="UnexpectedEOFException(token, expected_tokens, ..) if token.eof() else UnexpectedTokenException(token, expected_tokens, ..)",
               found=found)


def rule_once(rep: Report, rid="C18.once") -> None:
    """Every transition delivers the current token to the builder exactly once, after all start/end; the error tail never."""
    pt = ptable()
    for s, st in sorted(pt.states.items()):
        tokvar = st.fi.params()[1]
        for i, t in enumerate(st.transitions):
            builds = [p for p in t.productions if p[0] == "build"]
            ok = len(builds) == 1 and t.productions and t.productions[-1][0] == "build" and builds[0][1] == tokvar
            rep.ob(rid, f"state {s} transition {i} (#{t.token}): exactly one build(context, token), last", ok,
                   file=PARSER_FILE, line=t.line, function=st.fi.qualname,
                   expected="start/end_rule*, then build(context, token)", found=t.productions)
        tb = [e for e in st.tail.events if e[0] in ("build", "start_rule", "end_rule")]
        rep.ob(rid, f"state {s}: the error path does not deliver the token or touch the rule stack", not tb,
               file=PARSER_FILE, line=st.tail.line, function=st.fi.qualname, expected="no build/start_rule/end_rule", found=tb)


def rule_queue(rep: Report, rid="C18.queue") -> None:
    pt = ptable()
    for n, info in sorted(pt.lookaheads.items()):
        rep.used_function(info["fi"].qualname)
        rep.ob(rid, f"{n}: every token read ahead is queued before any exit and re-queued once, in order, at the right end",
               not info["problems"], file=PARSER_FILE, line=info["line"], function=info["fi"].qualname,
               expected="queue.append(token) right after read_token; one context.token_queue.extend(queue) after the loop",
               found=info["problems"])
    # read_token: queue first (from the left), else the scanner
    from ..frame import analyse_read_token, parse_nf
    rt = analyse_read_token()
    rep.used_function(rt["fi"].qualname)
    rep.ob(rid, "read_token takes from the left of the look-ahead queue first, else one token from the scanner", rt["ok"],
           file=PARSER_FILE, line=rt["fi"].node.lineno, function=rt["fi"].qualname,
           expected="context.token_queue.popleft() if context.token_queue else context.token_scanner.read()", found=rt["found"])
    # nobody else touches token_queue
    allowed = {f"{PC}.{N.READ_TOKEN}"} | {i["fi"].qualname for i in pt.lookaheads.values()}
    # helpers the look-ahead functions delegate to (call closure inside Parser)
    pcls = facts().cls(PC)
    work = [i["fi"] for i in pt.lookaheads.values()]
    while work:
        fx = work.pop()
        for n in walk_no_nested_defs(fx.node):
            if isinstance(n, ast.Call) and is_self_attr(n.func):
                m = pcls.find_method(n.func.attr)
                if m is not None and m.qualname not in allowed and not m.name.startswith("match_") and m.name not in ("parse", N.MATCH_TOKEN):
                    allowed.add(m.qualname)
                    work.append(m)
    sites = 0
    for f in facts().all_functions():
        if f.module.name == "gherkin.inout":
            continue
        for n in walk_no_nested_defs(f.node):
            if isinstance(n, ast.Attribute) and n.attr == N.CTX_QUEUE and not is_self_attr(n):
                sites += 1
                if f.qualname not in allowed:
                    rep.ob(rid, f"token_queue is used only by read_token and the look-ahead functions", False,
                           file=f.file, line=n.lineno, function=f.qualname, expected="no access", found=unparse(n))
    rep.floor("token_queue use sites", sites, 2)
    # queue object: a fresh, empty queue per parse
    P = parse_nf()
    from ..absint import HList, fmt
    q = P.ctx_attr(N.CTX_QUEUE)
    o = P.I.obj(q) if q else None
    ok = isinstance(o, HList) and not o.segs and o.origin[2] != 0 and not [n for n, c in P.flat if n[0] == "mutate" and n[1] == q]
    rep.ob(rid, "each parse starts with a fresh, empty look-ahead queue (deque)", ok, file=PARSER_FILE, line=P.fi.node.lineno, function=P.fi.qualname,
           expected="ParserContext(..., deque(), ...)", found=fmt(q, P.I) if q else None)


def rule_nest(rep: Report, rid="C18.nest") -> None:
    """All look-aheads share one skip set and no expected token is in it: a nested look-ahead always runs
    through the re-queued run to its terminator, so re-queueing on the right preserves order."""
    pt = ptable()
    skips = {n: tuple(sorted(i["skip"])) for n, i in pt.lookaheads.items()}
    exps = {n: tuple(i["expected"]) for n, i in pt.lookaheads.items()}
    rep.ob(rid, "all look-ahead functions skip the same token kinds", len(set(skips.values())) == 1,
           file=PARSER_FILE, function=PC, expected="one skip set", found=skips)
    for n in sorted(skips):
        rep.ob(rid, f"{n}: expected token is not in the skip set", not (set(exps[n]) & set(skips[n])),
               file=PARSER_FILE, line=pt.lookaheads[n]["line"], function=pt.lookaheads[n]["fi"].qualname,
               expected="disjoint", found={"expected": exps[n], "skip": skips[n]})
    # a look-ahead is only ever started on a token of the skip set (so the run it looks past starts at that token)
    for s, st in sorted(pt.states.items()):
        for i, t in enumerate(st.transitions):
            if t.lookahead and t.lookahead in skips:
                rep.ob(rid, f"state {s} transition {i}: look-ahead starts on a skip-set token", t.token in skips[t.lookahead],
                       file=PARSER_FILE, line=t.line, function=st.fi.qualname, expected=skips[t.lookahead], found=t.token)


def docstring_states(pt, g, stats) -> list[int]:
    """States whose continuation starts inside a doc string (derived from the grammar, not by number)."""
    out = []
    for s, conts in stats["state_conts"].items():
        for c in conts:
            if len(c) >= 2 and c[0] == ("star", ("tok", "Other")) and c[1] == ("tok", "DocStringSeparator"):
                out.append(s)
                break
    return sorted(out)


def rule_docstring_states(rep: Report, rid="C13.states") -> None:
    pt = ptable()
    g = grammar()
    _, stats = run_product(pt, g)
    ds = docstring_states(pt, g, stats)
    rep.floor("doc string states", len(ds), 4)
    for s in ds:
        st = pt.states[s]
        toks = [t.token for t in st.transitions]
        rep.ob(rid, f"state {s} (inside a doc string): transitions are exactly [#DocStringSeparator, #Other], in that order",
               toks == ["DocStringSeparator", "Other"], file=PARSER_FILE, line=st.fi.node.lineno, function=st.fi.qualname,
               expected=["DocStringSeparator", "Other"], found=toks)
        for t in st.transitions:
            if t.token == "Other":
                rep.ob(rid, f"state {s}: a content line stays inside the doc string and is only delivered", t.target == s and
                       [p[0] for p in t.productions] == ["build"] and t.lookahead is None,
                       file=PARSER_FILE, line=t.line, function=st.fi.qualname, expected=f"build; return {s}", found=repr(t))
            if t.token == "DocStringSeparator":
                rep.ob(rid, f"state {s}: the closing delimiter leaves the doc string without closing any rule early",
                       t.target != s and [p[0] for p in t.productions] == ["build"] and t.lookahead is None,
                       file=PARSER_FILE, line=t.line, function=st.fi.qualname, expected="build; return <after-docstring state>", found=repr(t))
    # states entered by an opening separator are doc string states, and only those
    for s, st in sorted(pt.states.items()):
        for i, t in enumerate(st.transitions):
            if t.token == "DocStringSeparator" and s not in ds:
                rep.ob(rid, f"state {s} transition {i}: an opening delimiter enters a doc string state",
                       t.target in ds and ("start", "DocString") in t.productions,
                       file=PARSER_FILE, line=t.line, function=st.fi.qualname, expected=f"start DocString; target in {ds}", found=repr(t))


def rule_state_safety(rep: Report, rid="C01.state") -> None:
    """The parse loop cannot reach 'Unknown state' and ends at EOF."""
    pt = ptable()
    ends = pt.end_states()
    dispatched = dispatched_states()
    for s, st in sorted(pt.states.items()):
        tg = sorted({t.target for t in st.transitions if t.target is not None} | set(st.tail.returns))
        bad = [x for x in tg if x not in dispatched and x not in ends]
        rep.ob(rid, f"state {s}: every returned state is dispatched or is the end state", not bad and None not in st.tail.returns,
               file=PARSER_FILE, line=st.fi.node.lineno, function=st.fi.qualname, expected="targets within dispatch table", found=tg)
        for i, t in enumerate(st.transitions):
            if t.target in ends:
                rep.ob(rid, f"state {s} transition {i}: the end state is entered only on #EOF", t.token == "EOF",
                       file=PARSER_FILE, line=t.line, function=st.fi.qualname, expected="EOF", found=t.token)
        has_eof_or_err = True  # EOF either transitions or falls to the tail (which stays in state; loop still breaks on eof)
    for n in sorted(pt.states):
        rep.ob(rid, f"dispatch[{n}] resolves to its state method", n in dispatched,
               file=PARSER_FILE, line=pt.dispatch_fi.node.lineno, function=pt.dispatch_fi.qualname, expected=f"match_token_at_{n}", found="not dispatched")
    # look-ahead loops stop at EOF at the latest: every skip wrapper is False on EOF
    for n, info in sorted(pt.lookaheads.items()):
        for k in info["skip"]:
            w = pt.wrappers.get(k)
            rep.ob(rid, f"{n}: skip test match_{k} is False on the EOF token (the loop cannot run past the end)",
                   w is not None and w["eof_guard"], file=PARSER_FILE, line=(w or {}).get("line"),
                   function=(w["fi"].qualname if w else PC), expected="EOF guard", found="missing" if not (w and w["eof_guard"]) else "guard")


def rule_linear(rep: Report, rid="C01.linear") -> None:
    """Matching work per line is bounded by a constant (no look-ahead restarts inside a run it already looked past)."""
    pt = ptable()
    la_states = {s for s, st in pt.states.items() if any(t.lookahead for t in st.transitions)}
    skip = set()
    for i in pt.lookaheads.values():
        skip |= set(i["skip"])
    # states entered by a guarded transition or by its un-guarded fallback on the same token
    entered = set()
    for s, st in pt.states.items():
        for i, t in enumerate(st.transitions):
            if t.lookahead:
                entered.add(t.target)
                for t2 in st.transitions[i + 1:]:
                    if t2.token == t.token and not t2.lookahead:
                        entered.add(t2.target)
    # closure under skip-token moves
    seen = set(entered)
    work = list(entered)
    while work:
        s = work.pop()
        if s not in pt.states:
            continue
        for t in pt.states[s].transitions:
            if t.token in skip and t.target is not None and t.target not in seen:
                seen.add(t.target)
                work.append(t.target)
    for s in sorted(seen):
        if s not in pt.states:
            continue
        guarded_on_skip = [t for t in pt.states[s].transitions if t.lookahead and t.token in skip]
        rep.ob(rid, f"state {s} (reached after a look-ahead, within the run it looked past): no further look-ahead on a skip token",
               not guarded_on_skip, file=PARSER_FILE, line=pt.states[s].fi.node.lineno, function=pt.states[s].fi.qualname,
               expected="no look-ahead guarded transition on " + "/".join(sorted(skip)), found=[repr(t) for t in guarded_on_skip])
    max_tr = max(len(st.transitions) for st in pt.states.values())
    max_la = max((sum(1 for t in st.transitions if t.lookahead) for st in pt.states.values()), default=0)
    per_la = max((len(i["skip"]) + len(i["expected"]) for i in pt.lookaheads.values()), default=0)
    bound = max_tr + max_la * per_la
    rep.counts["max_transitions_per_state"] = max_tr
    rep.counts["matcher_calls_per_line_bound"] = bound
    rep.ob(rid, "matcher calls per line are bounded by a constant independent of the document", bound < 64,
           file=PARSER_FILE, function=PC, expected="< 64", found=bound,
           note=f"max transitions per state {max_tr} + at most {max_la} look-aheads per run x {per_la} tests each")
    rep.floor("states after look-ahead", len(seen), 3)
