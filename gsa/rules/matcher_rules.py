"""Rules on the token matcher (placeholder, filled below)."""
from ..common import Report


def rule_keyword_types(rep: Report, rid: str) -> None:
    pass


def rule_dialect_triple(rep: Report, rid: str) -> None:
    pass


def rule_text_extraction(rep, rid):
    pass


def rule_docstring_fsm(rep, rid):
    pass


def rule_reset(rep, rid):
    pass
