"""Rules on the token matcher's normal form (C03.text, C04.col, C05, C10.types, C13, C15.reset, C16)."""
from __future__ import annotations

import ast

from ..absint import new_interp, Interp, HList, HDict, HInst, NONE, const, is_const, fmt, fmt_seg, fmt_tree, mk_not, mk_cmp, mk_cond
from ..names import N
from ..common import AnalysisError, Report
from ..facts import facts
from .. import nf

MFILE = "python/gherkin/token_matcher.py"
MQ = "gherkin.token_matcher.TokenMatcher"
KINDS = ["FeatureLine", "RuleLine", "BackgroundLine", "ScenarioLine", "ExamplesLine", "StepLine", "TableRow", "TagLine",
         "DocStringSeparator", "Language", "Comment", "Empty", "Other", "EOF"]


def _sink_intrinsic(I, st, fi, args, kwargs, n, tree):
    a = fi.node.args
    names = [p.arg for p in a.posonlyargs + a.args]
    role_of = {v: k for k, v in N.SINK_PARAMS.items()}       # the bindings are keyed by role, whatever the parameters are called
    b = {}
    for i, nm in enumerate(names):
        if i < len(args):
            b[role_of.get(nm, nm)] = args[i]
        elif nm in kwargs:
            b[role_of.get(nm, nm)] = kwargs[nm]
    tree.append(("sink", b, getattr(n, "lineno", None)))
    return NONE


# ---- linear integer terms ------------------------------------------------------------------
def lin(t):
    """Linear normal form {atom: coeff, 1: const} of an integer term; None when not linear.
    len(a + b) = len(a) + len(b); len('lit') is a constant."""
    if is_const(t) and isinstance(t[1], int) and not isinstance(t[1], bool):
        return {1: t[1]}
    if t[0] == "binop" and t[1] in ("Add", "Sub"):
        a, b = lin(t[2]), lin(t[3])
        if a is None or b is None:
            return None
        out = dict(a)
        for k, v in b.items():
            out[k] = out.get(k, 0) + (v if t[1] == "Add" else -v)
        return {k: v for k, v in out.items() if v != 0 or k == 1}
    if t[0] == "call" and t[1] == "len" and len(t[2]) == 1:
        x = t[2][0]
        if is_const(x) and isinstance(x[1], str):
            return {1: len(x[1])}
        if x[0] == "binop" and x[1] == "Add":
            return lin(("binop", "Add", ("call", "len", (x[2],), ()), ("call", "len", (x[3],), ())))
        return {("len", x): 1}
    return {t: 1}


def lin_eq(a, b) -> bool:
    la, lb = lin(a), lin(b)
    if la is None or lb is None:
        return False
    norm = lambda d: {k: v for k, v in d.items() if v != 0}
    return norm(la) == norm(lb)


def fmt_lin(t, I=None) -> str:
    return fmt(t, I)


class MethodNF:
    def __init__(self, I, fi, tree, rv):
        self.I, self.fi, self.tree, self.rv = I, fi, tree, rv
        self.sinks = [(n, ctx) for n, ctx in nf.iter_nodes(tree) if n[0] == "sink"]
        p = fi.params()
        self.selft = ("param", p[0])
        self.tok = ("param", p[1]) if len(p) > 1 else None


class MatcherNF:
    """Normal forms of every match_<Kind> of a matcher class, with the single sink kept symbolic."""

    def __init__(self, cls_q: str = MQ) -> None:
        f = facts()
        self.cls = f.cls(cls_q)
        self.methods: dict[str, MethodNF] = {}
        sink_fi = self.cls.find_method(N.SINK)
        if sink_fi is None:
            raise AnalysisError("anchor vanished: the single matched-token sink of TokenMatcher")
        self.sink_q = sink_fi.qualname
        for k in KINDS:
            m = self.cls.find_method(f"match_{k}")
            if m is None:
                raise AnalysisError(f"anchor vanished: {cls_q}.match_{k}")
            I = new_interp()
            I.intrinsics[self.sink_q] = _sink_intrinsic
            for prop, member in (("table_cells", N.TABLE_CELLS), ("tags", N.TAGS)):
                pq = f"gherkin.gherkin_line.GherkinLine.{member}"
                if I.facts.has_func(pq):
                    I.intrinsics[pq] = (lambda I_, st_, fi_, args, kwargs, n, tree_, prop=prop: ("prop", prop, args[0]))
            # analyse with self typed as the class under analysis (virtual dispatch resolves to it)
            tree, rv, _ = self._run(I, m)
            self.methods[k] = MethodNF(I, m, tree, rv)

    def _run(self, I, m):
        # Interp.run types self as m.cls; for inherited methods analysed on a subclass, override
        q = m.qualname
        fi = I.facts.func(q)
        selfname = fi.params()[0]
        I.types[("param", selfname)] = self.cls
        # the dialect in force is a Dialect: its helper methods are inlined, its keyword-list properties stay symbolic
        # (self.dialect.<role>_keywords is what the role tables are stated in)
        dcls = I.facts.modules.get("gherkin.dialect").classes.get("Dialect") if I.facts.modules.get("gherkin.dialect") else None
        if dcls is not None:
            I.types[("attr", ("param", selfname), N.DIALECT)] = dcls
            # ... those that hand out a list of the table as it is (``return self.spec["given"]``); a property computed
            # from others (all step keywords in one list) is evaluated like any helper
            I.opaque_attrs[dcls.qualname] = _table_properties(dcls).__contains__
        tree, rv, st = I.run(q, ext=self._dialect_derived(I, selfname))
        return tree, rv, st

    def _dialect_derived(self, I, selfname) -> dict:
        """Attributes that only the dialect switch binds, to an expression of the dialect it installs (a keyword list put together
        once per dialect): while matching they hold that expression of ``self.dialect``.  {(self, attr): term}; whether such an
        attribute follows every dialect change is C15.reset's question (it must be bound where the dialect is)."""
        from ..absint import State, Activation
        fam = [c for c in I.facts.all_classes() if self.cls in c.mro() or c in self.cls.mro()]
        writers: dict = {}
        for c in fam:
            for m in c.methods.values():
                me = m.params()[0] if m.params() else None
                for n in ast.walk(m.node):
                    if isinstance(n, ast.Attribute) and isinstance(n.ctx, (ast.Store, ast.Del)) and isinstance(n.value, ast.Name) and n.value.id == me:
                        writers.setdefault(n.attr, set()).add(m.name)
        group = {N.DIALECT_NAME, N.DIALECT, N.KEYWORD_TYPES}
        out = {}
        selft = ("param", selfname)
        for c in self.cls.mro():
            sw = c.methods.get(N.CHANGE_DIALECT)
            if sw is None:
                continue
            me = sw.params()[0]
            aliases = set()
            for st_ in sw.node.body:
                if isinstance(st_, ast.Assign) and len(st_.targets) == 1 and isinstance(st_.targets[0], ast.Name) and isinstance(st_.value, ast.Call) \
                        and isinstance(st_.value.func, ast.Attribute) and st_.value.func.attr == "for_name":
                    aliases.add(st_.targets[0].id)
                if isinstance(st_, ast.Assign) and len(st_.targets) == 1 and isinstance(st_.targets[0], ast.Name) and isinstance(st_.value, ast.Attribute) \
                        and st_.value.attr == N.DIALECT and isinstance(st_.value.value, ast.Name) and st_.value.value.id == me:
                    aliases.add(st_.targets[0].id)          # ``dialect = self.dialect`` after the dialect was installed
            for st_ in sw.node.body:
                if not (isinstance(st_, ast.Assign) and len(st_.targets) == 1 and isinstance(st_.targets[0], ast.Attribute)
                        and isinstance(st_.targets[0].value, ast.Name) and st_.targets[0].value.id == me):
                    continue
                a = st_.targets[0].attr
                if a in group or a in out or writers.get(a) != {N.CHANGE_DIALECT}:
                    continue
                names = {x.id for x in ast.walk(st_.value) if isinstance(x, ast.Name) and isinstance(x.ctx, ast.Load)}
                local = {x.id for x in ast.walk(sw.node) if isinstance(x, ast.Name) and isinstance(x.ctx, ast.Store)} | set(sw.params()[1:])
                if (names & local) - aliases:
                    continue            # computed from other locals: not followed
                env = {me: selft}
                for al in aliases:
                    env[al] = ("attr", selft, N.DIALECT)
                I.stack.append(Activation(sw, len(I.stack)))
                try:
                    scratch: list = []
                    v = I.ev(State(env=env), st_.value, scratch)
                except Exception:
                    v = None
                finally:
                    I.stack.pop()
                if v is not None and I._effect_free(scratch):
                    out[(selft, a)] = v
        return out


def _table_properties(dcls) -> set:
    """Properties of Dialect that hand out the dialect's table entries: every property that is not computed from other
    properties of the class (``step_keywords = given_keywords + when_keywords + ...`` is computed; ``given_keywords`` is not)."""
    props = {name: fi for c in reversed(dcls.mro()) for name, fi in c.methods.items() if fi.is_property and fi.params()}
    out = set()
    for name, fi in props.items():
        me = fi.params()[0]
        derived = any(isinstance(x, ast.Attribute) and isinstance(x.value, ast.Name) and x.value.id == me and x.attr in props and x.attr != name
                      for x in ast.walk(fi.node))
        if not derived:
            out.add(name)
    # ... and properties made by a call in the class body (``feature_keywords = _keywords_property("feature")``)
    for c in dcls.mro():
        for name, val in c.class_attrs.items():
            if isinstance(val, ast.Call) and name not in props:
                out.add(name)
    return out


_MNF = {}


def mnf(cls_q: str = MQ) -> MatcherNF:
    if cls_q not in _MNF:
        _MNF[cls_q] = MatcherNF(cls_q)
    return _MNF[cls_q]


def _kw(m: MethodNF, line=None):
    return dict(file=m.fi.file, line=line or m.fi.node.lineno, function=m.fi.qualname)


# ---- the sink -----------------------------------------------------------------------------------
def rule_sink(rep: Report, rid_col="C04.col", rid_crlf="C16.crlf", want=("col", "crlf", "fields")) -> None:
    """_set_token_matched: column = matched indent + 1; matched text loses trailing CR/LF; fields stored as given."""
    I = new_interp()
    SINK = f"{MQ}.{N.SINK}"
    fi = I.facts.func(SINK)
    rep.used_file(fi.file)
    rep.used_function(fi.qualname)
    tree, rv, st = I.run(SINK)
    p = fi.params()
    SP = N.SINK_PARAMS
    tok = ("param", SP["token"])
    par = lambda n: ("param", SP[n])
    kw = dict(file=fi.file, line=fi.node.lineno, function=fi.qualname)
    ext = st.ext if st else {}
    line_indent = ("attr", ("attr", tok, "line"), N.INDENT)
    mi = ext.get((tok, "matched_indent"))
    want_mi_forms = [
        ("cond", ("cmp", "Is", par("indent"), NONE), ("cond", ("attr", tok, "line"), line_indent, const(0)), par("indent")),
        ("cond", ("cmp", "Is", par("indent"), NONE), line_indent, par("indent")),
    ]
    if "col" in want:
        rep.ob(rid_col, "matched indent = the indent given by the caller, else the line's own indent (0 for the EOF token)", mi in want_mi_forms, **kw,
               expected=fmt(want_mi_forms[0], I), found=fmt(mi, I) if mi else "never set")
        cols = [n for n, ctx in nf.iter_nodes(tree) if n[0] == "setitem" and n[1] == ("attr", tok, "location") and n[2] == const("column")]
        ok = len(cols) == 1 and mi is not None and lin_eq(cols[0][3], ("binop", "Add", mi, const(1))) \
            and not nf.guards_in_ctx([c for n, c in nf.iter_nodes(tree) if n is cols[0]][0])
        rep.ob(rid_col, "location.column = matched indent + 1, set on every match", ok, **kw,
               expected="token.location['column'] = token.matched_indent + 1", found=[fmt(c[3], I) for c in cols] or "column never set")
    if "crlf" in want:
        mt = ext.get((tok, "matched_text"))
        forms = []
        for chars in ("\r\n", "\n\r"):
            r = ("call", ".rstrip", (par("text"), const(chars)), ())
            forms += [("cond", ("cmp", "Is", par("text"), NONE), NONE, r), ("cond", par("text"), r, NONE)]
        rep.ob(rid_crlf, "matched text of every token kind loses trailing carriage returns and line feeds (and nothing else)", mt in forms, **kw,
               expected="text.rstrip('\\r\\n') if text is not None else None", found=fmt(mt, I) if mt else "never set")
    if "fields" in want:
        for attr, src in (("matched_type", "matched_type"), ("matched_keyword", "keyword"), ("matched_keyword_type", "keyword_type")):
            v = ext.get((tok, attr))
            rep.ob(rid_col.split(".")[0] + ".sink", f"token.{attr} is stored as passed", v == par(src), **kw, expected=src, found=fmt(v, I) if v else "never set")
        v = ext.get((tok, "matched_items"))
        ok = v is not None and v[0] == "cond" and v[1] == ("cmp", "Is", par("items"), NONE) and v[3] == par("items") \
            and isinstance(I.obj(v[2]), HList) and not I.obj(v[2]).segs
        rep.ob(rid_col.split(".")[0] + ".sink", "token.matched_items is the list passed, a fresh empty list by default", ok, **kw,
               expected="[] if items is None else items", found=fmt(v, I) if v else "never set")
        v = ext.get((tok, "matched_gherkin_dialect"))
        rep.ob(rid_col.split(".")[0] + ".sink", "token.matched_gherkin_dialect is the dialect name in force at match time",
               v == ("attr", ("param", p[0]), N.DIALECT_NAME), **kw, expected="self.dialect_name", found=fmt(v, I) if v else "never set")


# ---- helper: first-match keyword loops -------------------------------------------------------------
class KwMatch:
    def __init__(self):
        self.lists = None       # list of keyword-list terms, in order
        self.test = None        # test term with keyword placeholder ('KW',)
        self.keyword = None     # the term standing for the matched keyword at the sink
        self.first_wins = False
        self.loop = None


KW = ("KW",)


def _kw_loop(m: MethodNF, ctx) -> KwMatch | None:
    """Recognise ``for k in (k for k in KWS if TEST(k)): ...sink...; return True`` and
    ``for k in KWS: if TEST(k): ...sink...; return True``."""
    I = m.I
    loops = nf.loops_in_ctx(ctx)
    if not loops:
        # ``k = next((k for k in KWS if TEST(k)), None); if k is None: return False; ...sink...``
        for n, c in nf.iter_nodes(m.tree):
            if n[0] == "sink" and c == ctx:
                kterm = n[1].get("keyword")
                guards = nf.guards_in_ctx(ctx)
                if kterm is None:
                    continue
                # (a) k = next((k for k in KWS if TEST(k)), None); if k is None: return False
                if kterm[0] == "firstof" and kterm[2] == ("elem", kterm[1]) and kterm[3] == NONE and (("cmp", "Is", kterm, NONE), False) in guards:
                    inner = kterm[1]
                    ii = I.loops[inner]
                    conds = ii.get("conds") or ()
                    if len(conds) != 1:
                        return None
                    r = KwMatch()
                    r.loop = inner
                    r.keyword = kterm
                    r.test = nf.subst(conds[0], {("elem", inner): KW})
                    r.lists = _kw_parts(m, ii.get("iter"))
                    return r
                # (b) a search helper: ``for k in KWS: if TEST(k): return k`` / ``return None``; ``if k is None: return False``
                searched = None
                if kterm[0] == "cond" and kterm[1][0] == "loopret" and kterm[2] == ("elem", kterm[1][1]) and kterm[3] == NONE and nf.guards_imply(guards, kterm[1]):
                    searched = kterm[1][1]
                elif kterm[0] == "elem" and nf.guards_imply(guards, ("loopret", kterm[1])):
                    searched = kterm[1]         # the same, already narrowed by the 'is None' test on the path
                if searched is not None:
                    inner = searched
                    ii = I.loops[inner]
                    node = next((x for x, _ in nf.iter_nodes(m.tree) if x[0] == "loop" and x[1] == inner), None)
                    if node is None or ii.get("conds") or ii.get("kind") != "for":
                        return None
                    body = list(nf.iter_nodes(node[2]))
                    rets = [(x, cc) for x, cc in body if x[0] == "return" and not any(y[0] == "call" for y in cc)]
                    effects = [x for x, cc in body if x[0] in ("mutate", "setattr", "setitem", "sink", "break", "raise", "yield")]
                    if len(rets) != 1 or effects or rets[0][0][1] != ("elem", inner):
                        return None
                    gs = nf.guards_in_ctx(rets[0][1])
                    if len(gs) != 1 or not gs[0][1]:
                        return None
                    r = KwMatch()
                    r.loop = inner
                    r.keyword = kterm
                    r.test = nf.subst(gs[0][0], {("elem", inner): KW})
                    r.lists = _kw_parts(m, ii.get("iter"))
                    return r
        return None
    lid = loops[-1]
    info = I.loops[lid]
    it = info.get("iter")
    r = KwMatch()
    r.loop = lid
    r.keyword = ("elem", lid)
    o = I.obj(it)
    base = None
    if isinstance(o, HList) and len(o.segs) == 1 and o.segs[0][0] == "loop" and o.segs[0][2] == [("e", ("elem", o.segs[0][1]))]:
        inner = o.segs[0][1]
        ii = I.loops[inner]
        base = ii.get("iter")
        conds = ii.get("conds") or ()
        if len(conds) != 1:
            return None
        r.test = nf.subst(conds[0], {("elem", inner): KW})
    else:
        base = it
        # guards between the loop and the sink
        idx = max(i for i, x in enumerate(ctx) if x[0] == "loop" and x[1] == lid)
        gs = [nf.norm_guard(x[1], x[2]) for x in ctx[idx + 1:] if x[0] == "if"]
        gs = [(c, p) for c, p in gs if nf.contains(c, lambda t: t == ("elem", lid))]
        if len(gs) != 1 or not gs[0][1]:
            return None
        r.test = nf.subst(gs[0][0], {("elem", lid): KW})
    if info.get("conds"):
        return None
    r.lists = _kw_parts(m, base)
    return r


def _kw_parts(m: MethodNF, base):
    I = m.I
    # keyword lists in order: '+' chains and list displays of splats
    def parts(t):
        if t[0] == "binop" and t[1] == "Add":
            return parts(t[2]) + parts(t[3])
        if t[0] == "call" and t[1] in ("tuple", "list") and len(t[2]) == 1 and not t[3]:
            return parts(t[2][0])           # the same elements in the same order
        oo = I.obj(t)
        if isinstance(oo, HList) and oo.segs and all(s[0] == "s" for s in oo.segs) and \
                not any(n[0] == "mutate" and n[1] == t for n, _ in nf.iter_nodes(m.tree)):
            out = []
            for s in oo.segs:
                out += parts(s[1])
            return out
        return [t]
    return parts(base)


def _returns_true_after(m: MethodNF, sink_node) -> bool:
    """The block containing the sink ends with ``return True`` (first match wins; nothing is tried afterwards)."""
    def find(tree):
        for i, n in enumerate(tree):
            if n is sink_node:
                rest = [x for x in tree[i + 1:] if x[0] not in ("alloc",)]
                return bool(rest) and rest[-1][0] == "return" and is_const(rest[-1][1], True) and \
                    all(x[0] in ("return", "setattr", "call") for x in rest)
            if n[0] == "if":
                for sub in (n[2], n[3]):
                    r = find(sub)
                    if r is not None:
                        return r
            elif n[0] == "loop":
                r = find(n[2])
                if r is not None:
                    return r
            elif n[0] == "call":
                r = find(n[2])
                if r is not None:
                    return r
        return None
    return bool(find(m.tree))


def line_terms(m: MethodNF):
    tok = m.tok
    line = ("attr", tok, "line")
    return line, ("attr", line, N.TRIMMED), ("attr", line, N.RAW)


TITLE_ROLES = {
    "FeatureLine": ["feature_keywords"],
    "RuleLine": ["rule_keywords"],
    "BackgroundLine": ["background_keywords"],
    "ScenarioLine": ["scenario_keywords", "scenario_outline_keywords"],
    "ExamplesLine": ["examples_keywords"],
}
STEP_LISTS = ["given_keywords", "when_keywords", "then_keywords", "and_keywords", "but_keywords"]


def rule_roles(rep: Report, rid="C05.roles", rid_text="C03.text", cls_q=MQ, want=("roles", "text")) -> None:
    """Role table: match_<Kind> tests the keyword lists of its own role, in order, first match wins; the text is the rest
    of the trimmed line after exactly the prefix that was tested, stripped."""
    M = mnf(cls_q)
    for kind, lists in list(TITLE_ROLES.items()) + [("StepLine", STEP_LISTS)]:
        m = M.methods[kind]
        I = m.I
        rep.used_file(m.fi.file)
        rep.used_function(m.fi.qualname)
        line, trimmed, raw = line_terms(m)
        dialect = ("attr", m.selft, N.DIALECT)
        want_lists = [("attr", dialect, x) for x in lists]
        got_lists = []
        suffix = ":" if kind != "StepLine" else ""
        rep.ob(rid if "roles" in want else rid_text, f"match_{kind} reports matches through the single sink", bool(m.sinks), **_kw(m), expected=">= 1 sink call", found=len(m.sinks))
        for sn, ctx in m.sinks:
            a = sn[1]
            km = _kw_loop(m, ctx)
            kw = _kw(m, sn[2])
            if km is None:
                if "roles" in want:
                    rep.ob(rid, f"match_{kind}: the keyword is chosen by a first-match scan of the dialect's keyword lists", False, **kw,
                           expected="for k in keywords: if line starts with k: ...", found="sink not inside a recognised keyword scan")
                continue
            got_lists += km.lists
            if "roles" in want:
                rep.eq(rid, f"match_{kind} reports token kind {kind}", const(kind), a.get("matched_type"), **kw)
                rep.ob(rid, f"match_{kind}: the reported keyword is the list element that matched, as listed", a.get("keyword") == km.keyword, **kw,
                       expected="the scanned keyword", found=fmt(a.get("keyword"), I) if a.get("keyword") else None)
                prefix = ("binop", "Add", KW, const(":")) if suffix else KW
                want_test = ("call", ".startswith", (trimmed, prefix), ())
                rep.ob(rid, f"match_{kind}: a keyword matches iff the left-trimmed line starts with keyword" + (" + ':'" if suffix else ""),
                       km.test == want_test, **kw, expected=fmt(want_test, I), found=fmt(km.test, I))
                rep.ob(rid, f"match_{kind}: the first keyword that matches wins", _returns_true_after(m, sn), **kw,
                       expected="return True right after the match", found="scan continues or falls through")
            if "text" in want:
                t = a.get("text")
                ok = False
                found = fmt(t, I) if t else None
                tested = km.test[2][1] if km.test and km.test[0] == "call" and km.test[1] == ".startswith" and len(km.test[2]) == 2 else None
                if t is not None and t[0] == "call" and t[1] == ".strip" and len(t[2]) == 1 and t[2][0][0] == "slice" and tested is not None:
                    sl = t[2][0]
                    off = nf.subst(sl[2], {km.keyword: KW})
                    ok = sl[1] == trimmed and sl[3] == NONE and sl[4] == NONE and lin_eq(off, ("call", "len", (tested,), ()))
                rep.ob(rid_text, f"match_{kind}: text = rest of the trimmed line after exactly the tested prefix, stripped", ok, **kw,
                       expected=".strip(trimmed[len(<tested prefix>):])", found=found)
        if "roles" in want:
            rep.eq(rid, f"match_{kind} scans exactly the keyword lists of its role, in order", [fmt(x, I) for x in want_lists],
                   [fmt(x, I) for x in got_lists], **_kw(m))


def match_paths(m: MethodNF, limit=4000):
    """Paths through a match method's effect tree: [(assignment of atomic tests, sink reached?, returned term or None, exit)].
    Loops are taken zero times or once; a return inside a loop sets that loop's ('loopret', id) atom for its own frame."""
    out = []

    def unknown_atom(c, assign):
        atoms = []
        nf._test_atoms(c, atoms)
        for a in atoms:
            if a not in assign:
                return a
        return None

    def seq(nodes, i, st, depth, loops, k):
        """Run nodes[i:]; call k(exit, st) for every way the block ends."""
        if len(out) > limit:
            return
        if i >= len(nodes):
            k(None, st)
            return
        n = nodes[i]
        kind = n[0]
        nxt = lambda ex, st2: seq(nodes, i + 1, st2, depth, loops, k) if ex is None else k(ex, st2)
        if kind == "if":
            try:
                v = nf.eval_test(n[1], st["assign"])
            except KeyError:
                a = unknown_atom(n[1], st["assign"])
                if a is None:
                    a = n[1]
                for val in (True, False):
                    st2 = dict(st, assign=dict(st["assign"], **{}))
                    st2["assign"][a] = val
                    seq(nodes, i, st2, depth, loops, k)
                return
            seq(n[2] if v else n[3], 0, st, depth, loops, nxt)
        elif kind == "call":
            def after_call(ex, st2):
                nxt(None if ex == "return" else ex, st2)
            seq(n[2], 0, st, depth + 1, loops, after_call)
        elif kind == "loop":
            lid = n[1]
            lr = ("loopret", lid)
            st0 = dict(st, assign=dict(st["assign"]))
            st0["assign"][lr] = False
            nxt(None, st0)                                    # zero iterations
            def after_body(ex, st2):
                st3 = dict(st2, assign=dict(st2["assign"]))
                if ex == "return" and st3.get("ret_depth") == depth:
                    st3["assign"][lr] = True
                    k("return", st3)
                elif ex in ("return", "raise"):
                    k(ex, st3)
                else:
                    st3["assign"].setdefault(lr, False)
                    nxt(None, st3)                            # fell through / break / continue: the loop is left
            seq(n[2], 0, dict(st, assign=dict(st["assign"])), depth, loops + [(lid, depth)], after_body)
        elif kind == "return":
            st2 = dict(st, ret=n[1], ret_depth=depth)
            k("return", st2)
        elif kind == "raise":
            k("raise", st)
        elif kind in ("break", "continue"):
            if any(d == depth for _l, d in loops):
                k(kind, st)
            else:
                # a break of an unrolled loop: the remaining iterations are nested in the other branch; go on after it
                k(None, st)
        elif kind == "try":
            seq(n[1], 0, st, depth, loops, nxt)
        elif kind == "sink":
            seq(nodes, i + 1, dict(st, sink=st["sink"] + 1), depth, loops, k)
        else:
            seq(nodes, i + 1, st, depth, loops, k)

    def done(ex, st):
        out.append((st["assign"], st["sink"], st.get("ret") if ex == "return" and st.get("ret_depth") == 0 else None, ex))
    seq(m.tree, 0, {"assign": {}, "sink": 0}, 0, [], done)
    return out


def rule_match_result(rep: Report, rid="C05.result", cls_q=MQ) -> None:
    """Every match_<Kind> answers True exactly when it has reported the match (filled the token in) and False otherwise:
    the parser acts on the answer, the builder on the token."""
    M = mnf(cls_q)
    for kind, m in M.methods.items():
        I = m.I
        rep.used_function(m.fi.qualname)
        paths = match_paths(m)
        bad = []
        for assign, sink, ret, ex in paths:
            if ex == "raise":
                continue
            val = resolve_conds(ret, assign) if ret is not None else NONE
            try:
                res = nf.eval_test(val, assign) if not is_const(val, None) else None
            except KeyError:
                res = "?"
            if res == "?" or res is None:
                bad.append(("result not decided by the tests on the path" if res == "?" else "returns None", fmt(val, I)[:120]))
            elif bool(res) != (sink >= 1) or sink > 1:
                bad.append((f"returns {bool(res)} after reporting {sink} match(es)", [(fmt(a, I)[:60], v) for a, v in list(assign.items())[:4]]))
        rep.ob(rid, f"match_{kind} returns True exactly on the paths where it reports the match (once), False on all others", bool(paths) and not bad, **_kw(m),
               expected="return True after the sink call; return False otherwise", found=bad[:3] or f"{len(paths)} path(s) agree")


def rule_keyword_types(rep: Report, rid="C05.types") -> None:
    """keyword_types: given->Context, when->Action, then->Outcome, and+but->Conjunction; unique category else 'Unknown'."""
    I = new_interp()
    q = f"{MQ}.{N.CHANGE_DIALECT}"
    fi = I.facts.func(q)
    rep.used_function(fi.qualname)
    tree, rv, st = I.run(q)
    selft = ("param", fi.params()[0])
    kw = dict(file=fi.file, line=fi.node.lineno, function=fi.qualname)
    kt = st.ext.get((selft, N.KEYWORD_TYPES)) if st else None
    got = []
    if kt is not None and kt[0] == "ref":
        for n, ctx in nf.iter_nodes(tree):
            if n[0] == "mutate" and n[2] == "append" and n[1][0] == "item" and n[1][1] == kt:
                loops = nf.loops_in_ctx(ctx)
                li = max((i for i, x in enumerate(ctx) if x[0] == "loop"), default=-1)
                if len(loops) == 1 and n[1][2] == ("elem", loops[0]) and is_const(n[3][0]) and not nf.guards_in_ctx(ctx[li + 1:]):
                    it = I.loops[loops[0]].get("iter")
                    srcs = []
                    def parts(t):
                        if t[0] == "binop" and t[1] == "Add":
                            return parts(t[2]) + parts(t[3])
                        return [t]
                    flat = [sg[1] for sg in nf.flatten_segs(I, [("s", it)], tree) if sg[0] == "s"] if it is not None else []
                    pieces = []
                    for fx in flat:
                        pieces += parts(fx)
                    for x in pieces:
                        # Dialect properties are inlined to spec[...] reads of the dialect just looked up
                        nm = None
                        for s in nf.subterms(x):
                            if s[0] == "item" and is_const(s[2]) and s[2][1] in ("given", "when", "then", "and", "but"):
                                nm = s[2][1]
                        if x[0] == "attr" and x[2].endswith("_keywords"):
                            nm = x[2][: -len("_keywords")]
                        srcs.append(nm)
                    for s_ in srcs:
                        got.append((s_, n[3][0][1]))
                else:
                    got.append(("irregular", fmt(n[1], I)))
    want = [("given", "Context"), ("when", "Action"), ("then", "Outcome"), ("and", "Conjunction"), ("but", "Conjunction")]
    rep.eq(rid, "the category table maps given/when/then/and/but keywords to Context/Action/Outcome/Conjunction/Conjunction",
           sorted(want), sorted(got), **kw)
    o = I.obj(kt) if kt else None
    rep.ob(rid, "the category table is rebuilt from empty whenever the dialect changes", isinstance(o, HDict) and not o.entries, **kw,
           expected="self.keyword_types = defaultdict(list)", found=fmt(kt, I) if kt else "never assigned")
    # match_StepLine: unique category else 'Unknown'
    m = mnf().methods["StepLine"]
    I2 = m.I
    for sn, ctx in m.sinks:
        a = sn[1]
        km = _kw_loop(m, ctx)
        k = km.keyword if km else None
        types = ("item", ("attr", m.selft, N.KEYWORD_TYPES), k)
        want_t = ("cond", ("cmp", "Eq", ("call", "len", (types,), ()), const(1)), ("item", types, const(0)), const("Unknown"))
        rep.ob(rid, "a step keyword's type is its category when it has exactly one, else 'Unknown'", a.get("keyword_type") == want_t,
               **_kw(m, sn[2]), expected=fmt(want_t, I2), found=fmt(a.get("keyword_type"), I2) if a.get("keyword_type") else None)


def rule_dialect_triple(rep: Report, rid="C05.triple") -> None:
    """dialect_name, dialect and keyword_types are written only together, only by _change_dialect, after its raise;
    reset() re-establishes the default through it."""
    f = facts()
    cls = f.cls(MQ)
    group = {N.DIALECT_NAME, N.DIALECT, N.KEYWORD_TYPES}
    writers: dict[str, set] = {a: set() for a in group}
    for c in [cls] + [x for m in f.modules.values() for x in m.classes.values() if cls in x.mro() and x is not cls]:
        for mname, fi in c.methods.items():
            for n in ast.walk(fi.node):
                if isinstance(n, ast.Attribute) and isinstance(n.ctx, (ast.Store, ast.Del)) and n.attr in group \
                        and isinstance(n.value, ast.Name) and n.value.id == "self":
                    writers[n.attr].add(fi.qualname)
    cd = f"{MQ}.{N.CHANGE_DIALECT}"
    # ... or by a helper that only the dialect switch (or such a helper) calls: part of the switch, under another name
    allowed = {cd}
    grew = True
    while grew:
        grew = False
        for w in sorted(set().union(*writers.values()) - allowed):
            nm = w.rsplit(".", 1)[1]
            callers = set()
            for g in f.all_functions():
                if g.module.name.startswith("scripts"):
                    continue
                for n in ast.walk(g.node):
                    if isinstance(n, ast.Call) and ((isinstance(n.func, ast.Attribute) and n.func.attr == nm) or (isinstance(n.func, ast.Name) and n.func.id == nm)):
                        callers.add(g.qualname)
            if callers and callers <= allowed and nm.startswith("_") and not nm.startswith("__"):
                allowed.add(w)
                grew = True
    for a in sorted(group):
        rep.ob(rid, f"matcher attribute {a} is written only by _change_dialect", bool(writers[a]) and writers[a] <= allowed and (cd in writers[a] or len(allowed) > 1),
               file=MFILE, function=cd, expected=sorted(allowed), found=sorted(writers[a]))
    # inside _change_dialect: all three written on the same paths, after the unknown-dialect raise
    I = new_interp()
    fi = I.facts.func(cd)
    tree, rv, st = I.run(cd)
    rep.used_function(cd)
    selft = ("param", fi.params()[0])
    events = []
    for n, ctx in nf.iter_nodes(tree):
        if n[0] == "setattr" and n[1] == selft and n[2] in group:
            events.append(("set", n[2], tuple(nf.guards_in_ctx(ctx)), n[4]))
        elif n[0] == "raise":
            # a raise inside a helper the switch calls counts as the unknown-dialect raise when it comes before the stores
            events.append(("raise" if not any(x[0] == "call" for x in ctx) else "raise_in_call", None, tuple(nf.guards_in_ctx(ctx)), n[2]))
    sets = [e for e in events if e[0] == "set"]
    gs = {e[2] for e in sets}
    rep.ob(rid, "the three dialect attributes are assigned together on the same path", {e[1] for e in sets} == group and len(gs) == 1,
           file=fi.file, line=fi.node.lineno, function=cd, expected="one path assigning all three", found=[(e[1], e[3]) for e in sets])
    first_set = min((i for i, e in enumerate(events) if e[0] == "set"), default=None)
    raises = [e for e in events if e[0] == "raise" or (e[0] == "raise_in_call" and first_set is not None and events.index(e) < first_set)]
    ok = bool(raises) and first_set is not None and all(events.index(r) < first_set for r in raises)
    rep.ob(rid, "an unknown dialect raises before any of the three attributes is touched", ok, file=fi.file, line=fi.node.lineno, function=cd,
           expected="raise NoSuchLanguageException first", found=[(e[0], e[1], e[3]) for e in events])
    dn = st.ext.get((selft, N.DIALECT_NAME)) if st else None
    rep.ob(rid, "dialect_name is the name that was looked up", dn == ("param", fi.params()[1]), file=fi.file, line=fi.node.lineno, function=cd,
           expected=fi.params()[1], found=fmt(dn, I) if dn else None)
    # reset(): default dialect restored via _change_dialect(default), unconditionally or iff name differs
    I = new_interp()
    rq = f"{MQ}.reset"
    rfi = I.facts.func(rq)
    marks = []

    def cd_intrinsic(I_, st_, fi_, args, kwargs, n, tree_):
        tree_.append(("change_dialect", tuple(args), getattr(n, "lineno", None)))
        return NONE
    I.intrinsics[cd] = cd_intrinsic
    tree, rv, st = I.run(rq)
    rep.used_function(rq)
    selft = ("param", rfi.params()[0])
    default = ("attr", selft, N.DEFAULT_DIALECT)
    calls = [(n, ctx) for n, ctx in nf.iter_nodes(tree) if n[0] == "change_dialect"]
    ok = False
    found = [(fmt(n[1][1], I) if len(n[1]) > 1 else None, [(fmt(a, I), p) for a, p in nf.guards_in_ctx(ctx)]) for n, ctx in calls]
    if len(calls) == 1 and len(calls[0][0][1]) >= 2 and calls[0][0][1][1] == default:
        g = nf.guards_in_ctx(calls[0][1])
        same = ("cmp", "Eq", ("attr", selft, N.DIALECT_NAME), default)
        same2 = ("cmp", "Eq", default, ("attr", selft, N.DIALECT_NAME))
        ok = g == [] or g == [(same, False)] or g == [(same2, False)]
    rep.ob(rid, "reset() restores the default dialect through _change_dialect (always, or exactly when the name differs)", ok,
           file=rfi.file, line=rfi.node.lineno, function=rq, expected="if self.dialect_name != self._default_dialect_name: self._change_dialect(default)",
           found=found)
    # the default name is fixed at construction
    w = set()
    for c in [cls]:
        for fi2 in c.methods.values():
            for n in ast.walk(fi2.node):
                if isinstance(n, ast.Attribute) and isinstance(n.ctx, ast.Store) and n.attr == N.DEFAULT_DIALECT:
                    w.add(fi2.name)
    rep.ob(rid, "the default dialect name is only set by the constructor", w == {"__init__"}, file=MFILE, function=MQ + ".__init__",
           expected=["__init__"], found=sorted(w))


from ..nf import _test_atoms, cond_atoms, eval_test, resolve_conds  # noqa: E402,F401  (decision tables of cond terms)


def text_extraction_sinks(M: "MatcherNF"):
    for k, m in M.methods.items():
        for sn, ctx in m.sinks:
            yield k, m, sn, ctx


def rule_text_extraction(rep: Report, rid="C03.text") -> None:
    # "keywords are reported as written": the keyword reported is the first listed one the line starts with (lists in listed order)
    rule_roles(rep, rid=rid.split(".")[0] + ".keyword", rid_text=rid)
    # doc string opener: media type = rest after the delimiter
    rule_docstring_fsm(rep, rid, only_text=True)


def ds_field_writes(I, n, selft):
    """The doc string state fields a tree node writes: [(field, value)].  A direct store into a field (of the matcher or of the
    object it keeps the state in), or - when the state is an immutable record replaced as a whole - the store of a new record,
    which writes every field."""
    if n[0] != "setattr":
        return []
    if n[1] == N.ds_base(selft) and n[2] in (N.DS_ACTIVE, N.DS_INDENT):
        return [(n[2], n[3])]
    if N.DS_HOLDER is not None and n[1] == selft and n[2] == N.DS_HOLDER:
        v = n[3]
        cls = I.types.get(v) if isinstance(v, tuple) and v and v[0] == "tuple" else None
        if cls is not None and cls.is_namedtuple:
            names = cls.nt_fields()
            return [(f_, v[1][names.index(f_)]) for f_ in (N.DS_ACTIVE, N.DS_INDENT) if f_ in names and names.index(f_) < len(v[1])]
        if isinstance(v, tuple) and v and v[0] == "ref" and isinstance(I.obj(v), HInst):
            return []           # a new state object: what its constructor stores is seen where it stores it
        return [(N.DS_ACTIVE, ("opaque", "state object replaced")), (N.DS_INDENT, ("opaque", "state object replaced"))]
    return []


def _activation_writes(m: MethodNF, sink_node, attrs):
    """setattr effects on self within the innermost inlined call that contains the sink (the path's state update)."""
    def find(tree, inside):
        for n in tree:
            if n is sink_node:
                return inside
            if n[0] == "if":
                for sub in (n[2], n[3]):
                    r = find(sub, inside)
                    if r is not None:
                        return r
            elif n[0] == "loop":
                r = find(n[2], inside)
                if r is not None:
                    return r
            elif n[0] == "call":
                r = find(n[2], n[2])
                if r is not None:
                    return r
        return None
    scope = find(m.tree, m.tree) or m.tree
    # path-consistent: nodes on the same root-to-sink path or straight-line siblings
    def path_nodes(tree):
        out = []
        for n in tree:
            if n is sink_node:
                out.append(n)
                return out, True
            if n[0] == "if":
                for sub in (n[2], n[3]):
                    sub_out, hit = path_nodes(sub)
                    if hit:
                        return out + sub_out, True
            elif n[0] in ("loop", "call"):
                sub_out, hit = path_nodes(n[2])
                if hit:
                    return out + sub_out, True
                out += [x for x in sub_out]
            else:
                out.append(n)
        return out, False
    nodes, hit = path_nodes(scope)
    w = {}
    for n in nodes:
        for f_, v_ in ds_field_writes(m.I, n, m.selft):
            if f_ in attrs:
                w[f_] = v_
    return w




def rule_docstring_fsm(rep: Report, rid="C13.fsm", cls_q=MQ, openers=('"""', "```"), only_text=False) -> None:
    """Typestate of the doc string delimiter: closed -> try each opener, the matching one becomes active with the
    line's indent; open -> test only the active one, a match clears both fields."""
    M = mnf(cls_q)
    m = M.methods["DocStringSeparator"]
    I = m.I
    rep.used_function(m.fi.qualname)
    line, trimmed, raw = line_terms(m)
    active = ("attr", N.ds_base(m.selft), N.DS_ACTIVE)
    opened = []
    closed = []
    for sn, ctx in m.sinks:
        gs = nf.guards_in_ctx(ctx)
        tests = [(c, p) for c, p in gs if c[0] == "call" and c[1] == ".startswith"]
        # which states of the delimiter field reach this match: decided over the field's value set {None} + delimiters,
        # so any spelling of the test (truthiness, 'is None', == '', a match statement ...) reads the same
        state_guards = [(c, p) for c, p in gs if (c, p) not in tests]
        reach = nf.guard_states(state_guards, active, [None] + list(openers))
        pol = []
        if reach == [None]:
            pol = [False]
        elif reach is not None and set(reach) == set(openers):
            pol = [True]
        a = sn[1]
        w = _activation_writes(m, sn, (N.DS_ACTIVE, N.DS_INDENT))
        kw = _kw(m, sn[2])
        if not pol:
            rep.ob(rid, "every delimiter match is decided under a known open/closed state", False, **kw,
                   expected=f"branch on self.{N.DS_ACTIVE}", found=[(fmt(c, I), p) for c, p in gs])
            continue
        pos = [c for c, p in tests if p]
        sep = pos[-1][2][1] if pos and len(pos[-1][2]) == 2 and pos[-1][2][0] == trimmed else None
        if pol[0] is False:
            opened.append(sep)
            if only_text:
                t = a.get("text")
                ok = t is not None and t[0] == "call" and t[1] == ".strip" and t[2][0][0] == "slice" and t[2][0][1] == trimmed \
                    and sep is not None and lin_eq(t[2][0][2], ("call", "len", (sep,), ())) and t[2][0][3] == NONE
                rep.ob(rid, f"opening delimiter {fmt(sep, I) if sep else '?'}: media type = rest of the trimmed line after the delimiter, stripped", ok, **kw,
                       expected=".strip(trimmed[len(delimiter):])", found=fmt(t, I) if t else None)
                continue
            ok = sep is not None and is_const(sep) and w.get(N.DS_ACTIVE) == sep and w.get(N.DS_INDENT) == ("attr", line, N.INDENT)
            rep.ob(rid, f"closed state: a line starting with {fmt(sep, I) if sep else '?'} opens a doc string: that delimiter becomes active with the line's indent", ok, **kw,
                   expected=f"{N.DS_ACTIVE} := delimiter, {N.DS_INDENT} := line.indent", found={k: fmt(v, I) for k, v in w.items()})
            rep.ob(rid, "opening: token kind DocStringSeparator, keyword = the delimiter", a.get("matched_type") == const("DocStringSeparator") and a.get("keyword") == sep, **kw,
                   expected="DocStringSeparator, delimiter", found=(fmt(a.get("matched_type"), I), fmt(a.get("keyword"), I) if a.get("keyword") else None))
        else:
            closed.append(sep)
            if only_text:
                continue
            ok = sep == active and is_const(w.get(N.DS_ACTIVE), None) and is_const(w.get(N.DS_INDENT), 0)
            rep.ob(rid, "open state: only the active delimiter is tested, and a match clears the delimiter and the indent to remove", ok, **kw,
                   expected=f"startswith(active); {N.DS_ACTIVE} := None, {N.DS_INDENT} := 0",
                   found={"tested": fmt(sep, I) if sep else None, **{k: fmt(v, I) for k, v in w.items()}})
            rep.ob(rid, "closing: token kind DocStringSeparator, keyword = the active delimiter", a.get("matched_type") == const("DocStringSeparator") and a.get("keyword") == active, **kw,
                   expected="DocStringSeparator, active delimiter", found=(fmt(a.get("matched_type"), I), fmt(a.get("keyword"), I) if a.get("keyword") else None))
    if only_text:
        return
    got = [s[1] if s is not None and is_const(s) else fmt(s, I) for s in opened]
    rep.eq(rid, "the opening delimiters are exactly " + " and ".join(repr(o) for o in openers), sorted(openers), sorted(map(str, got)), **_kw(m))
    rep.ob(rid, "in the open state exactly one closing test exists (the other delimiter is content)", closed == [active], **_kw(m),
           expected=["active delimiter"], found=[fmt(s, I) if s else None for s in closed])
    # state writes happen only on matching paths: every write is dominated by a successful startswith test
    for n, ctx in nf.iter_nodes(m.tree):
        for f_, _v in ds_field_writes(I, n, m.selft):
            gs = nf.guards_in_ctx(ctx)
            ok = any(c[0] == "call" and c[1] == ".startswith" and p for c, p in gs)
            rep.ob(rid, f"{f_} changes only when a delimiter line was matched", ok, **_kw(m, n[4]),
                   expected="write under a successful delimiter test", found=[(fmt(c, I), p) for c, p in gs])


def rule_docstring_own(rep: Report, rid="C13.own") -> None:
    """The delimiter/indent fields are written only by the delimiter matcher and reset() - no other match_* touches them."""
    f = facts()
    base = f.cls(MQ)
    allowed = {N.DS_MATCH, "match_DocStringSeparator", "reset", "__init__"}
    # helpers the delimiter matcher delegates to (resolved calls of its normal form)
    for cq in (MQ, "gherkin.token_matcher_markdown.GherkinInMarkdownTokenMatcher"):
        try:
            mm = mnf(cq).methods["DocStringSeparator"]
            allowed |= {callee.rsplit(".", 1)[1] for caller, callee, line in mm.I.call_log}
        except (AnalysisError, KeyError):
            pass
    # ... and the helpers reset() / __init__ / the delimiter matcher call on self, transitively (a state-clearing helper)
    work = list(allowed)
    while work:
        nm = work.pop()
        for cq in (MQ, "gherkin.token_matcher_markdown.GherkinInMarkdownTokenMatcher"):
            fi0 = f.cls(cq).find_method(nm) if f.has_class(cq) else None
            for node in ast.walk(fi0.node) if fi0 is not None else []:
                if isinstance(node, ast.Call) and isinstance(node.func, ast.Attribute) and isinstance(node.func.value, ast.Name) \
                        and fi0.params() and node.func.value.id == fi0.params()[0] and node.func.attr not in allowed \
                        and not node.func.attr.startswith("match_") and f.cls(cq).find_method(node.func.attr) is not None:
                    allowed.add(node.func.attr)
                    work.append(node.func.attr)
    allowed -= {N.SINK, N.CHANGE_DIALECT}
    n = 0
    holder = N.DS_HOLDER
    hcls = f.cls(N.DS_HOLDER_CLASS) if holder is not None else None
    mutators: set = set()
    if hcls is not None:
        # the state lives in an object of its own class: that class's methods may write it (it is their state), and whoever
        # makes them do so - calls a writing method on the held object, rebinds the attribute, or lets the object escape - is
        # the writer the rule is about
        direct = {fi.name for fi in hcls.all_methods() for node in ast.walk(fi.node)
                  if isinstance(node, ast.Attribute) and node.attr in (N.DS_ACTIVE, N.DS_INDENT) and isinstance(node.ctx, (ast.Store, ast.Del))}
        mutators = set(direct)
        grew = True
        while grew:
            grew = False
            for fi in hcls.all_methods():
                if fi.name in mutators or not fi.params():
                    continue
                for node in ast.walk(fi.node):
                    if isinstance(node, ast.Call) and isinstance(node.func, ast.Attribute) and isinstance(node.func.value, ast.Name) \
                            and node.func.value.id == fi.params()[0] and node.func.attr in mutators:
                        mutators.add(fi.name)
                        grew = True
                        break
        def setter_ok(fi_):
            """a property setter kept for the old attribute names writes the state when someone assigns the property: judged at
            those assignments (none: the setter is never run by the library)"""
            if not any(isinstance(d, ast.Attribute) and d.attr == "setter" for d in fi_.node.decorator_list):
                return None
            sites_ok = True
            for g in f.all_functions():
                if g.module.name.startswith("scripts") or g is fi_:
                    continue
                for x in ast.walk(g.node):
                    if isinstance(x, ast.Attribute) and x.attr == fi_.name and isinstance(x.ctx, (ast.Store, ast.Del)):
                        gc = g.cls
                        if not (gc is not None and (base in gc.mro() or gc in base.mro()) and g.name in allowed):
                            sites_ok = False
            return sites_ok
        for m in f.modules.values():
            for c in m.classes.values():
                for fi in list(c.methods.values()) + list(c.setters.values()):
                    so = setter_ok(fi)
                    if so is True:
                        continue
                    parent = {ch: p_ for p_ in ast.walk(fi.node) for ch in ast.iter_child_nodes(p_)}
                    for node in ast.walk(fi.node):
                        if not (isinstance(node, ast.Attribute) and node.attr == holder):
                            continue
                        par = parent.get(node)
                        inside = (base in c.mro() or c in base.mro()) and fi.name in allowed
                        if isinstance(node.ctx, (ast.Store, ast.Del)):
                            n += 1
                            rep.ob(rid, f"the doc string state object ({holder}) is replaced only by the delimiter matcher and reset()", inside, file=fi.file,
                                   line=node.lineno, function=fi.qualname, expected=sorted(allowed), found=fi.name)
                        elif isinstance(par, ast.Attribute) and par.value is node:
                            if par.attr in mutators and isinstance(parent.get(par), ast.Call) and parent[par].func is par:
                                n += 1
                                rep.ob(rid, f"{par.attr}() of the doc string state is called only by the delimiter matcher and reset()", inside, file=fi.file,
                                       line=node.lineno, function=fi.qualname, expected=sorted(allowed), found=fi.name)
                            elif isinstance(par.ctx, (ast.Store, ast.Del)):
                                pass        # a direct write through the holder: counted below with the other writes of the fields
                        elif isinstance(par, (ast.If, ast.While, ast.IfExp, ast.BoolOp, ast.Compare)) or (isinstance(par, ast.UnaryOp) and isinstance(par.op, ast.Not)):
                            pass            # tested, not handed on
                        else:
                            rep.ob(rid, f"the doc string state object ({holder}) is not handed to anyone who could change it", inside, file=fi.file,
                                   line=node.lineno, function=fi.qualname, expected="used in place", found=ast.unparse(par) if par is not None else None)
    for m in f.modules.values():
        if m.name == "gherkin.inout":
            continue
        for c in m.classes.values():
            for fi in c.methods.values():
                if hcls is not None and (hcls in c.mro()):
                    continue        # the state class's own methods
                for node in ast.walk(fi.node):
                    if isinstance(node, ast.Attribute) and node.attr in (N.DS_ACTIVE, N.DS_INDENT) and isinstance(node.ctx, (ast.Store, ast.Del)):
                        if hcls is not None and not (isinstance(node.value, ast.Attribute) and node.value.attr == holder):
                            continue    # a same-named attribute of another class (the state object does not leave the matcher, see above)
                        n += 1
                        ok = (base in c.mro() or c in base.mro()) and fi.name in allowed
                        rep.ob(rid, f"{node.attr} is written only by the delimiter matcher and reset()", ok, file=fi.file, line=node.lineno,
                               function=fi.qualname, expected=sorted(allowed), found=fi.name)
        for fi in m.functions.values():
            for node in ast.walk(fi.node):
                if isinstance(node, ast.Attribute) and node.attr in (N.DS_ACTIVE, N.DS_INDENT) and isinstance(node.ctx, (ast.Store, ast.Del)):
                    if hcls is not None and not (isinstance(node.value, ast.Attribute) and node.value.attr == holder):
                        continue
                    rep.ob(rid, f"{node.attr} is written only by the delimiter matcher and reset()", False, file=fi.file, line=node.lineno,
                           function=fi.qualname, expected=sorted(allowed), found=fi.name)
    rep.floor("doc string state write sites", n, 2)


def rule_other_text(rep: Report, rid="C13.text", cls_q=MQ, openers=('"""', "```")) -> None:
    """match_Other: text = line minus the opening delimiter's indentation (all of its own when indented less), with the
    escaped form of the *active* delimiter turned back - and nothing else."""
    M = mnf(cls_q)
    m = M.methods["Other"]
    I = m.I
    rep.used_function(m.fi.qualname)
    line, trimmed, raw = line_terms(m)
    ind = ("attr", N.ds_base(m.selft), N.DS_INDENT)
    active = ("attr", N.ds_base(m.selft), N.DS_ACTIVE)
    C = ("bool", "or", (mk_cmp("Lt", ind, const(0)), mk_cmp("Gt", ind, ("attr", line, N.INDENT))))
    rep.eq(rid, "match_Other reports every line, unconditionally, exactly once", 1, len(m.sinks), **_kw(m))
    for sn, ctx in m.sinks:
        a = sn[1]
        kw = _kw(m, sn[2])
        rep.ob(rid, "match_Other matches unconditionally", not nf.guards_in_ctx(ctx), **kw, expected="no guard", found=[(fmt(c, I), p) for c, p in nf.guards_in_ctx(ctx)])
        t = a.get("text")
        lt, gt = mk_cmp("Lt", ind, const(0)), mk_cmp("Gt", ind, ("attr", line, N.INDENT))
        # one case per state of the doc string: the active delimiter is None or one of the openers.  In each case the text,
        # with that value put in place of the attribute and everything that thereby becomes constant evaluated (comparisons,
        # table look-ups), may depend on nothing but the indentation relation
        cases = {}
        stray = []
        for which in [None] + list(openers):
            tw = nf.simplify(I, t, {active: const(which)}) if t else None
            cases[which] = tw
            for at in (cond_atoms(tw) if tw else []):
                if at not in (lt, gt) and at not in stray:
                    stray.append(at)
        seen_rel = {at for tw in cases.values() if tw for at in cond_atoms(tw)}
        rep.ob(rid, "the text depends only on the active delimiter and on 'indent to remove' vs the line's indent", t is not None and not stray and {lt, gt} <= seen_rel, **kw,
               expected=[fmt(x, I) for x in (lt, gt)] + ["active delimiter"], found=[fmt(x, I) for x in stray] or [fmt(x, I) for x in sorted(seen_rel, key=str)])
        if t is None or stray:
            continue
        bad = []
        for which in [None] + list(openers):
            for ltv in (True, False):
                for gtv in (True, False):
                    got = resolve_conds(cases[which], {lt: ltv, gt: gtv})
                    base = trimmed if (ltv or gtv) else ("slice", raw, ind, NONE, NONE)
                    want = base
                    if which is not None:
                        esc = "".join("\\" + ch for ch in which)
                        want = ("call", ".replace", (base, const(esc), const(which)), ())
                    if got != want:
                        bad.append({"active": which, "indent_to_remove<0": ltv, "indent_to_remove>line indent": gtv, "expected": fmt(want, I), "found": fmt(got, I)})
        rep.ob(rid, "content line = line[indent_to_remove:] (fully left-trimmed when indented less), escaped active delimiter restored, other delimiter untouched",
               not bad, **kw, expected="per-case table (active delimiter x indentation relation)", found=bad[:3] or "all cases as expected")
        rep.ob(rid, "content lines are reported at column 1 (indent 0), kind Other", a.get("indent") == const(0) and a.get("matched_type") == const("Other"), **kw,
               expected="indent=0", found=(fmt(a.get("indent"), I) if a.get("indent") else None))
    # outside a doc string nothing is removed: free-text (description) lines keep their indentation.  The 'indent to remove'
    # is 0 after reset() and after every closing delimiter; only an opening delimiter sets it (to its own indent)
    writes = []
    ds = M.methods["DocStringSeparator"]
    dline = ("attr", ds.tok, "line")
    for n, ctx in nf.iter_nodes(ds.tree):
        for f_, v_ in ds_field_writes(ds.I, n, ds.selft):
            if f_ == N.DS_INDENT:
                writes.append(("match_DocStringSeparator", v_, n[-1] if isinstance(n[-1], int) else None))
    Ir = new_interp()
    rfi = M.cls.find_method("reset")
    Ir.types[("param", rfi.params()[0])] = M.cls
    Ir.intrinsics[f"{MQ}.{N.CHANGE_DIALECT}"] = lambda I_, st_, fi_, args, kwargs, n, tree_: NONE
    rtree, _, rst = Ir.run(rfi.qualname)
    rself = ("param", rfi.params()[0])
    rsets = []
    for n, ctx in nf.iter_nodes(rtree):
        if nf.guards_in_ctx(ctx):
            continue
        if n[0] == "setattr" and n[2] == N.DS_INDENT and N.DS_HOLDER is None:
            rsets.append((n, n[3]))
        else:
            for f_, v_ in ds_field_writes(Ir, n, rself):
                if f_ == N.DS_INDENT:
                    rsets.append((n, v_))
        if n[0] == "setattr" and n[2] == N.DS_INDENT and N.DS_HOLDER is not None and n[1] != rself and (n, n[3]) not in rsets:
            rsets.append((n, n[3]))         # a field of the state object reset() creates
    for n, v_ in rsets:
        writes.append(("reset", v_, None))
    bad = [(w, fmt(v, ds.I)) for w, v, _ in writes if not (is_const(v, 0) or v == ("attr", dline, N.INDENT))]
    rep.ob(rid, "outside a doc string no indentation is removed from free-text lines: the indent to remove is 0 after reset() and after a closing "
                "delimiter, and an opening delimiter's own indent inside", bool(rsets) and any(is_const(v, 0) for w, v, _ in writes if w == "reset") and not bad
           and any(w != "reset" and is_const(v, 0) for w, v, _ in writes), **_kw(m),
           expected="self._indent_to_remove = 0 in reset() and on close; = token.line.indent on open", found=bad or [(w, fmt(v, ds.I)) for w, v, _ in writes])


def norm_line_text(t, line):
    """A text term with the facts about a scanned line applied: its indent (a count of leading characters) is never negative,
    and the tail of a string from position 0 is the string."""
    from ..absint import mk_cond
    if not isinstance(t, tuple) or not t:
        return t
    t = tuple(norm_line_text(x, line) if isinstance(x, tuple) else x for x in t)
    ind = ("attr", line, N.INDENT)
    if t[0] == "cond":
        c = t[1]
        if c[0] == "cmp" and c[1] == "Lt" and c[2] == ind and is_const(c[3]) and isinstance(c[3][1], int) and c[3][1] <= 0:
            return t[3]
        if c[0] == "not" and c[1][0] == "cmp" and c[1][1] == "Lt" and c[1][2] == ind and is_const(c[1][3]) and isinstance(c[1][3][1], int) and c[1][3][1] <= 0:
            return t[2]
    if t[0] == "slice" and is_const(t[2], 0) and t[3] == NONE and (len(t) < 5 or t[4] == NONE) and t[1][0] == "attr" and t[1][1] == line:
        return t[1]
    return t


def rule_token_table(rep: Report, rid="C16.trim", rid_col="C04.col") -> None:
    """Non-keyword kinds: what is tested and what is stored (Appendix B of DESIGN.md)."""
    M = mnf()
    any_m = M.methods["TableRow"]
    for kind in ("TableRow", "TagLine", "Comment", "Empty", "EOF", "Language"):
        m = M.methods[kind]
        I = m.I
        rep.used_function(m.fi.qualname)
        line, trimmed, raw = line_terms(m)
        rep.eq(rid, f"match_{kind} has exactly one way to match", 1, len(m.sinks), **_kw(m))
        for sn, ctx in m.sinks:
            a = sn[1]
            gs = nf.guards_in_ctx(ctx)
            kw = _kw(m, sn[2])
            exp_guard = {
                "TableRow": [(("call", ".startswith", (trimmed, const("|")), ()), True)],
                "TagLine": [(("call", ".startswith", (trimmed, const("@")), ()), True)],
                "Comment": [(("call", ".startswith", (trimmed, const("#")), ()), True)],
                "Empty": [(trimmed, False)],
                "EOF": [(line, False)],
            }.get(kind)
            if exp_guard is not None:
                okg = gs == exp_guard
                if kind == "Empty" and len(gs) == 1:
                    from .line_rules import empty_forms
                    okg = okg or any(nf.norm_guard(f_, True) == gs[0] for f_ in empty_forms(trimmed))
                rep.ob(rid, f"match_{kind} tests the left-trimmed line" if kind != "EOF" else "match_EOF tests for the missing line", okg,
                       expected=[(fmt(c, I), p) for c, p in exp_guard], found=[(fmt(c, I), p) for c, p in gs], **kw)
            rep.eq(rid, f"match_{kind} reports kind {kind}", const(kind), a.get("matched_type"), **kw)
            exp_indent = const(0) if kind in ("Comment", "Empty") else None
            rep.ob(rid_col, f"match_{kind}: column is " + ("1 (indent 0)" if exp_indent else "the line's indent + 1 (default indent)"),
                   a.get("indent") == exp_indent or (exp_indent is None and a.get("indent") == ("attr", line, N.INDENT)), **kw,
                   expected=fmt(exp_indent, I) if exp_indent else "default", found=fmt(a.get("indent"), I) if a.get("indent") else "default")
            if kind == "Comment":
                rep.eq(rid, "a comment keeps the whole raw line as its text", fmt(raw, I), fmt(norm_line_text(a.get("text"), line), I) if a.get("text") else None, **kw)
            if kind == "TableRow":
                rep.eq(rid, "table row items are the line's cells", ("prop", "table_cells", line), a.get("items"), **kw)
            if kind == "TagLine":
                rep.eq(rid, "tag line items are the line's tags", ("prop", "tags", line), a.get("items"), **kw)
    # keyword kinds use the default indent
    for kind in list(TITLE_ROLES) + ["StepLine", "DocStringSeparator"]:
        m = M.methods[kind]
        line, trimmed, raw = line_terms(m)
        for sn, ctx in m.sinks:
            a = sn[1]
            rep.ob(rid_col, f"match_{kind}: column is the line's indent + 1 (default indent)", a.get("indent") in (None, ("attr", line, N.INDENT)),
                   **_kw(m, sn[2]), expected="default", found=fmt(a.get("indent"), m.I) if a.get("indent") else "default")
        # no test on the raw (untrimmed) line
        for n, ctx in nf.iter_nodes(m.tree):
            if n[0] == "if" and nf.contains(n[1], lambda t: t == raw):
                rep.ob(rid, f"match_{kind} never tests the untrimmed line", False, **_kw(m, n[4]), expected="tests on the left-trimmed text", found=fmt(n[1], m.I))
    rep.ob(rid, "keyword, step and delimiter matching read the left-trimmed line only", True, **_kw(any_m), expected="no raw-line test", found="none")


def rule_reset(rep: Report, rid="C15.reset", classes=(MQ, "gherkin.token_matcher_markdown.GherkinInMarkdownTokenMatcher")) -> None:
    """Every matcher attribute written while matching is re-established by reset()."""
    f = facts()
    for cq in classes:
        cls = f.cls(cq)
        # attributes written by methods other than __init__/reset (directly)
        written: dict[str, set] = {}
        for c in cls.mro():
            for fi in c.methods.values():
                if fi.name in ("__init__", "reset"):
                    continue
                if cls.find_method(fi.name) is not fi:
                    continue  # overridden
                for n in ast.walk(fi.node):
                    if isinstance(n, ast.Attribute) and isinstance(n.ctx, (ast.Store, ast.Del)) and isinstance(n.value, ast.Name) and n.value.id == "self":
                        written.setdefault(n.attr, set()).add(fi.qualname)
                    # in-place mutation of an attribute: self.x.append(...), self.x[k] = v, self.x += ...
                    if isinstance(n, ast.Call) and isinstance(n.func, ast.Attribute) and n.func.attr in Interp.MUTATORS \
                            and isinstance(n.func.value, ast.Attribute) and isinstance(n.func.value.value, ast.Name) and n.func.value.value.id == "self":
                        written.setdefault(n.func.value.attr, set()).add(fi.qualname)
                    if isinstance(n, ast.Subscript) and isinstance(n.ctx, (ast.Store, ast.Del)) and isinstance(n.value, ast.Attribute) \
                            and isinstance(n.value.value, ast.Name) and n.value.value.id == "self":
                        written.setdefault(n.value.attr, set()).add(fi.qualname)
        # ``self.__dict__.pop('<cached property>', None)`` / ``del self.__dict__['...']`` drops a memoised value: whether that is
        # done wherever it must be is the memo rule's question, and the instance dictionary is not an attribute of its own
        written.pop("__dict__", None)
        for a in list(written):
            pm = cls.find_method(a)
            if pm is not None and (pm.is_property or "cached_property" in pm.decorators):
                del written[a]      # a property (e.g. current_node): the object mutated lives in another attribute
        # state kept in an object of a repository class the matcher holds: a method of that object that writes the object's own
        # attributes, called while matching, writes per-document state all the same
        I0 = new_interp()

        def own_writes(hc, meth, seen=()):
            fi_ = hc.find_method(meth)
            if fi_ is None or not fi_.params() or meth in seen:
                return set()
            me = fi_.params()[0]
            out = set()
            for n_ in ast.walk(fi_.node):
                if isinstance(n_, ast.Attribute) and isinstance(n_.ctx, (ast.Store, ast.Del)) and isinstance(n_.value, ast.Name) and n_.value.id == me:
                    out.add(n_.attr)
                if isinstance(n_, ast.Call) and isinstance(n_.func, ast.Attribute) and isinstance(n_.func.value, ast.Name) and n_.func.value.id == me:
                    out |= own_writes(hc, n_.func.attr, seen + (meth,))
            return out
        held: dict[str, set] = {}
        held_cls: dict = {}

        def owned(attr):
            """the attribute is only ever bound to an object the class makes itself (``self.x = H(...)``): the object is part of
            this component's state - unlike one handed in from outside (the id generator, shared on purpose)"""
            seen_ = False
            for c_ in cls.mro():
                for fi_ in c_.methods.values():
                    for n_ in ast.walk(fi_.node):
                        tgt = val = None
                        if isinstance(n_, ast.Assign) and len(n_.targets) == 1:
                            tgt, val = n_.targets[0], n_.value
                        elif isinstance(n_, ast.AnnAssign) and n_.value is not None:
                            tgt, val = n_.target, n_.value
                        if isinstance(tgt, ast.Attribute) and tgt.attr == attr and isinstance(tgt.value, ast.Name) and fi_.params() and tgt.value.id == fi_.params()[0]:
                            if not (isinstance(val, ast.Call) and isinstance(val.func, ast.Name) and f.resolve_class(fi_.module, val.func.id) is not None):
                                return False
                            seen_ = True
            return seen_
        for c in cls.mro():
            for fi in c.methods.values():
                if fi.name in ("__init__", "reset") or cls.find_method(fi.name) is not fi:
                    continue
                for n in ast.walk(fi.node):
                    if isinstance(n, ast.Call) and isinstance(n.func, ast.Attribute) and isinstance(n.func.value, ast.Attribute) \
                            and isinstance(n.func.value.value, ast.Name) and n.func.value.value.id == "self":
                        hc = I0.attr_class(cls, n.func.value.attr)
                        if hc is not None and owned(n.func.value.attr):
                            ws = own_writes(hc, n.func.attr)
                            if ws:
                                held.setdefault(n.func.value.attr, set()).update(ws)
                                held_cls[n.func.value.attr] = hc
                                written.setdefault(n.func.value.attr, set()).add(fi.qualname)
        # what reset() establishes
        I = new_interp()
        rfi = cls.find_method("reset")
        if rfi is None:
            raise AnalysisError(f"anchor vanished: {cq}.reset")
        cd = f"{MQ}.{N.CHANGE_DIALECT}"

        def cd_intrinsic(I_, st_, fi_, args, kwargs, n, tree_):
            tree_.append(("change_dialect", tuple(args), getattr(n, "lineno", None)))
            return NONE
        I.intrinsics[cd] = cd_intrinsic
        selfn = rfi.params()[0]
        I.types[("param", selfn)] = cls
        tree, rv, st = I.run(rfi.qualname)
        rep.used_function(rfi.qualname)
        selft = ("param", selfn)
        established = {}
        for n, ctx in nf.iter_nodes(tree):
            if n[0] == "setattr" and n[1] == selft:
                gs = nf.guards_in_ctx(ctx)
                established.setdefault(n[2], []).append((n[3], gs))
        group = {N.DIALECT_NAME, N.DIALECT, N.KEYWORD_TYPES}
        has_cd = any(n[0] == "change_dialect" for n, _ in nf.iter_nodes(tree))
        # an attribute that only the dialect switch writes, on the path that installs the dialect, from the new dialect alone
        # (a keyword list put together once per dialect) is part of the dialect state: consistent with it whenever it is
        derived = set()
        for a in sorted(set(written) - group):
            if not all(w.rsplit(".", 1)[1] == N.CHANGE_DIALECT for w in written[a]):
                continue
            okd = True
            for w in sorted(written[a]):
                I2 = new_interp()
                wfi = I2.facts.func(w)
                try:
                    t2, _rv2, st2 = I2.run(w)
                except AnalysisError:
                    okd = False
                    break
                s2 = ("param", wfi.params()[0])
                sets_a = [(n, nf.guards_in_ctx(c)) for n, c in nf.iter_nodes(t2) if n[0] == "setattr" and n[1] == s2 and n[2] == a]
                sets_d = [(n, nf.guards_in_ctx(c)) for n, c in nf.iter_nodes(t2) if n[0] == "setattr" and n[1] == s2 and n[2] == N.DIALECT]
                if len(sets_a) != 1 or not sets_d or (sets_a[0][1] and sets_a[0][1] != sets_d[-1][1]):
                    okd = False
                    break
                v_ = sets_a[0][0][3]
                o_ = I2.obj(v_)
                from ..absint import HGen
                if getattr(o_, "one_shot", None) or isinstance(o_, HGen) or (v_[0] == "call" and (v_[1] in ("map", "zip", "filter", "iter", "reversed", "enumerate")
                                                                                               or v_[1].startswith("itertools."))):
                    rep.ob(rid, f"{cls.short}: attribute {a} keeps a sequence, not an iterator (an iterator is used up by the first line that walks it)", False,
                           file=wfi.file, line=wfi.node.lineno, function=wfi.qualname, expected="list / tuple", found=fmt(v_, I2)[:120])
                    okd = False
                    break
                reads = [x for x in nf.subterms(sets_a[0][0][3]) if x[0] == "attr" and x[1] == s2 and x[2] not in group] + \
                    [x for x in nf.subterms(sets_a[0][0][3]) if x[0] in ("phi", "loopout") and isinstance(x[2], tuple)]
                if reads:
                    okd = False
                    break
            if okd:
                derived.add(a)
        for a in sorted(written):
            if a in group or a in derived:
                rep.ob(rid, f"{cls.short}: {a} is restored by reset() through the dialect switch (see the triple rule)", has_cd,
                       file=rfi.file, line=rfi.node.lineno, function=rfi.qualname, expected="_change_dialect(default)", found="no dialect restore in reset()")
                continue
            est = established.get(a, [])
            ok = any(not gs and (is_const(v) or (v[0] == "ref" and isinstance(I.obj(v), (HList, HDict)) and v[0] == "ref")
                                 or (v[0] == "tuple" and all(is_const(x) for x in v[1]))) for v, gs in est)
            if a in held:
                # a new object whose written fields are all constants, or every written field of the held one set to a constant
                fresh = any(not gs and v[0] == "ref" and isinstance(I.obj(v), HInst) and all(is_const(st.ext.get((v, x), ("undef",))) for x in held[a])
                            for v, gs in est)
                base_t = ("attr", selft, a)
                cleared = {n[2] for n, ctx in nf.iter_nodes(tree) if n[0] == "setattr" and n[1] == base_t and is_const(n[3]) and not nf.guards_in_ctx(ctx)}
                ok = fresh or held[a] <= cleared
            rep.ob(rid, f"{cls.short}: attribute {a} (written by {', '.join(sorted(x.rsplit('.', 1)[1] for x in written[a]))}) is reset unconditionally to a constant / fresh value",
                   ok, file=rfi.file, line=rfi.node.lineno, function=rfi.qualname, expected=f"self.{a} = <constant or fresh object> in reset()",
                   found=[(fmt(v, I), [(fmt(c, I), p) for c, p in gs]) for v, gs in est] or "not assigned by reset()")
        rep.counts[f"{cls.short} per-document attributes"] = len(written)
