"""C04 - every reported location is the exact 1-based line / code-point column."""
from . import line_rules as lr, matcher_rules as mr, builder_rules as br, error_rules as er, dialect_rules as dr
from . import misc_rules as ms

META = {
    "level": "other",
    "explanation": "Column and line arithmetic is followed as linear terms through scanner, line helpers, the single matched-token "
                   "sink and the builder: the line counter is incremented once before each readline and the token carries the "
                   "incremented value; indent = len(line) - len(line.lstrip()); column = matched indent + 1 with indent 0 only for "
                   "Comment/Empty/Other; the table-cell splitter is interpreted once per (state, character class) and its column "
                   "counter must advance by exactly the characters consumed, cell start = column after the pipe + 1, cell column = "
                   "splitter column + indent + leading blanks removed; tag columns advance by untrimmed piece length + 1; the builder "
                   "puts item columns on tags/cells and token locations elsewhere; error locations fall back to indent + 1.",
    "assumptions": ["len()/str.lstrip()/str.split() count and split by code points (CPython str)", "io.StringIO/readline end lines at line feeds"],
}


def run(rep):
    lr.rule_scanner(rep, "C04.line", "C04.line")
    lr.rule_line_basics(rep, "C04.indent")
    mr.rule_sink(rep, "C04.col", "C04.crlf", want=("col", "fields"))
    mr.rule_token_table(rep, "C04.kinds", "C04.col")
    lr.rule_split(rep, "C04.split", "C04.cells")
    lr.rule_split_init(rep, "C04.cells")
    lr.rule_tags(rep, "C04.tags")
    br.rule_locations(rep, "C04.items")
    er.rule_error_locations(rep, "C04.err")
    dr.rule_header(rep, "C04.langerr", snapshot=True)
    br.rule_rect(rep, "C04.raggederr")
    # no hidden state: what the property promises for one use must hold for every later use as well
    ms.rule_stateless(rep, "C04")
