"""Rules on the AST builder's normal form (C03, C04.items, C08.ast, C11 builder side, C12.rect, C13.ast, C17 shapes)."""
from __future__ import annotations

from ..absint import new_interp, Interp, HList, HDict, HInst, NONE, const, is_const, fmt, fmt_seg, mk_not, mk_cmp, mk_cond
from ..berp import grammar
from ..names import N
from ..common import AnalysisError, Report
from ..facts import facts
from .. import nf

BFILE = "python/gherkin/ast_builder.py"
BQ = "gherkin.ast_builder.AstBuilder"
IGNORABLE = {"Empty", "Language", "Comment", "EOF"}
ENVELOPE_KEY = {"Background": "background", "ScenarioDefinition": "scenario", "Rule": "rule"}
# repeated children of which only the first is an element of its own (the rest are structure)
FIRST_ONLY = {("DocString", "DocStringSeparator"): "opening delimiter = first separator token; the closing one carries no data"}


def canon(t, memo=None):
    """Rewrite AstNode accessor expansions into ('items', n, k) / ('single', n, k, default) / ('first', n, k)."""
    if memo is None:
        memo = {}
    if not isinstance(t, tuple) or not t:
        return t
    if t in memo:
        return memo[t]
    new = tuple(canon(x, memo) if isinstance(x, tuple) else x for x in t)
    if new[0] == "cmp" and len(new) == 4 and isinstance(new[2], tuple) and new[2][:2] == ("call", "len") and len(new[2][2]) == 1 \
            and isinstance(new[2][2][0], tuple) and new[2][2][0][0] == "items" and is_const(new[3]) and isinstance(new[3][1], int):
        # the number of children of a kind compared with 0 / 1: whether there are any
        some = {("Gt", 0): True, ("GtE", 1): True, ("NotEq", 0): True, ("Lt", 1): False, ("LtE", 0): False, ("Eq", 0): False}.get((new[1], new[3][1]))
        if some is not None:
            new = new[2][2][0] if some else ("not", new[2][2][0])
    if new[0] == "cond" and isinstance(new[1], tuple) and new[1][0] == "not" and isinstance(new[1][1], tuple) and new[1][1][0] == "items":
        new = ("cond", new[1][1], new[3], new[2])
    r = new
    if new[0] == "item" and isinstance(new[1], tuple) and new[1][0] == "attr" and new[1][2] == N.SUB_ITEMS:
        r = ("items", new[1][1], new[2][1] if is_const(new[2]) else new[2])
    elif new[0] == "cond" and isinstance(new[1], tuple) and new[1][0] == "items" \
            and new[2] == ("item", new[1], const(0)):
        r = ("single", new[1][1], new[1][2], new[3])
    elif new[0] == "cond" and isinstance(new[1], tuple) and new[1][0] == "items" and new[2] == ("first", new[1][1], new[1][2]):
        r = ("single", new[1][1], new[1][2], new[3])
    elif new[0] == "item" and isinstance(new[1], tuple) and new[1][0] == "items" and is_const(new[2], 0):
        r = ("first", new[1][1], new[1][2])
    elif new[0] == "cmp" and new[1] == "Is" and new[3] == NONE and isinstance(new[2], tuple) and _never_falsy_kind(new[2][2] if len(new[2]) > 2 else None) \
            and (new[2][0] == "first" or (new[2][0] == "single" and new[2][3] == NONE)):
        # ``child is None`` for a child that is a node or a token (objects that are never false): the child is absent
        r = ("not", ("first", new[2][1], new[2][2]))
    elif new[0] == "cond" and isinstance(new[1], tuple) and new[1][0] == "items" and new[3] == const(True) \
            and new[2] == ("not", ("first", new[1][1], new[1][2])):
        # absent when there are no such children, else when the first one is false
        r = new[2]
    memo[t] = r
    return r


_NF_KINDS: dict = {}


def _never_falsy_kind(k) -> bool:
    """Children filed under kind k are AstNode objects (rules the builder passes through) or Token objects, and neither class
    defines __bool__ or __len__: such a child is never false, so 'is None' and 'not' test the same thing (absence)."""
    if not isinstance(k, str):
        return False
    if k not in _NF_KINDS:
        g = grammar()
        f = facts()
        plain = all(c.find_method(m) is None for c in (f.cls("gherkin.ast_node.AstNode"), f.cls("gherkin.token.Token")) for m in ("__bool__", "__len__"))
        b = bnf()
        passed_through = k in g.rules and g.rules[k].ast and k not in b.branches and b.default_returns_node
        _NF_KINDS[k] = plain and (passed_through or k not in g.rules)
        if not _NF_KINDS[k] and k in b.branches:
            # a child the builder makes itself: never false when every value its branch returns is None or a dict that always
            # has an entry (a key whose value is never None - a drawn id, a constant, a new object - and is not filtered out)
            _NF_KINDS[k] = False        # (re-entrancy: the branch's own terms may mention the kind)
            def never_empty_dict(v):
                v = nf.strip_dropnone(v)
                if not (isinstance(v, tuple) and v and v[0] == "ref" and isinstance(b.I.obj(v), HDict)):
                    return False
                d = nf.resolve_ref_dict(b.I, v, b.tree)
                sure = lambda val: val[0] in ("drawn", "ref", "fstr") or (is_const(val) and val[1] is not None)
                return bool(d) and any(not isinstance(key, tuple) and not g_ and sure(nf.strip_dropnone(val)) for key, (val, g_) in d.items())
            rets = [v for v, _, _ in b.branches[k].returns]
            _NF_KINDS[k] = bool(rets) and all(is_const(v, None) or never_empty_dict(v) for v in rets)
    return _NF_KINDS[k]


def single(n, k, d=NONE):
    """node.get_single(k[, d]).  In this module's comparisons 'the child or None' and 'the first child' are one form
    (``norm``): after a presence test the interpreter knows the child is there and says ``first``."""
    return ("first", n, k) if d == NONE else ("single", n, k, d)


def norm(t, memo=None):
    """('single', n, k, None) -> ('first', n, k), everywhere in t."""
    if memo is None:
        memo = {}
    if not isinstance(t, tuple) or not t:
        return t
    if t in memo:
        return memo[t]
    new = tuple(norm(x, memo) if isinstance(x, tuple) else x for x in t)
    if new[0] == "single" and len(new) == 4 and new[3] == NONE:
        new = ("first", new[1], new[2])
    memo[t] = new
    return new


def items(n, k):
    return ("items", n, k)


class Branch:
    def __init__(self, rule, tree, line):
        self.rule = rule
        self.tree = tree
        self.line = line
        self.returns = []       # (value term, line, guards)


class BuilderNF:
    """transform_node analysed once per grammar rule: the node's rule_type is fixed to each AST rule name in turn, so the
    dispatch (if-chain, dict of handlers, per-rule methods ...) folds away and what remains is that rule's transformation."""

    def __init__(self) -> None:
        self.I = I = new_interp()
        self.fi = I.facts.func(f"{BQ}.{N.TRANSFORM}")
        p = self.fi.params()
        self.selft = ("param", p[0])
        self.node = ("param", p[1])
        self.memo: dict = {}
        self.nmemo: dict = {}
        self.branches: dict[str, Branch] = {}
        self.tree: list = []
        g = grammar()
        rt = (self.node, "rule_type")
        # the default: an unknown rule type is passed through
        t0, rv0, _ = I.run(f"{BQ}.{N.TRANSFORM}", ext={rt: const("<any other rule>")})
        self.default_returns_node = rv0 == self.node
        self.rv = rv0
        for r in [x for x in g.order if g.rules[x].ast]:
            tree, rv, _ = I.run(f"{BQ}.{N.TRANSFORM}", ext={rt: const(r)})
            if rv == self.node and not [n for n in tree if n[0] not in ("alloc", "return", "if")]:
                continue            # passed through: no transformation for this rule
            line = None
            for n, ctx in nf.iter_nodes(tree):
                for x in reversed(n):
                    if isinstance(x, int) and not isinstance(x, bool):
                        line = x
                        break
                if line:
                    break
            b = Branch(r, tree, line or self.fi.node.lineno)
            def alts(t, gs):
                if t[0] == "cond":
                    return alts(t[2], gs + [nf.norm_guard(t[1], True)]) + alts(t[3], gs + [nf.norm_guard(t[1], False)])
                return [(t, gs)]
            for n, ctx in nf.iter_nodes(tree):
                if n[0] == "return" and not any(x[0] == "call" for x in ctx):
                    for v, gs in alts(n[1], nf.guards_in_ctx(ctx)):
                        b.returns.append((v, n[2], gs))
            if not b.returns and rv != NONE:
                for v, gs in alts(rv, []):
                    b.returns.append((v, b.line, gs))
            self.branches[r] = b
            self.tree.extend(tree)

    def c(self, t):
        return norm(canon(t, self.memo), self.nmemo)

    # -- deep term collection ---------------------------------------------------------------
    ORDER_FREE = ("len", "sum", "any", "all", "min", "max", "bool")

    def deep_terms(self, t, seen=None, values_only=False, skip_counts=False):
        """All terms reachable from t through heap objects (final contents).  ``values_only``: follow only what can become
        part of the value - not the tests that choose between alternatives, nor computed dict keys."""
        if seen is None:
            seen = set()
        out = []
        stack = [t]
        I = self.I
        while stack:
            x = stack.pop()
            if not isinstance(x, tuple) or not x:
                continue
            if values_only and x[0] == "cond" and self.c(x)[0] != "single":
                # a choice between alternatives: the test selects, only the alternatives can become the value
                stack.append(x[2])
                stack.append(x[3])
                continue
            out.append(x)
            if skip_counts and x[0] == "call" and x[1] in self.ORDER_FREE:
                continue        # a count / total / extremum of a sequence does not depend on the order it is walked in
            if x[0] == "ref":
                if x in seen:
                    continue
                seen.add(x)
                o = I.obj(x)
                if isinstance(o, HList):
                    def segs_terms(segs):
                        for s in segs:
                            if s[0] in ("e", "s"):
                                stack.append(s[1])
                            elif s[0] == "loop":
                                it = I.loops.get(s[1], {}).get("iter")
                                if it is not None:
                                    stack.append(it)
                                segs_terms(s[2])
                            elif s[0] == "if":
                                if not values_only:
                                    stack.append(s[1])
                                segs_terms(s[2])
                                segs_terms(s[3])
                            elif s[0] == "op":
                                for a in s[2]:
                                    stack.append(a)
                    segs_terms(nf.list_content(I, x, self.tree))
                elif isinstance(o, HDict):
                    for k, v, g in nf.dict_content(I, x, self.tree):
                        stack.append(v)
                        if isinstance(k, tuple) and not values_only:
                            stack.append(k)
            elif x[0] == "cond" and values_only:
                stack.append(x[2])
                stack.append(x[3])
            else:
                for y in x:
                    if isinstance(y, tuple):
                        stack.append(y)
        return out

    def branch_terms(self, b: Branch):
        """Terms evaluated in a branch: conditions, loop iterables, mutation arguments, returned values (deep)."""
        I = self.I
        roots = []
        for n, ctx in nf.iter_nodes(b.tree):
            k = n[0]
            if k == "if":
                roots.append(n[1])
            elif k == "loop":
                info = I.loops.get(n[1], {})
                if "iter" in info:
                    roots.append(info["iter"])
                if "test" in info:
                    roots.append(info["test"])
            elif k == "mutate":
                roots.extend(n[3])
                roots.append(n[1])
            elif k in ("return", "raise", "yield"):
                roots.append(n[1])
            elif k in ("setitem",):
                roots.extend([n[2], n[3]])
        out = []
        seen = set()
        for r in roots:
            out.extend(self.deep_terms(r, seen))
        return out

    def reads(self, b: Branch, terms=None, values_only=False):
        """{(owner term, kind): set of read modes} with owner canonical.  ``values_only``: reads in the tests of
        conditional terms do not count (they select, they are not part of the value)."""
        out: dict = {}

        def value_subterms(t):
            if not isinstance(t, tuple) or not t:
                return
            yield t
            if t[0] == "cond":
                yield from value_subterms(t[2])
                yield from value_subterms(t[3])
                return
            for x in t:
                if isinstance(x, tuple):
                    yield from value_subterms(x)

        for t in (terms if terms is not None else self.branch_terms(b)):
            ct = self.c(t)
            for s in (value_subterms(ct) if values_only else nf.subterms(ct)):
                if s[0] in ("items", "single", "first"):
                    out.setdefault((s[1], s[2]), set()).add(s[0])
        return out


_BNF = None


def bnf() -> BuilderNF:
    global _BNF
    if _BNF is None:
        _BNF = BuilderNF()
    return _BNF


def _kw(b: BuilderNF, line=None):
    return dict(file=BFILE, line=line, function=b.fi.qualname)


def _owner_rule(b: BuilderNF, owner, prule):
    """Grammar rule whose AstNode the canonical term ``owner`` denotes inside branch ``prule``."""
    if owner == b.node:
        return prule
    if (owner[0] == "single" and owner[3] == NONE) or owner[0] == "first":
        parent = _owner_rule(b, owner[1], prule)
        if parent is not None:
            return owner[2]
    return None


def rule_rw(rep: Report, rid="C03.rw", rid_flow="C03.flow") -> None:
    """Reader/writer agreement: what the parser collects into each AST rule's node (from the grammar) is what the
    builder branch consuming that node reads, with the right multiplicity, and it reaches the returned value."""
    b = bnf()
    g = grammar()
    rep.used_file(BFILE)
    rep.used_file("gherkin.berp")
    rep.used_function(b.fi.qualname)
    ast_rules = [r for r in g.order if g.rules[r].ast]
    passthrough = [r for r in ast_rules if r not in b.branches]
    rep.floor("transform_node branches", len(b.branches), 11)
    rep.ob(rid, "rules without a transformation are passed through as nodes", b.default_returns_node, **_kw(b, b.fi.node.lineno),
           expected="else: return node", found="default branch returns the node" if b.default_returns_node else "default branch does not return the node")
    for r in b.branches:
        rep.ob(rid, f"transform branch '{r}' names a grammar rule that builds an AST node", r in ast_rules, **_kw(b, b.branches[r].line),
               expected="rule with '!' in gherkin.berp", found=r)
    # which branch consumes a pass-through rule: the parent rule in the grammar
    parent_of: dict[str, list[str]] = {}
    for r in ast_rules:
        for k in g.children(r):
            if k in passthrough:
                parent_of.setdefault(k, []).append(r)
    for p in ast_rules:
        if p not in b.branches:
            continue
        br = b.branches[p]
        all_terms = b.branch_terms(br)
        reads = b.reads(br, all_terms)
        ret_terms = []
        seen = set()
        for v, line, gs in br.returns:
            ret_terms.extend(b.deep_terms(v, seen, values_only=True))
        ret_reads = b.reads(br, ret_terms, values_only=True)
        owners = {b.node: p}
        # rules whose nodes are consumed in this branch: p itself plus pass-through children (recursively)
        todo = [(b.node, p)]
        consumed = []
        while todo:
            owner, r = todo.pop()
            consumed.append((owner, r))
            for k, m in g.children(r).items():
                if k in passthrough:
                    todo.append((single(owner, k), k))
        for owner, r in consumed:
            for k, m in g.children(r).items():
                if k in IGNORABLE:
                    continue
                modes = reads.get((owner, k), set())
                what = f"{p}: child #{k}" if k[0].isupper() and k in g.tokens + ["Other"] else f"{p}: child {k}"
                via = "" if r == p else f" (via pass-through {r})"
                rep.ob(rid, f"{what}{via} (multiplicity {m}) is read by the branch", bool(modes), **_kw(b, br.line),
                       expected=f"get_{'items/get_tokens' if m in '*+' else 'single/get_token'}('{k}')", found=sorted(modes) or "never read")
                if not modes:
                    continue
                if m in "*+":
                    ok = "items" in modes or (r, k) in FIRST_ONLY
                    rep.ob(rid, f"{what}{via} may repeat and is read as a list", ok, **_kw(b, br.line),
                           expected="get_items/get_tokens (all occurrences)", found=sorted(modes),
                           note=FIRST_ONLY.get((r, k)))
                rr = ret_reads.get((owner, k), set())
                if (r, k) in FIRST_ONLY or k in passthrough:
                    flow_ok = bool(rr) or k in passthrough
                else:
                    flow_ok = bool(rr) and (m not in "*+" or "items" in rr)
                rep.ob(rid_flow, f"{what}{via} reaches the value the branch returns", flow_ok, **_kw(b, br.line),
                       expected="child flows into the returned node", found=sorted(rr) or "read but not part of the result")
        # a branch gives up (returns None) only when a child it needs is absent, and produces its node whenever they are present
        def presence_atom(a_):
            cc = b.c(a_)
            return cc[0] in ("single", "first", "items") and _owner_rule(b, cc[1], p) is not None
        for v, line, gs in br.returns:
            atoms = []
            gs = [(b.c(c), pol) for c, pol in gs]        # conditions in terms of the node's children
            for c, _pol in gs:
                nf._test_atoms(c, atoms)
            shown = [(fmt(b.c(c), b.I)[:120], pol) for c, pol in gs]
            if not all(presence_atom(a_) for a_ in atoms):
                rep.ob(rid, f"{p}: whether the node is produced depends only on which children are present", False, **_kw(b, line),
                       expected="tests of node.get_single/get_token/get_items results only", found=shown)
                continue
            all_present = {a_: True for a_ in atoms}
            try:
                reached = all(nf.eval_test(c, all_present) == pol for c, pol in gs)
            except KeyError:
                reached = None
            if is_const(v, None):
                # with every child present this path is not taken: None only when something is missing
                rep.ob(rid, f"{p}: the node is dropped (None) only when a child it needs is missing", reached is False, **_kw(b, line),
                       expected="return None under 'not <child>'", found=shown)
            else:
                rep.ob(rid, f"{p}: the node is produced whenever the children it needs are present", reached is True, **_kw(b, line),
                       expected="no condition other than 'child present'", found=shown)
        # reads of kinds the parser never puts there
        for (owner, k), modes in sorted(reads.items(), key=str):
            r = _owner_rule(b, owner, p)
            if r is None:
                continue
            if r not in g.rules:
                continue
            ch = g.children(r)
            rep.ob(rid, f"{p}: read of '{k}' from a {r} node names something the parser collects there", k in ch, **_kw(b, br.line),
                   expected=sorted(ch), found=k)


def _dict_of(b: BuilderNF, t):
    t = nf.strip_dropnone(t)
    return nf.resolve_ref_dict(b.I, t, b.tree)


def _main_return(b: BuilderNF, br: Branch):
    """The returned dict of a branch (the non-None return)."""
    ds = [(v, line, gs) for v, line, gs in br.returns if _dict_of(b, v) is not None]
    return ds[-1] if ds else None


def rule_fields(rep: Report, rid="C03.fields") -> None:
    b = bnf()
    I = b.I
    node = b.node
    line_attr = lambda L, a: ("attr", L, a)

    def expect_titled(p, owner_line_node, line_kind, extra):
        L = single(owner_line_node, line_kind)
        e = {"location": ("attr", L, "location"), "keyword": ("attr", L, "matched_keyword"), "name": ("attr", L, "matched_text")}
        e.update(extra)
        return e

    scen = single(node, "Scenario")
    exs = single(node, "Examples")
    fh = single(node, "FeatureHeader")
    rh = single(node, "RuleHeader")
    sl = single(node, "StepLine")
    spec = {
        "Background": expect_titled("Background", node, "BackgroundLine",
                                    {"description": single(node, "Description", const("")), "steps": items(node, "Step")}),
        "ScenarioDefinition": expect_titled("ScenarioDefinition", scen, "ScenarioLine",
                                            {"description": single(scen, "Description", const("")), "steps": items(scen, "Step"),
                                             "examples": items(scen, "ExamplesDefinition")}),
        "ExamplesDefinition": expect_titled("ExamplesDefinition", exs, "ExamplesLine",
                                            {"description": single(exs, "Description", const(""))}),
        "Rule": expect_titled("Rule", rh, "RuleLine", {"description": single(rh, "Description", const(""))}),
        "Feature": expect_titled("Feature", fh, "FeatureLine",
                                 {"description": single(fh, "Description", const("")),
                                  "language": ("attr", single(fh, "FeatureLine"), "matched_gherkin_dialect")}),
        "Step": {"location": ("attr", sl, "location"), "keyword": ("attr", sl, "matched_keyword"),
                 "keywordType": ("attr", sl, "matched_keyword_type"), "text": ("attr", sl, "matched_text")},
    }
    for p, exp in spec.items():
        br = b.branches.get(p)
        if br is None:
            rep.ob(rid, f"{p}: a transformation branch exists", False, **_kw(b), expected="branch", found="missing")
            continue
        mr = _main_return(b, br)
        if mr is None:
            rep.ob(rid, f"{p}: the branch returns a node dictionary", False, **_kw(b, br.line), expected="dict", found=[fmt(v, I) for v, _, _ in br.returns])
            continue
        d = _dict_of(b, mr[0])
        for k, want in exp.items():
            got = b.c(nf.strip_dropnone(d[k][0])) if k in d else None
            rep.ob(rid, f"{p}.{k} comes from " + fmt(want, I), got == want, **_kw(b, mr[1]),
                   expected=fmt(want, I), found=fmt(got, I) if got is not None else "field missing")
    # Step argument: the data table child under 'dataTable', else the doc string child under 'docString', else nothing
    br = b.branches.get("Step")
    mr = _main_return(b, br) if br else None
    if mr is not None:
        o = I.obj(nf.strip_dropnone(mr[0]))
        fixed = {"id", "location", "keyword", "keywordType", "text"}
        extra = [(k, v) for k, v, g in nf.dict_content(I, nf.strip_dropnone(mr[0]), b.tree) if not (is_const(k) and k[1] in fixed)] if isinstance(o, HDict) else []
        dt_i, dt_f = items(node, "DataTable"), ("first", node, "DataTable")
        ds_i, ds_f = items(node, "DocString"), ("first", node, "DocString")
        ok = bool(extra)
        found = []
        # decided per case of which argument child the step has (the grammar allows at most one): every condition the extra
        # entries depend on must be a presence test of those children; an entry whose value is the absent child is None, and
        # None entries are dropped when the dictionary goes through the None filter
        raw3 = [(k, v, g) for k, v, g in nf.dict_content(I, nf.strip_dropnone(mr[0]), b.tree) if not (is_const(k) and k[1] in fixed)] if isinstance(o, HDict) else []
        raw = [(k, v) for k, v, g in raw3]
        guards_of = {id(v): [(b.c(c), pol) for c, pol in (g or ())] for k, v, g in raw3}
        filtered = {id(v): (isinstance(v, tuple) and v and v[0] == "dropnone") for k, v in raw}
        pair = ("tuple", tuple(("tuple", (b.c(k), b.c(nf.strip_dropnone(v)))) for k, v in raw)) if raw else None
        atoms = nf.cond_atoms(pair) if pair else []
        for gl in guards_of.values():
            for c, _pol in gl:
                nf._test_atoms(c, atoms)
        isnone = lambda kind: ("cmp", "Is", ("first", node, kind), NONE)
        presence = (dt_i, dt_f, ds_i, ds_f, isnone("DataTable"), isnone("DocString"))
        stray = [a for a in atoms if a not in presence]
        if stray:
            ok = False
            found.append(("depends on", [fmt(a, I) for a in stray][:3]))
        for has_dt, has_ds in ((True, False), (False, True), (False, False)) if (pair and not stray) else ():
            assign = {dt_i: has_dt, dt_f: has_dt, ds_i: has_ds, ds_f: has_ds, isnone("DataTable"): not has_dt, isnone("DocString"): not has_ds}
            val = nf.resolve_conds(pair, assign)
            entries = {}
            for (k0, v0), kv in zip(raw, val[1]):
                k, v = kv[1]
                try:
                    if not all(nf.eval_test(c, assign) == pol for c, pol in guards_of[id(v0)]):
                        continue        # this entry is only set on other paths
                except KeyError:
                    pass
                cv = b.c(v)
                for kind, present in (("DataTable", has_dt), ("DocString", has_ds)):
                    if cv in (("first", node, kind), single(node, kind)) and not present and filtered[id(v0)]:
                        v = NONE            # the absent child: None, removed by the filter
                if not is_const(v, None):
                    entries[k[1] if is_const(k) else fmt(k, I)] = v
            def is_child(v, kind):
                return b.c(v) in (("first", node, kind), single(node, kind))
            if has_dt:
                good = set(entries) == {"dataTable"} and is_child(entries["dataTable"], "DataTable")
            elif has_ds:
                good = set(entries) == {"docString"} and is_child(entries["docString"], "DocString")
            else:
                good = not entries
            if not good:
                ok = False
                found.append(({"DataTable": has_dt, "DocString": has_ds}, {k: fmt(v, I) for k, v in entries.items()}))
        rep.ob(rid, "Step: the argument is the DataTable child under 'dataTable', else the DocString child under 'docString', else absent", ok,
               **_kw(b, mr[1]), expected="{'dataTable': node.get_single('DataTable')} | {'docString': node.get_single('DocString')} | {}",
               found=found[:3] or ("as expected" if ok else "no argument entry"))
    # comments: collected by build() from Comment tokens, text = matched_text, location = token location
    I2 = new_interp()
    tree, rv, _ = I2.run(f"{BQ}.build")
    fi = I2.facts.func(f"{BQ}.build")
    rep.used_function(fi.qualname)
    tok = ("param", fi.params()[1])
    selft = ("param", fi.params()[0])
    is_comment = ("cmp", "Eq", ("attr", tok, "matched_type"), const("Comment"))
    found_comment = False
    found_add = False
    for n, ctx in nf.iter_nodes(tree):
        gs = nf.guards_in_ctx(ctx)
        if n[0] == "mutate" and n[1] == ("attr", selft, N.COMMENTS) and n[2] == "append":
            d = nf.resolve_ref_dict(I2, n[3][0], tree)
            ok = gs == [(is_comment, True)] and d is not None and set(d) == {"location", "text"} \
                and d["text"][0] == ("attr", tok, "matched_text") and d["location"][0] == ("attr", tok, "location")
            found_comment = True
            rep.ob(rid, "a Comment token becomes one comment {location: token location, text: token text}, whatever the position", ok,
                   file=BFILE, line=n[4], function=fi.qualname, expected="if token.matched_type == 'Comment': comments.append({location, text})",
                   found=fmt(n[3][0], I2) + f" under {[(fmt(a, I2), p) for a, p in gs]}")
        if n[0] == "mutate" and n[2] == "append" and n[1] != ("attr", selft, N.COMMENTS):
            tgt = canon(n[1])
            found_add = True
            ok = gs == [(is_comment, False)] and n[3] == (tok,) and tgt[0] == "items" and tgt[2] == ("attr", tok, "matched_type") \
                and tgt[1] == ("item", ("attr", selft, N.STACK), const(-1))
            rep.ob(rid, "every other token is added to the open rule's node under its own token kind", ok,
                   file=BFILE, line=n[4], function=fi.qualname, expected="current_node.add(token.matched_type, token)",
                   found=f"{fmt(tgt, I2)}.append({fmt(n[3][0], I2)}) under {[(fmt(a, I2), p) for a, p in gs]}")
    rep.ob(rid, "build() handles comments and other tokens", found_comment and found_add, file=BFILE, line=fi.node.lineno,
           function=fi.qualname, expected="both paths", found={"comment": found_comment, "add": found_add})


def rule_order(rep: Report, rid="C03.order") -> None:
    """children lists: optional background, then scenarios, then rules - in grammar order, each in collection order."""
    b = bnf()
    I = b.I
    g = grammar()
    for p in ("Feature", "Rule"):
        br = b.branches.get(p)
        mr = _main_return(b, br) if br else None
        if mr is None:
            rep.ob(rid, f"{p}: returns a node with children", False, **_kw(b), expected="dict", found="missing")
            continue
        d = _dict_of(b, mr[0])
        ch = nf.strip_dropnone(d["children"][0]) if "children" in d else None
        if ch is None or ch[0] != "ref":
            rep.ob(rid, f"{p}.children is a list built by the branch", False, **_kw(b, mr[1]), expected="list", found=fmt(ch, I) if ch else "missing")
            continue
        segs = nf.flatten_segs(I, nf.list_content(I, ch, b.tree), b.tree)
        found = []
        for s in segs:
            if s[0] == "if":
                # an optional child: present -> one envelope holding it, absent -> nothing (whatever way the test is spelt)
                one = nf.map_seg_tests([s], b.c)
                atoms = nf.seg_test_atoms(one)
                kinds_ = {(a_[1], a_[2]) for a_ in atoms if a_[0] in ("items", "first", "single")}
                cases = nf.seg_cases(one) if atoms and len(kinds_) == 1 and all(a_[0] in ("items", "first", "single") for a_ in atoms) else None
                okc = bool(cases)
                entry = None
                for assign, sg in cases or []:
                    if all(assign.values()):
                        if len(sg) == 1 and sg[0][0] == "e":
                            dd = nf.resolve_ref_dict(I, sg[0][1], b.tree)
                            if dd and len(dd) == 1:
                                k = next(iter(dd))
                                v = b.c(dd[k][0])
                                if v[0] == "first" and (v[1], v[2]) in kinds_ and v[1] == b.node:
                                    entry = (k, v[2], "?")
                        okc = okc and entry is not None
                    else:
                        okc = okc and sg == []
                if okc and entry:
                    found.append(entry)
                    continue
                found.append(("irregular", fmt_seg(s, I) if s[0] != "if" else "if " + fmt(s[1], I), ""))
            elif s[0] == "loop" and len(s[2]) == 1 and s[2][0][0] == "e":
                info = I.loops[s[1]]
                it = b.c(info.get("iter"))
                dd = nf.resolve_ref_dict(I, s[2][0][1], b.tree)
                if dd and len(dd) == 1 and it[0] == "items" and it[1] == b.node and not info.get("conds"):
                    k = next(iter(dd))
                    if dd[k][0] == ("elem", s[1]):
                        found.append((k, it[2], "*"))
                        continue
                found.append(("irregular", fmt_seg(s, I), ""))
            else:
                found.append(("irregular", fmt_seg(s, I), ""))
        want = []
        for k, m in g.children(p).items():
            if k in ENVELOPE_KEY:
                want.append((ENVELOPE_KEY[k], k, "?" if m == "?" else "*"))
        rep.eq(rid, f"{p}.children = " + ", ".join(f"{k}{m}" for _, k, m in want) + " in grammar order, each wrapped in its envelope",
               want, found, **_kw(b, mr[1]))
    # list-valued fields keep collection order: no sorting / reversing / set conversion anywhere in the builder
    bad = []
    for br in b.branches.values():
        # only what reaches the returned value matters: a reversed() that merely drives a scan reorders nothing
        seen: set = set()

        def rev_chain(t):
            """reversed(...) terms nested directly in one another (through list copies and take/dropwhile): [outer, ..., inner]"""
            out = []
            cur = t
            while True:
                if cur[0] == "call" and cur[1] == "reversed" and len(cur[2]) == 1:
                    out.append(cur)
                    cur = cur[2][0]
                elif cur[0] == "call" and cur[1] in ("itertools.dropwhile", "itertools.takewhile", "list", "tuple", "iter") and cur[2]:
                    cur = cur[2][-1]
                elif cur[0] == "ref" and isinstance(I.obj(cur), HList) and len(I.obj(cur).segs) == 1 and I.obj(cur).segs[0][0] == "s":
                    cur = I.obj(cur).segs[0][1]
                else:
                    return out
        for v, _line, _gs in br.returns:
            terms = b.deep_terms(v, seen, skip_counts=True)
            covered = set()
            for t in terms:
                if t[0] == "call" and t[1] == "reversed":
                    for inner in rev_chain(t)[1:]:
                        covered.add(inner)
            for t in terms:
                if t[0] == "call" and t[1] in ("sorted", "set", "frozenset", ".sort", ".reverse"):
                    bad.append((br.rule, fmt(t, I)))
                if t[0] == "call" and t[1] == "reversed" and t not in covered and len(rev_chain(t)) % 2 == 1:
                    bad.append((br.rule, fmt(t, I)))        # an even number of reversals restores the order
        for n, ctx in nf.iter_nodes(br.tree):
            if n[0] == "mutate" and n[2] in ("sort", "reverse", "insert"):
                bad.append((br.rule, f"{n[2]} at line {n[4]}"))
    rep.ob(rid, "no branch reorders or de-duplicates what it collected", not bad, **_kw(b), expected="no sorted/reversed/set/sort/reverse/insert", found=bad)


def rule_desc(rep: Report, rid="C03.desc") -> None:
    """description = '\\n'.join(text of the Other tokens in order) after dropping a trailing run of *blank* lines."""
    b = bnf()
    I = b.I
    br = b.branches.get("Description")
    if br is None:
        rep.ob(rid, "a Description branch exists", False, **_kw(b), expected="branch", found="missing")
        return
    rets = [r for r in br.returns]
    ok_join = False
    found = [fmt(v, I) for v, _, _ in rets]
    src_list = None
    for v, line, gs in rets:
        if v[0] == "call" and v[1] == ".join" and is_const(v[2][0], "\n"):
            lst = v[2][1]
            sl = None
            if lst[0] == "ref":
                segs = nf.list_content(I, lst, b.tree)
                if len(segs) == 1 and segs[0][0] == "loop" and len(segs[0][2]) == 1 and segs[0][2][0][0] == "e":
                    lid = segs[0][1]
                    info = I.loops[lid]
                    if segs[0][2][0][1] == ("attr", ("elem", lid), "matched_text") and not info.get("conds"):
                        src_list = info.get("iter")
                        ok_join = True
    rep.ob(rid, "the description is the line texts joined by line feeds, in order, unfiltered", ok_join, **_kw(b, br.line),
           expected="'\\n'.join(token.matched_text for token in <tokens>)", found=found)
    if not ok_join:
        return
    # the token list: a fresh copy of the Other tokens from which only a trailing run of blank lines is removed
    cut = None
    dropped_by = None       # predicate of forms C / D (library spelling of 'the trailing run satisfying P')
    other = items(b.node, "Other")

    def is_other_tokens(t):
        if b.c(t) == other:
            return True
        o_ = I.obj(t) if isinstance(t, tuple) and t and t[0] == "ref" else None
        return isinstance(o_, HList) and [b.c(sg[1]) if sg[0] == "s" else None for sg in o_.segs] == [other]

    def trailing_run(t):
        """P when t is takewhile/dropwhile(P, reversed(<the Other tokens>))"""
        if t[0] == "call" and t[1] in ("itertools.takewhile", "itertools.dropwhile") and len(t[2]) == 2 \
                and t[2][1][0] == "call" and t[2][1][1] == "reversed" and is_other_tokens(t[2][1][2][0]):
            return t[1].rsplit(".", 1)[1], t[2][0], t[2][1][2][0]
        return None

    if src_list[0] == "call" and src_list[1] == "reversed" and len(src_list[2]) == 1:
        # form C: reversed(list(dropwhile(P, reversed(tokens))))
        inner = src_list[2][0]
        o_ = I.obj(inner)
        tr = trailing_run(o_.segs[0][1]) if isinstance(o_, HList) and len(o_.segs) == 1 and o_.segs[0][0] == "s" else trailing_run(inner)
        if tr and tr[0] == "dropwhile":
            dropped_by, src_list = tr[1], tr[2]
    elif src_list[0] == "slice" and src_list[2] == NONE and src_list[4] == NONE and src_list[3][0] == "binop" and src_list[3][1] == "Sub" \
            and src_list[3][2] == ("call", "len", (src_list[1],), ()):
        # form D: tokens[:len(tokens) - <number of trailing tokens satisfying P>]
        cnt = src_list[3][3]
        run = None
        if cnt[0] == "call" and cnt[1] in ("sum", "len") and len(cnt[2]) == 1:
            arg = cnt[2][0]
            sg = nf.flatten_segs(I, nf.value_segs(I, arg, b.tree), b.tree) if arg[0] == "ref" else []
            if cnt[1] == "sum" and len(sg) == 1 and sg[0][0] == "loop" and list(sg[0][2]) == [("e", const(1))] and not I.loops[sg[0][1]].get("conds"):
                run = trailing_run(I.loops[sg[0][1]].get("iter"))
            elif cnt[1] == "len" and len(sg) == 1 and sg[0][0] == "s":
                run = trailing_run(sg[0][1])
        if run and run[0] == "takewhile" and run[2] == src_list[1]:
            dropped_by, src_list = run[1], src_list[1]
    if dropped_by is None and src_list[0] == "slice" and src_list[2] == NONE and src_list[4] == NONE:
        cut = src_list[3]           # form B: tokens[:keep]
        src_list = src_list[1]
    o = I.obj(src_list)
    base_ok = is_other_tokens(src_list)
    rep.ob(rid, "the lines are the node's #Other tokens (comments were diverted by build)", base_ok, **_kw(b, br.line),
           expected="list(node.get_tokens('Other'))", found=fmt(src_list, I))

    def blankness(p, text):
        """'blank' / 'nonblank' / 'empty' / 'nonempty' when p tests that of ``text``."""
        strip = ("call", ".strip", (text,), ())
        blank = [mk_not(strip), ("call", ".isspace", (text,), ()), ("cmp", "Eq", strip, const(""))]
        if p in blank:
            return "blank"
        if p[0] == "bool" and p[1] == "or" and set(p[2]) == {mk_not(text), ("call", ".isspace", (text,), ())}:
            return "blank"
        if mk_not(p) in blank or p == strip:
            return "nonblank"
        if p == mk_not(text) or p == ("cmp", "Eq", text, const("")):
            return "empty"
        if p == text:
            return "nonempty"
        return None

    muts = [(n, ctx) for n, ctx in nf.iter_nodes(br.tree) if n[0] == "mutate" and n[1] == src_list]
    loops = [n for n, ctx in nf.iter_nodes(br.tree) if n[0] == "loop" and I.loops[n[1]].get("kind") == "while"]
    trim_ok = False
    pred_kind = None
    detail = None
    if dropped_by is not None:
        # forms C / D: the predicate applied to a token must say 'blank'
        from ..absint import State
        probe = ("param", "token")
        try:
            pv = I.apply(State(), dropped_by, [probe], {}, None, [])
        except Exception:
            pv = None
        pred_kind = blankness(pv, ("attr", probe, "matched_text")) if pv is not None else None
        trim_ok = pred_kind == "blank" and not [m_ for m_ in muts if not getattr(I.obj(m_[0][1]), "materialised", False)]
        detail = f"trailing run dropped by {fmt(dropped_by, I)[:80]}"
    elif cut is None and len(muts) == 1 and muts[0][0][2] == "pop" and muts[0][0][3] == () and len(loops) == 1:
        # form A: while tokens and <blank(tokens[-1].matched_text)>: tokens.pop()
        lid = loops[0][1]
        in_loop = nf.loops_in_ctx(muts[0][1]) == [lid] and not nf.guards_in_ctx(muts[0][1])
        test = I.loops[lid].get("test")
        detail = fmt(test, I)
        last_text = ("attr", ("item", src_list, const(-1)), "matched_text")
        if in_loop and test is not None and test[0] == "bool" and test[1] == "and" and len(test[2]) == 2 and test[2][0] == src_list:
            pred_kind = blankness(test[2][1], last_text)
            trim_ok = pred_kind == "blank"
    elif cut is not None and not muts and cut[0] == "firstof" and cut[2] == ("elem", cut[1]) and is_const(cut[3], 0):
        # form F: end = next((i for i in range(len(tokens), 0, -1) if <nonblank(tokens[i - 1].matched_text)>), 0); tokens[:end]
        lid = cut[1]
        info = I.loops.get(lid, {})
        conds = info.get("conds") or ()
        detail = f"first index from the end where {fmt(conds[0], I) if len(conds) == 1 else conds}, over {fmt(info.get('iter'), I)}"
        idx_text = ("attr", ("item", src_list, ("binop", "Sub", ("elem", lid), const(1))), "matched_text")
        if info.get("iter") == ("call", "range", (("call", "len", (src_list,), ()), const(0), const(-1)), ()) and len(conds) == 1:
            kind = blankness(conds[0], idx_text)
            pred_kind = {"nonblank": "blank", "nonempty": "empty"}.get(kind)
            trim_ok = kind == "nonblank"
    elif cut is not None and not muts and cut[0] == "loopout" and I.loops.get(cut[1], {}).get("kind") == "while":
        # form E: end = len(tokens); while end > 0 and <blank(tokens[end - 1].matched_text)>: end -= 1
        lid, var = cut[1], cut[2]
        info = I.loops.get(lid, {})
        phi = ("phi", lid, var)
        test = info.get("test")
        node = next((n for n, ctx in nf.iter_nodes(br.tree) if n[0] == "loop" and n[1] == lid), None)
        inside = [n for n, ctx in nf.iter_nodes(node[2])] if node else []
        detail = f"index scan while {fmt(test, I) if test else None}, from {fmt(info.get('carried_init', {}).get(var), I)}"
        last_text = ("attr", ("item", src_list, ("binop", "Sub", phi, const(1))), "matched_text")
        if test is not None and test[0] == "bool" and test[1] == "and" and len(test[2]) == 2 and test[2][0] == mk_cmp("Gt", phi, const(0)) \
                and info.get("carried_init", {}).get(var) == ("call", "len", (src_list,), ()) \
                and info.get("carried", {}).get(var) == ("binop", "Sub", phi, const(1)) \
                and not any(n[0] in ("break", "continue", "return", "raise", "mutate", "setattr", "setitem") for n in inside):
            pred_kind = blankness(test[2][1], last_text)
            trim_ok = pred_kind == "blank"
    elif cut is not None and not muts and cut[0] == "loopout":
        # form B: keep = len(tokens); for t in reversed(tokens): if <nonblank(t.matched_text)>: break; keep -= 1
        lid, var = cut[1], cut[2]
        info = I.loops.get(lid, {})
        el_text = ("attr", ("elem", lid), "matched_text")
        node = next((n for n, ctx in nf.iter_nodes(br.tree) if n[0] == "loop" and n[1] == lid), None)
        breaks = [(n, ctx) for n, ctx in nf.iter_nodes(node[2])] if node else []
        brk = [(n, ctx) for n, ctx in breaks if n[0] == "break"]
        phi = ("phi", lid, var)
        detail = f"scan over {fmt(info.get('iter'), I)}, count from {fmt(info.get('carried_init', {}).get(var), I)}"
        if info.get("kind") == "for" and info.get("iter") == ("call", "reversed", (src_list,), ()) \
                and info.get("carried_init", {}).get(var) == ("call", "len", (src_list,), ()) \
                and info.get("carried", {}).get(var) == ("binop", "Sub", phi, const(1)) \
                and info.get("break_env", {}).get(var, phi) == phi and len(brk) == 1 \
                and not any(n[0] in ("continue", "return", "raise") for n, _ in breaks):
            gs = nf.guards_in_ctx(brk[0][1])
            if len(gs) == 1:
                kind = blankness(gs[0][0], el_text)
                if not gs[0][1] and kind:
                    kind = {"blank": "nonblank", "nonblank": "blank", "empty": "nonempty", "nonempty": "empty"}[kind]
                pred_kind = {"nonblank": "blank", "nonempty": "empty"}.get(kind)   # what is dropped
                trim_ok = kind == "nonblank"
    rep.ob(rid, "only trailing blank (whitespace-only) lines are dropped, from the end, while there are lines", trim_ok, **_kw(b, br.line),
           expected="while tokens and not tokens[-1].matched_text.strip(): tokens.pop()",
           found=(f"trailing trim tests {pred_kind or 'an unrecognised predicate'}: {detail}" if detail else f"{len(muts)} mutation(s), {len(loops)} while loop(s)"),
           note="whitespace-only lines are free text in description states, so they reach this trim")


def rule_tags_ast(rep: Report, rid="C08.ast") -> None:
    """Tags of an element = items of the TagLine tokens of its own Tags child, token then item order, name = item text."""
    b = bnf()
    I = b.I
    owners = {"ScenarioDefinition": b.node, "ExamplesDefinition": b.node, "Rule": single(b.node, "RuleHeader"),
              "Feature": single(b.node, "FeatureHeader")}
    for p, owner in owners.items():
        br = b.branches.get(p)
        mr = _main_return(b, br) if br else None
        d = _dict_of(b, mr[0]) if mr else None
        tv = nf.strip_dropnone(d["tags"][0]) if d and "tags" in d else None
        if tv is None or tv[0] not in ("ref", "cond"):
            rep.ob(rid, f"{p}.tags is a list built from the element's tag lines", False, **_kw(b, br.line if br else None),
                   expected="list", found=fmt(tv, I) if tv else "missing")
            continue
        segs = nf.map_seg_tests(nf.flatten_segs(I, nf.value_segs(I, tv, b.tree), b.tree), b.c)
        found = [fmt_seg(s, I) for s in segs]
        # the list may be guarded by 'there is a Tags child' (early return / conditional): decide per case
        has_child = [("items", owner, "Tags"), ("first", owner, "Tags"), single(owner, "Tags")]

        def tag_loop(segs):
            nonlocal found
            if len(segs) == 1 and segs[0][0] == "loop":
                l1 = segs[0][1]
                it1 = b.c(I.loops[l1].get("iter"))
                inner = segs[0][2]
                if it1 == items(single(owner, "Tags"), "TagLine") and len(inner) == 1 and inner[0][0] == "loop" and not I.loops[l1].get("conds"):
                    l2 = inner[0][1]
                    it2 = I.loops[l2].get("iter")
                    e = inner[0][2]
                    if it2 == ("attr", ("elem", l1), "matched_items") and len(e) == 1 and e[0][0] == "e" and not I.loops[l2].get("conds"):
                        td = nf.resolve_ref_dict(I, e[0][1], b.tree)
                        if td and set(td) == {"id", "location", "name"}:
                            found = {k: fmt(v[0], I) for k, v in td.items()}
                            return td["name"][0] == ("item", ("elem", l2), const("text")) and td["id"][0][0] == "drawn"
            return False

        cases = nf.seg_cases(segs)
        ok = bool(cases)
        for assign, sg in cases or []:
            if set(assign) - set(has_child):
                ok = False
                break
            present = all(v for v in assign.values())
            if present:
                ok = ok and tag_loop(sg)
            else:
                ok = ok and sg == []      # no Tags child -> no tags
        rep.ob(rid, f"{p}.tags are the items of the TagLine tokens of its own Tags child, token then item order, name = item text", ok,
               **_kw(b, mr[1]), expected=f"for token in {fmt(items(single(owner, 'Tags'), 'TagLine'), I)}: for item in token.matched_items: {{id, location, name: item.text}}",
               found=found)


def rule_docstring_ast(rep: Report, rid="C13.ast") -> None:
    b = bnf()
    I = b.I
    br = b.branches.get("DocString")
    mr = _main_return(b, br) if br else None
    if mr is None:
        rep.ob(rid, "a DocString branch returns a node", False, **_kw(b), expected="dict", found="missing")
        return
    d = _dict_of(b, mr[0])
    sep = ("first", b.node, "DocStringSeparator")
    kw = _kw(b, mr[1])
    def get(k):
        """The value stored under k, None standing for 'absent': an entry stored only under a condition is its value when the
        condition holds and absent otherwise (the same as a conditional value that the None filter drops)."""
        if k not in d:
            return None
        v = nf.strip_dropnone(d[k][0])
        for c_, pol in reversed(list(d[k][1] or ())):
            v = mk_cond(c_ if pol else mk_not(c_), v, NONE)
        return b.c(v)
    # content
    c = get("content")
    ok = False
    if c is not None and c[0] == "call" and c[1] == ".join" and is_const(c[2][0], "\n") and c[2][1][0] == "ref":
        segs = nf.list_content(I, c[2][1], b.tree)
        if len(segs) == 1 and segs[0][0] == "loop" and segs[0][2] == [("e", ("attr", ("elem", segs[0][1]), "matched_text"))]:
            info = I.loops[segs[0][1]]
            ok = b.c(info.get("iter")) == items(b.node, "Other") and not info.get("conds")
    rep.ob(rid, "docString.content = the content lines joined by line feeds, all of them, in order", ok, **kw,
           expected="'\\n'.join(t.matched_text for t in node.get_tokens('Other'))", found=fmt(c, I) if c else "missing")
    mt = ("attr", sep, "matched_text")
    want_forms = [mk_cond(mk_cmp("Gt", ("call", "len", (mt,), ()), const(0)), mt, NONE), ("cond", mt, mt, NONE)]
    rep.ob(rid, "docString.mediaType = text after the opening delimiter, absent when empty", get("mediaType") in want_forms, **kw,
           expected=fmt(want_forms[0], I), found=fmt(get("mediaType"), I) if get("mediaType") else "missing")
    rep.eq(rid, "docString.delimiter = the opening delimiter", fmt(("attr", sep, "matched_keyword"), I), fmt(get("delimiter"), I) if get("delimiter") else None, **kw)
    rep.eq(rid, "docString.location = the opening delimiter's location", fmt(("attr", sep, "location"), I), fmt(get("location"), I) if get("location") else None, **kw)
    rep.ob(rid, "the doc string branch performs no mutation (nothing is trimmed or dropped)",
           not [n for n, _ in nf.iter_nodes(br.tree) if n[0] == "mutate" and not getattr(I.obj(n[1]), "materialised", False)], **_kw(b, br.line),
           expected="no pop/remove", found=[(n[2], n[4]) for n, _ in nf.iter_nodes(br.tree) if n[0] == "mutate" and not getattr(I.obj(n[1]), "materialised", False)])


def _rows_list(b: BuilderNF, br: Branch):
    """(rows list ref, row loop id) built in a table branch: the list whose content is one element per TableRow token
    (comprehension or append loop)."""
    I = b.I
    for n, ctx in nf.iter_nodes(br.tree):
        if n[0] == "alloc":
            o = I.obj(n[1])
            if isinstance(o, HList):
                segs = nf.list_content(I, n[1], b.tree)
                if len(segs) == 1 and segs[0][0] == "loop" and len(segs[0][2]) == 1 and segs[0][2][0][0] == "e":
                    lid = segs[0][1]
                    if b.c(I.loops[lid].get("iter")) == items(b.node, "TableRow"):
                        return n[1], lid
    return None, None


def rule_rect(rep: Report, rid="C12.rect") -> None:
    """Every table (data table, examples table) passes the cell-count check: each row is compared with the first, in order,
    and the first deviating row's location is reported."""
    b = bnf()
    I = b.I
    for p in ("DataTable", "ExamplesTable"):
        br = b.branches.get(p)
        if br is None:
            rep.ob(rid, f"{p}: a branch exists", False, **_kw(b), expected="branch", found="missing")
            continue
        rows, rl = _rows_list(b, br)
        kw = _kw(b, br.line)
        if rows is None:
            rep.ob(rid, f"{p}: rows are built from the TableRow tokens in order", False, **kw,
                   expected="[row(token) for token in node.get_tokens('TableRow')]", found="no such list")
            continue
        info = I.loops[rl]
        rep.ob(rid, f"{p}: every TableRow token becomes a row", not info.get("conds"), **kw, expected="unfiltered", found=info.get("conds"))
        raises = [(n, ctx) for n, ctx in nf.iter_nodes(br.tree) if n[0] == "raise"]
        good = 0
        detail = []
        for n, ctx in raises:
            loops = nf.loops_in_ctx(ctx)
            gs = nf.guards_in_ctx(ctx)
            firsts = [g[0][2] for g in gs if g[1] is False and g[0][0] == "cmp" and g[0][1] == "Is" and g[0][3] == NONE and g[0][2][0] == "firstof"]
            if not loops and len(firsts) == 1 and firsts[0][3] == NONE and firsts[0][2] == ("elem", firsts[0][1]):
                # ``bad = next((row for row in rows if <differs>), None); if bad is not None: raise ...(bad.location)``:
                # the same first-deviating-row scan, written as a search
                fst = firsts[0]
                li = I.loops[fst[1]]
                el = ("elem", fst[1])
                first_count = ("call", "len", (("item", ("item", rows, const(0)), const("cells")),), ())
                this_count = ("call", "len", (("item", el, const("cells")),), ())
                conds = tuple(nf.norm_guard(c, True) for c in li.get("conds") or ())
                exc = n[1]
                loc = None
                for m2, c2 in nf.iter_nodes(br.tree):
                    if m2[0] == "setattr" and m2[1] == exc and m2[2] == "location":
                        loc = m2[3]
                ok = li.get("iter") == rows and conds in (((("cmp", "Eq", this_count, first_count), False),), ((("cmp", "Eq", first_count, this_count), False),)) \
                    and loc == ("item", fst, const("location"))
                exc_cls = I.obj(exc).cls.name if isinstance(I.obj(exc), HInst) else None
                detail.append({"searches": fmt(li.get("iter"), I), "for": [(fmt(c, I), p2) for c, p2 in conds], "location": fmt(loc, I) if loc else None, "exception": exc_cls})
                if ok and exc_cls == "AstBuilderException":
                    good += 1
                continue
            if not loops:
                detail.append("raise outside a row loop")
                continue
            lid = loops[-1]
            li = I.loops[lid]
            el = ("elem", lid)
            first_count = ("call", "len", (("item", ("item", rows, const(0)), const("cells")),), ())
            this_count = ("call", "len", (("item", el, const("cells")),), ())
            differs = [(("cmp", "Eq", this_count, first_count), False), (("cmp", "Eq", first_count, this_count), False)]
            exc = n[1]
            loc = None
            for m2, c2 in nf.iter_nodes(br.tree):
                if m2[0] == "setattr" and m2[1] == exc and m2[2] == "location":
                    loc = m2[3]
            it_ = li.get("iter")
            # all the rows, or all but the first (which is the reference: it cannot differ from itself)
            over_rows = it_ == rows or it_ == ("slice", rows, const(1), NONE, NONE) \
                or (isinstance(it_, tuple) and it_ and it_[0] == "call" and it_[1] == "itertools.islice" and it_[2] in ((rows, const(1), NONE), (rows, const(1), NONE, NONE), (rows, const(1), NONE, const(1))))
            ok = over_rows and not li.get("conds") and any(g in gs for g in differs) and loc == ("item", el, const("location"))
            exc_cls = I.obj(exc).cls.name if isinstance(I.obj(exc), HInst) else None
            detail.append({"iterates": fmt(li.get("iter"), I), "guards": [(fmt(c, I), p2) for c, p2 in gs], "location": fmt(loc, I) if loc else None, "exception": exc_cls})
            if ok and exc_cls == "AstBuilderException":
                good += 1
        rep.ob(rid, f"{p}: a row whose cell count differs from the first row's raises at that row, inside the in-order scan", good == 1, **kw,
               expected="for row in rows: if len(row.cells) != len(rows[0].cells): raise AstBuilderException(..., row.location)", found=detail or "no raise")
        # the checked list is the one returned
        ret_has = any(rows in b.deep_terms(v) for v, _, _ in br.returns)
        rep.ob(rid, f"{p}: the rows that were checked are the rows returned", ret_has, **kw, expected="same list", found="returned value does not contain the checked list")


def rule_locations(rep: Report, rid="C04.items") -> None:
    """Tag and cell locations take the item's column on the token's line; rows, steps and keyword lines use the token location."""
    b = bnf()
    I = b.I

    def item_loc(tok, it):
        col = ("item", it, const("column"))
        return col, tok

    checked = 0
    for p, br in b.branches.items():
        for n, ctx in nf.iter_nodes(br.tree):
            if n[0] != "alloc":
                continue
            d = nf.resolve_ref_dict(I, n[1], b.tree)
            if not d or "location" not in d:
                continue
            loc = nf.strip_dropnone(d["location"][0])
            keys = set(d)
            if keys == {"id", "location", "name"} or keys == {"location", "value"}:
                what = "tag" if "name" in keys else "cell"
                loops = nf.loops_in_ctx(ctx)
                ok = False
                if len(loops) >= 2:
                    tok, it = ("elem", loops[-2]), ("elem", loops[-1])
                    col = ("item", it, const("column"))
                    ld = None
                    if loc[0] == "cond":
                        # whatever is tested about the item's column is decided by what such a column is: a 1-based position
                        # (never None, never 0).  The selection must come out the same for every such value
                        picks = {nf.simplify(I, loc, {col: const(v)}) for v in (1, 2, 3, 80)}
                        if len(picks) == 1:
                            loc = picks.pop()
                    if loc[0] == "ref":
                        ld = nf.resolve_ref_dict(I, loc, b.tree)
                    ok = ld is not None and set(ld) == {"line", "column"} and ld["column"][0] == col \
                        and ld["line"][0] == ("item", ("attr", tok, "location"), const("line"))
                checked += 1
                rep.ob(rid, f"{p}: a {what}'s location is (its token's line, the {what}'s own column)", ok, **_kw(b, n[2]),
                       expected="{'line': token.location['line'], 'column': item['column']}", found=fmt(loc, I))
            elif keys == {"id", "location", "cells"}:
                loops = nf.loops_in_ctx(ctx)
                ok = bool(loops) and loc == ("attr", ("elem", loops[-1]), "location")
                checked += 1
                rep.ob(rid, f"{p}: a table row's location is its token's location", ok, **_kw(b, n[2]), expected="token.location", found=fmt(loc, I))
    rep.floor("located tag/cell/row constructions", checked, 8)
    # DataTable location = first row's
    br = b.branches.get("DataTable")
    mr = _main_return(b, br) if br else None
    if mr:
        d = _dict_of(b, mr[0])
        rows, rl = _rows_list(b, br)
        loc = nf.strip_dropnone(d["location"][0]) if "location" in d else None
        rep.ob(rid, "a data table's location is its first row's location", rows is not None and loc == ("item", ("item", rows, const(0)), const("location")),
               **_kw(b, mr[1]), expected="rows[0]['location']", found=fmt(loc, I) if loc else None)


def rule_ids(rep: Report, rid_order="C11.order", rid_src="C11.src") -> None:
    """Builder side of C11: ids are drawn only while transforming a finished node; within a node, own tags first
    (token then item order), then the node; rows in row order; every draw is some emitted node's id."""
    b = bnf()
    I = b.I
    with_id = {"Step", "Background", "ScenarioDefinition", "ExamplesDefinition", "Rule"}
    ndraw = 0
    for p, br in b.branches.items():
        draws = [(n, ctx) for n, ctx in nf.iter_nodes(br.tree) if n[0] == "draw"]
        ndraw += len(draws)
        seen = set()
        used = set()
        for v, line, gs in br.returns:
            for t in b.deep_terms(v, seen):
                if t[0] == "drawn":
                    used.add(t[1])
        for n, ctx in draws:
            rep.ob(rid_src, f"{p}: every id drawn becomes the id of a node in the returned value", n[1] in used, **_kw(b, n[2]),
                   expected="draw flows into a returned 'id' field", found="drawn id is discarded" if n[1] not in used else "used")
            rep.ob(rid_src, f"{p}: ids come from the builder's own id_generator", n[3] == ("attr", b.selft, N.idgen_attr(BQ)), **_kw(b, n[2]),
                   expected="self.id_generator", found=fmt(n[3], I) if n[3] else None)
        mr = _main_return(b, br)
        d = _dict_of(b, mr[0]) if mr else None
        # canonical positions: a branch draws the id of the node it returns and of that node's own tags (after the children
        # it contains have been finished), a table branch the ids of its rows - tags get no ids before their owner's steps
        # and examples, so no other branch draws
        if draws:
            place = "node id / own tag ids" if (p in with_id or p == "Feature") else ("row ids" if p in ("DataTable", "ExamplesTable") else None)
            rep.ob(rid_order, f"{p}: ids are drawn in canonical positions (rows in table branches; own tags then the node in the owner's branch)",
                   place is not None, **_kw(b, br.line), expected="no id is drawn while a " + p + " node is finished" if place is None else place,
                   found=f"{len(draws)} draw(s) in the {p} branch")
        if p in with_id:
            nid = nf.strip_dropnone(d["id"][0]) if d and "id" in d else None
            rep.ob(rid_src, f"{p}: the node's id is a freshly drawn id", nid is not None and nid[0] == "drawn", **_kw(b, br.line),
                   expected="self.id_generator.get_next_id()", found=fmt(nid, I) if nid else "no id field")
            others = [n[1] for n, ctx in draws if nid is None or n[1] != nid[1]]
            if nid is not None and nid[0] == "drawn" and others:
                rep.ob(rid_order, f"{p}: the ids of its own tags are drawn before the node's id", max(others) < nid[1], **_kw(b, br.line),
                       expected="tags (token, item order), then the node", found=f"node draw #{nid[1]}, other draws {sorted(others)}")
            # guards: the node id is drawn on every path that returns the node
    rep.floor("builder id draws", ndraw, 5)
    # ids are drawn only under transform_node
    f = facts()
    cls = f.cls(BQ)
    # functions reached from transform_node (resolved calls of the normal-form runs, including dispatch tables and helpers)
    reach = {f"{BQ}.{N.TRANSFORM}"} | {callee for caller, callee, line in b.I.call_log}
    import ast as _ast
    for m in f.modules.values():
        if m.name == "gherkin.inout":
            continue
        fns = list(m.functions.values()) + [x for c in m.classes.values() for x in c.methods.values()]
        for fi in fns:
            if fi.qualname.startswith("gherkin.stream.id_generator") or fi.module.name == "gherkin.pickles.compiler":
                continue
            has = any(isinstance(n, _ast.Attribute) and n.attr == "get_next_id" for n in _ast.walk(fi.node))
            if has:
                rep.ob(rid_order, f"{fi.name}: ids are drawn only while a finished node is transformed (children before parents)", fi.qualname in reach,
                       file=fi.file, line=fi.node.lineno, function=fi.qualname, expected="reachable from transform_node only", found=fi.qualname)
    # end_rule: pop, transform, add to the parent -> a node is transformed when it is complete
    I2 = new_interp()
    q = f"{BQ}.end_rule"
    fi = I2.facts.func(q)

    def tn(I_, st_, fi_, args, kwargs, n, tree_):
        tree_.append(("transform", tuple(args), getattr(n, "lineno", None)))
        return ("transformed", args[1] if len(args) > 1 else None)
    I2.intrinsics[f"{BQ}.{N.TRANSFORM}"] = tn
    tree, rv, st = I2.run(q)
    rep.used_function(q)
    selft = ("param", fi.params()[0])
    stack = ("attr", selft, N.STACK)
    ev = [n for n, _ in nf.iter_nodes(tree) if n[0] in ("mutate", "transform")]
    popped = ("call", ".pop", (stack,), ())
    ok = len(ev) == 3 and ev[0][0] == "mutate" and ev[0][1] == stack and ev[0][2] == "pop" and ev[1][0] == "transform" and ev[1][1][1] == popped \
        and ev[2][0] == "mutate" and ev[2][2] == "append" and ev[2][3] == (("transformed", popped),) \
        and canon(ev[2][1]) == ("items", ("item", stack, const(-1)), ("attr", popped, "rule_type"))
    rep.ob(rid_order, "end_rule pops the finished node, transforms it once and files the result in its parent under the node's rule type", ok,
           file=fi.file, line=fi.node.lineno, function=q, expected="node = stack.pop(); current_node.add(node.rule_type, transform_node(node))",
           found=[(e[0], e[2] if e[0] == "mutate" else None) for e in ev])
