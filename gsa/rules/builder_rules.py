"""Rules on the AST builder (placeholder, filled below)."""
from ..common import Report


def rule_tags_ast(rep: Report, rid: str) -> None:
    pass
