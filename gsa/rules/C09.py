"""C09 - example values replace <header> placeholders literally, everywhere they apply."""
from . import compiler_rules as cr
from . import misc_rules as ms

META = {
    "level": "other",
    "explanation": "The substitution primitive is recognised in normal form: one loop over the header cells in order applying literal "
                   "str.replace('<' + header.value + '>', row.cells[n].value) to the running text (regex-based or table-driven "
                   "substitution is refuted). Slot provenance: in the outline path exactly scenario name, step text, every data table "
                   "cell, doc string content and media type are interpolated with (tableHeader.cells, row.cells); background steps and "
                   "plain scenarios are copied without substitution.",
    "assumptions": ["str.replace is literal", "AST dictionaries have the shape the builder produces"],
}


def run(rep):
    cr.rule_skel(rep, "C09.skel")
    cr.rule_fields(rep, "C09.sites")
    cr.rule_steps(rep, rid_sites="C09.sites", want=("sites",))
    cr.rule_input(rep, "C09.isolation")
    # no hidden state: what the property promises for one use must hold for every later use as well
    ms.rule_stateless(rep, "C09")
