"""Generator typestate, instance/shared-state rules, determinism, token formatter (C11.gen/det, C15.inst/shared, C18.fmt)."""
from __future__ import annotations

import ast

from ..absint import new_interp, Interp, HList, HDict, HInst, NONE, const, is_const, fmt, mk_not
from ..astutil import unparse, dotted, xdotted, walk_no_nested_defs
from ..names import N
from ..common import AnalysisError, Report
from ..facts import facts
from .. import nf
from .matcher_rules import lin_eq
from .line_rules import _str_parts
from . import parser_rules as pr

GQ = "gherkin.stream.id_generator.IdGenerator"


_SCOPE: list = [None]        # module-name suffixes the state rules are restricted to while a scoped property runs (None = whole package)


def _in_scope(modname: str) -> bool:
    sc = _SCOPE[0]
    return sc is None or any(modname == "gherkin." + x or modname.endswith("." + x) for x in sc)


def _pkg_functions():
    for fi in facts().all_functions():
        if fi.module.name == "gherkin.inout" or not _in_scope(fi.module.name):
            continue
        yield fi


def rule_generator(rep: Report, rid="C11.gen") -> None:
    I = new_interp()
    I.intrinsics.clear()
    q = f"{GQ}.get_next_id"
    fi = I.facts.func(q)
    q = fi.qualname            # (where the class lives today)
    rep.used_file(fi.file)
    rep.used_function(q)
    tree, rv, st = I.run(q)
    selft = ("param", fi.params()[0])
    cnt = ("attr", selft, N.ID_COUNTER)
    kw = dict(file=fi.file, line=fi.node.lineno, function=q)
    I2 = new_interp()
    fi2 = I2.facts.func(f"{GQ}.__init__")
    tree2, rv2, st2 = I2.run(fi2.qualname)
    start = st2.ext.get((("param", fi2.params()[0]), N.ID_COUNTER)) if st2 else None
    library_counter = False
    if start is not None and start[0] == "call" and start[1] == "itertools.count":
        # the counter is the library's: itertools.count(0, 1) advanced by next() - the value before the step, then one more
        kws = dict(start[3]) if len(start) > 3 else {}
        a0 = start[2][0] if len(start[2]) > 0 else kws.get("start", const(0))
        a1 = start[2][1] if len(start[2]) > 1 else kws.get("step", const(1))
        library_counter = True
        nexts = [(n, c) for n, c in nf.iter_nodes(tree) if n[0] == "extcall" and n[1] == "next"]
        rep.eq(rid, "get_next_id returns the counter's value before the increment, as a string", ("call", "str", (("call", "next", (cnt,), ()),), ()), rv, **kw)
        rep.ob(rid, "get_next_id increments the counter by one on every call", is_const(a1, 1) and len(nexts) == 1 and not nf.guards_in_ctx(nexts[0][1])
               and not [n for n, c in nf.iter_nodes(tree) if n[0] == "setattr" and n[2] == N.ID_COUNTER], **kw,
               expected="one unconditional next() on itertools.count(step=1)", found=f"{len(nexts)} next() call(s), step {fmt(a1, I)}")
        rep.eq(rid, "a fresh generator starts at 0", const(0), a0, file=fi2.file, line=fi2.node.lineno, function=fi2.qualname)
    else:
        rep.eq(rid, "get_next_id returns the counter's value before the increment, as a string", ("call", "str", (cnt,), ()), rv, **kw)
        new = st.ext.get((selft, N.ID_COUNTER)) if st else None
        sets = [(n, c) for n, c in nf.iter_nodes(tree) if n[0] == "setattr" and n[2] == N.ID_COUNTER]
        rep.ob(rid, "get_next_id increments the counter by one on every call", new is not None and lin_eq(new, ("binop", "Add", cnt, const(1))) and len(sets) == 1
               and not nf.guards_in_ctx(sets[0][1]), **kw, expected="self._id_counter += 1", found=fmt(new, I) if new else None)
        rep.eq(rid, "a fresh generator starts at 0", const(0), start, file=fi2.file, line=fi2.node.lineno, function=fi2.qualname)
    # writers of the counter, of id_generator attributes
    sites = 0
    gen_cls = I.facts.cls(GQ)
    # helpers of the generator that advance the counter on behalf of get_next_id: private methods called from nowhere else
    def callers_of(name):
        out = set()
        for g in _pkg_functions():
            for n in ast.walk(g.node):
                if isinstance(n, ast.Call) and ((isinstance(n.func, ast.Attribute) and n.func.attr == name) or (isinstance(n.func, ast.Name) and n.func.id == name)):
                    out.add(g.qualname)
        return out
    allowed = {q, I.facts.func(f"{GQ}.__init__").qualname}
    changed = True
    while changed:
        changed = False
        for m in gen_cls.methods.values():
            if m.qualname not in allowed and m.name.startswith("_") and not m.name.startswith("__") and callers_of(m.name) and callers_of(m.name) <= allowed:
                allowed.add(m.qualname)
                changed = True
    for f in _pkg_functions():
        for n in ast.walk(f.node):
            if library_counter and isinstance(n, ast.Attribute) and n.attr == N.ID_COUNTER and isinstance(n.ctx, ast.Load):
                # a library counter is advanced by whoever gets hold of it: every read belongs to the generator's own methods
                sites += 1
                rep.ob(rid, "the id counter is read (and so advanced) only by the generator's own get_next_id", f.qualname in allowed, file=f.file, line=n.lineno,
                       function=f.qualname, expected=sorted(allowed), found=f.qualname)
            if isinstance(n, ast.Attribute) and n.attr == N.ID_COUNTER and isinstance(n.ctx, (ast.Store, ast.Del)):
                sites += 1
                rep.ob(rid, "the id counter is written only by the generator's constructor and get_next_id (never rewound or reset)",
                       f.qualname in allowed, file=f.file, line=n.lineno, function=f.qualname, expected=sorted(allowed), found=f.qualname)
            if isinstance(n, ast.Attribute) and n.attr in {N.idgen_attr(q_) for q_ in ("gherkin.pickles.compiler.Compiler", "gherkin.ast_builder.AstBuilder")} and isinstance(n.ctx, (ast.Store, ast.Del)):
                rep.ob(rid, "id_generator attributes are bound once, in constructors", f.name == "__init__", file=f.file, line=n.lineno, function=f.qualname,
                       expected="__init__", found=f.name)
    rep.floor("id counter write sites", sites, 2)
    # every component that draws ids holds a generator: the one given, else a new one of its own
    for cq in ("gherkin.pickles.compiler.Compiler", "gherkin.ast_builder.AstBuilder"):
        I3 = new_interp()
        fi3 = I3.facts.cls(cq).find_method("__init__")
        if fi3 is None or len(fi3.params()) < 2:
            raise AnalysisError(f"anchor vanished: {cq}.__init__(id_generator)")
        tree3, rv3, st3 = I3.run(fi3.qualname)
        rep.used_function(fi3.qualname)
        s3, g3 = ("param", fi3.params()[0]), ("param", fi3.params()[1])
        v = st3.ext.get((s3, N.idgen_attr(cq))) if st3 else None
        ok = False
        if v is not None:
            dec = nf.decisions(v)
            isn = ("cmp", "Is", g3, NONE)
            ok = bool(dec) and all(set(a) <= {isn, g3} for a, _ in dec)
            defaulted = False
            for a, leaf in dec or []:
                given = not a.get(isn, False) and a.get(g3, True)
                if given:
                    ok = ok and leaf == g3
                else:
                    o = I3.obj(leaf)
                    ok = ok and isinstance(o, HInst) and o.cls.name == "IdGenerator" and o.origin[2] != 0
                    defaulted = True
            ok = ok and defaulted       # the 'none given' case must exist and yield a generator
        rep.ob(rid, f"{cq.rsplit('.', 1)[1]} draws from the generator it is given, or from a new generator of its own when none is given", ok,
               file=fi3.file, line=fi3.node.lineno, function=fi3.qualname, expected="self.id_generator = id_generator or IdGenerator()", found=fmt(v, I3) if v else "never bound")
    # default generators are created per instance, not shared through a mutable default
    rule_no_mutable_defaults(rep, rid)


def rule_no_mutable_defaults(rep: Report, rid="C15.shared") -> None:
    n = 0
    for f in _pkg_functions():
        a = f.node.args
        for d in list(a.defaults) + [x for x in a.kw_defaults if x is not None]:
            n += 1
            bad = isinstance(d, (ast.List, ast.Dict, ast.Set, ast.ListComp, ast.DictComp, ast.SetComp)) or \
                (isinstance(d, ast.Call) and not (isinstance(d.func, ast.Name) and d.func.id in ("frozenset", "tuple", "str", "int")))
            if bad:
                rep.ob(rid, "no parameter default is a mutable object shared between calls", False, file=f.file, line=d.lineno, function=f.qualname,
                       expected="None / immutable default", found=unparse(d))
    rep.ob(rid, "parameter defaults are immutable values", True, file="python/gherkin", function="(all functions)", expected="no mutable default", found=f"{n} default(s) inspected")


def rule_shared(rep: Report, rid="C15.shared") -> None:
    """No module-level or class-level mutable state is written."""
    f = facts()
    for fi in _pkg_functions():
        for n in walk_no_nested_defs(fi.node):
            if isinstance(n, ast.Global):
                rep.ob(rid, "no function rebinds a module global", False, file=fi.file, line=n.lineno, function=fi.qualname, expected="no global statement", found=unparse(n))
            # writes through the class object: ClassName.attr = ..., type(self).attr = ..., cls.attr = ...
            if isinstance(n, ast.Attribute) and isinstance(n.ctx, (ast.Store, ast.Del)):
                base = n.value
                is_cls = False
                if isinstance(base, ast.Name):
                    r = f.resolve_name(fi.module, base.id)
                    is_cls = (r is not None and r[0] == "class") or (base.id == "cls" and fi.is_classmethod)
                if isinstance(base, ast.Call) and isinstance(base.func, ast.Name) and base.func.id == "type":
                    is_cls = True
                if isinstance(base, ast.Attribute) and base.attr == "__class__":
                    is_cls = True
                if is_cls:
                    rep.ob(rid, "no code writes an attribute of a class object (state shared by all instances)", False, file=fi.file, line=n.lineno,
                           function=fi.qualname, expected="instance attributes only", found=unparse(n))
    nattr = 0
    for m in f.modules.values():
        if m.name == "gherkin.inout" or not _in_scope(m.name):
            continue
        for c in m.classes.values():
            if c.is_typeddict or any(x.is_typeddict for x in c.mro()):
                continue
            for name, val in c.class_attrs.items():
                nattr += 1
                mutable = isinstance(val, (ast.List, ast.Dict, ast.Set, ast.ListComp, ast.DictComp)) or \
                    (isinstance(val, ast.Call) and xdotted(val.func, m) in ("list", "dict", "set", "deque", "defaultdict", "collections.deque", "collections.defaultdict"))
                mutated = []
                if mutable:
                    for fi2 in _pkg_functions():
                        for n2 in ast.walk(fi2.node):
                            tgt = None
                            if isinstance(n2, ast.Call) and isinstance(n2.func, ast.Attribute) and n2.func.attr in Interp.MUTATORS:
                                tgt = n2.func.value
                            elif isinstance(n2, ast.Subscript) and isinstance(n2.ctx, (ast.Store, ast.Del)):
                                tgt = n2.value
                            elif isinstance(n2, ast.AugAssign):
                                tgt = n2.target
                            if isinstance(tgt, ast.Attribute) and tgt.attr == name:
                                mutated.append(f"{fi2.qualname}:{n2.lineno}")
                rep.ob(rid, f"class attribute {c.name}.{name} is never modified (a constant, or a table that is only read)", not mutated, file=m.rel, line=val.lineno,
                       function=c.qualname, expected="no in-place change of a class-level object", found=mutated or "read-only")
            # class attributes that instances mutate in place: read as self.X then mutated, without instance assignment
            inst_assigned = set()
            for fi in c.methods.values():
                for n in ast.walk(fi.node):
                    if isinstance(n, ast.Attribute) and isinstance(n.ctx, ast.Store) and isinstance(n.value, ast.Name) and n.value.id == "self":
                        inst_assigned.add(n.attr)
    rep.counts["class attributes inspected"] = nattr
    # module-level mutable objects other than the dialect table
    for m in f.modules.values():
        if m.name == "gherkin.inout" or not _in_scope(m.name):
            continue
        for name, val in m.globals.items():
            mutable = isinstance(val, (ast.List, ast.Dict, ast.Set)) and name not in ("RULE_TYPE", "__all__")
            if mutable:
                used_mut = False
                for fi in _pkg_functions():
                    for n in ast.walk(fi.node):
                        if isinstance(n, ast.Call) and isinstance(n.func, ast.Attribute) and n.func.attr in Interp.MUTATORS and isinstance(n.func.value, ast.Name) and n.func.value.id == name:
                            used_mut = True
                rep.ob(rid, f"module-level object {m.name}.{name} is never mutated", not used_mut, file=m.rel, line=val.lineno, function=m.name, expected="read-only", found="mutated" if used_mut else "read-only")
    # objects with a life of their own (a matcher, a builder, a scanner: classes whose methods change self after construction)
    # kept in a module-level container are handed to several users: one parse then resets or advances the other's
    for m in f.modules.values():
        if m.name == "gherkin.inout" or not _in_scope(m.name):
            continue
        for name, val in m.globals.items():
            if not (isinstance(val, (ast.List, ast.Dict, ast.Set)) or (isinstance(val, ast.Call) and xdotted(val.func, m) in (
                    "list", "dict", "set", "deque", "defaultdict", "collections.deque", "collections.defaultdict", "collections.OrderedDict", "OrderedDict",
                    "weakref.WeakValueDictionary", "WeakValueDictionary"))):
                continue
            kept = []
            for fi in _pkg_functions():
                if fi.module is not m and f.resolve_name(fi.module, name) is None:
                    continue
                for n in ast.walk(fi.node):
                    vals = []
                    if isinstance(n, ast.Assign) and any(isinstance(t, ast.Subscript) and isinstance(t.value, ast.Name) and t.value.id == name for t in n.targets):
                        vals = [n.value]
                    elif isinstance(n, ast.Call) and isinstance(n.func, ast.Attribute) and isinstance(n.func.value, ast.Name) and n.func.value.id == name \
                            and n.func.attr in ("setdefault", "append", "add", "insert", "appendleft", "update", "extend"):
                        vals = list(n.args[-1:]) + [k.value for k in n.keywords]
                    for v in vals:
                        c = _stateful_instance(fi, v)
                        if c:
                            kept.append(f"{fi.qualname}:{n.lineno} keeps a {c}")
            rep.ob(rid, f"module-level container {m.name}.{name} keeps no object that changes after construction (one shared by every user of the module)", not kept,
                   file=m.rel, line=val.lineno, function=m.name, expected="values only (nothing with per-parse state)", found=kept or "no stateful object stored")
    rule_no_mutable_defaults(rep, rid)


def _stateful_classes():
    """classes of the package whose methods write self after construction (reset, read, get_next_id, ...)"""
    f = facts()
    out = set()
    for c in f.all_classes():
        for fi in c.methods.values():
            if fi.name in ("__init__", "__new__", "__post_init__") or not fi.params():
                continue
            me = fi.params()[0]
            for n in ast.walk(fi.node):
                if isinstance(n, ast.Attribute) and isinstance(n.ctx, (ast.Store, ast.Del)) and isinstance(n.value, ast.Name) and n.value.id == me:
                    out.add(c.qualname)
                if isinstance(n, ast.Call) and isinstance(n.func, ast.Attribute) and n.func.attr in Interp.MUTATORS and isinstance(n.func.value, ast.Attribute) \
                        and isinstance(n.func.value.value, ast.Name) and n.func.value.value.id == me:
                    out.add(c.qualname)
    # subclasses inherit the behaviour
    grew = True
    while grew:
        grew = False
        for c in f.all_classes():
            if c.qualname not in out and any(b.qualname in out for b in c.mro()):
                out.add(c.qualname)
                grew = True
    return out


def _stateful_instance(fi, v):
    """qualified class name when expression `v` (in function fi) is a new instance of a stateful class - written as the call
    itself or as a name the function binds to such a call"""
    f = facts()
    st = _stateful_classes()

    def cls_of(e):
        if isinstance(e, ast.Call):
            nm = e.func
            r = None
            if isinstance(nm, ast.Name):
                r = f.resolve_name(fi.module, nm.id)
            elif isinstance(nm, ast.Attribute) and isinstance(nm.value, ast.Name):
                r0 = f.resolve_name(fi.module, nm.value.id)
                if r0 is not None and r0[0] == "module":
                    r = f.resolve_name(f.modules[r0[1]], nm.attr) if r0[1] in f.modules else None
            if r is not None and r[0] == "class":
                q = r[1] if isinstance(r[1], str) else getattr(r[1], "qualname", None)
                if q in st:
                    return q
        return None
    c = cls_of(v)
    if c:
        return c
    if isinstance(v, ast.Name):
        for n in ast.walk(fi.node):
            if isinstance(n, ast.Assign) and any(isinstance(t, ast.Name) and t.id == v.id for t in n.targets):
                c = cls_of(n.value)
                if c:
                    return c
            if isinstance(n, ast.NamedExpr) and n.target.id == v.id:
                c = cls_of(n.value)
                if c:
                    return c
    return None


MEMO_DECORATORS = ("lru_cache", "cache", "cached_property")


def _annotation_alternatives(a):
    """the alternatives of ``X | None`` / ``Optional[X]`` / ``Union[X, Y]`` (string annotations parsed)"""
    if isinstance(a, ast.Constant) and isinstance(a.value, str):
        try:
            a = ast.parse(a.value, mode="eval").body
        except SyntaxError:
            return []
    if isinstance(a, ast.BinOp) and isinstance(a.op, ast.BitOr):
        return _annotation_alternatives(a.left) + _annotation_alternatives(a.right)
    if isinstance(a, ast.Subscript):
        hn = a.value.attr if isinstance(a.value, ast.Attribute) else getattr(a.value, "id", "")
        if hn in ("Optional", "Union", "Annotated", "Final"):
            sl = a.slice.elts if isinstance(a.slice, ast.Tuple) else [a.slice]
            return [y for x in (sl[:1] if hn in ("Annotated", "Final") else sl) for y in _annotation_alternatives(x)]
    return [a]


def _decorator_name(d):
    if isinstance(d, ast.Call):
        d = d.func
    return d.attr if isinstance(d, ast.Attribute) else (d.id if isinstance(d, ast.Name) else "")


def rule_memo(rep: Report, rid="C15.memo") -> None:
    """A memoised function (functools.lru_cache / cache / cached_property) may depend only on its arguments: it reads no
    attribute that is assigned anywhere after construction and no module-level object that is changed in place - otherwise
    the remembered answer outlives the state it was computed from."""
    f = facts()
    n = 0
    for fi in _pkg_functions():
        decs = [_decorator_name(d) for d in fi.node.decorator_list]
        memo = [d for d in decs if d in MEMO_DECORATORS]
        if not memo:
            continue
        n += 1
        ps = fi.params()
        # attributes written outside constructors, per attribute name (any class: the receiver's class is not always known)
        late = set()
        for other in _pkg_functions():
            if other.name in ("__init__", "__new__", "__post_init__"):
                continue
            for x in ast.walk(other.node):
                if isinstance(x, ast.Attribute) and isinstance(x.ctx, (ast.Store, ast.Del)):
                    late.add(x.attr)
                if isinstance(x, ast.Call) and isinstance(x.func, ast.Attribute) and x.func.attr in Interp.MUTATORS and isinstance(x.func.value, ast.Attribute):
                    late.add(x.func.value.attr)
        stale = []
        for x in ast.walk(fi.node):
            if isinstance(x, ast.Attribute) and isinstance(x.ctx, ast.Load) and isinstance(x.value, ast.Name) and x.value.id in ps and x.attr in late:
                stale.append(f"{x.value.id}.{x.attr} (line {x.lineno})")
        if "cached_property" not in memo and fi.cls is not None and not fi.is_static and ps:
            # a memoised *method* remembers its answer per (self, arguments): what it reads from a public attribute of self may have
            # been rebound by the caller since (``parser.ast_builder = other``) - the package's own stores are not the only ones
            for x in ast.walk(fi.node):
                if isinstance(x, ast.Attribute) and isinstance(x.ctx, ast.Load) and isinstance(x.value, ast.Name) and x.value.id == ps[0] \
                        and not x.attr.startswith("_") and fi.cls.find_method(x.attr) is None and x.attr not in late:
                    stale.append(f"{x.value.id}.{x.attr} (line {x.lineno}; a public attribute the caller may rebind)")
        if stale and "cached_property" in memo and fi.cls is not None:
            # a remembered value may depend on attributes that change later when every function that stores one of them also
            # drops the remembered value afterwards (``self.__dict__.pop(name, None)``, ``del self.__dict__[name]``, ``del self.name``,
            # at the function's top level, after the last such store) - the next read computes it again
            attrs = {x.attr for x in ast.walk(fi.node) if isinstance(x, ast.Attribute) and isinstance(x.ctx, ast.Load) and isinstance(x.value, ast.Name)
                     and x.value.id in ps and x.attr in late}
            # only direct stores through ``self`` in the class (and its subclasses) are understood; anything else keeps the verdict
            understood = True
            for other in _pkg_functions():
                for x in ast.walk(other.node):
                    hit = None
                    if isinstance(x, ast.Attribute) and isinstance(x.ctx, (ast.Store, ast.Del)) and x.attr in attrs:
                        hit = x
                    if isinstance(x, ast.Call) and isinstance(x.func, ast.Attribute) and x.func.attr in Interp.MUTATORS and isinstance(x.func.value, ast.Attribute) \
                            and x.func.value.attr in attrs:
                        hit = x.func.value
                    if hit is None or other.name in ("__init__", "__new__", "__post_init__"):
                        continue
                    me = other.params()[0] if other.params() and other.cls is not None else None
                    in_family = other.cls is not None and (fi.cls in other.cls.mro() or other.cls in fi.cls.mro())
                    if not (in_family and isinstance(hit.value, ast.Name) and hit.value.id == me):
                        understood = False
                        continue
                    last_store = max(getattr(y, "lineno", 0) for y in ast.walk(other.node) if isinstance(y, ast.Attribute) and y.attr in attrs
                                     and isinstance(y.ctx, (ast.Store, ast.Del)))
                    dropped = False
                    for st_ in other.node.body:
                        if st_.lineno <= last_store:
                            continue
                        for y in ast.walk(st_):
                            inst_dict = isinstance(y, ast.Call) and isinstance(y.func, ast.Attribute) and y.func.attr == "pop" and (
                                (isinstance(y.func.value, ast.Attribute) and y.func.value.attr == "__dict__" and isinstance(y.func.value.value, ast.Name)
                                 and y.func.value.value.id == me)
                                or (isinstance(y.func.value, ast.Call) and isinstance(y.func.value.func, ast.Name) and y.func.value.func.id == "vars"
                                    and len(y.func.value.args) == 1 and isinstance(y.func.value.args[0], ast.Name) and y.func.value.args[0].id == me))
                            if inst_dict and len(y.args) == 2 and isinstance(y.args[0], ast.Constant) and y.args[0].value == fi.name and isinstance(st_, ast.Expr):
                                dropped = True
                        # ``with suppress(AttributeError): del self.<name>`` - a block of its own (a second ``del`` in the same block
                        # would be skipped when the first one raises)
                        if isinstance(st_, ast.With) and len(st_.items) == 1 and isinstance(st_.items[0].context_expr, ast.Call) \
                                and getattr(st_.items[0].context_expr.func, "id", getattr(st_.items[0].context_expr.func, "attr", "")) == "suppress" \
                                and len(st_.body) == 1 and isinstance(st_.body[0], ast.Delete) and len(st_.body[0].targets) == 1:
                            t = st_.body[0].targets[0]
                            if isinstance(t, ast.Attribute) and t.attr == fi.name and isinstance(t.value, ast.Name) and t.value.id == me:
                                dropped = True
                            if False and isinstance(st_, ast.Delete) and any(
                                    (isinstance(t, ast.Subscript) and isinstance(t.value, ast.Attribute) and t.value.attr == "__dict__" and isinstance(t.slice, ast.Constant)
                                     and t.slice.value == fi.name) or (isinstance(t, ast.Attribute) and t.attr == fi.name and isinstance(t.value, ast.Name) and t.value.id == me)
                                    for t in st_.targets):
                                # (``del`` of a value that was never computed raises: only the pop form is total - left to C01)
                                dropped = True
                    if not dropped:
                        understood = False
            if understood:
                stale = []
        # the cache hashes every argument: a parameter that takes a dictionary / list / set (by its annotation, TypedDicts of
        # the package included) makes each such call a TypeError
        unhash = []
        a_ = fi.node.args
        for p_ in a_.posonlyargs + a_.args + a_.kwonlyargs:
            if p_.annotation is None or (fi.cls is not None and not fi.is_static and p_ is (a_.posonlyargs + a_.args)[0]):
                continue
            for alt in _annotation_alternatives(p_.annotation):
                head = alt.value if isinstance(alt, ast.Subscript) else alt
                hn = head.attr if isinstance(head, ast.Attribute) else (head.id if isinstance(head, ast.Name) else "")
                c_ = f.resolve_class(fi.module, hn) if hn else None
                if hn in ("dict", "list", "set", "Dict", "List", "Set", "defaultdict", "DefaultDict", "deque", "MutableMapping", "MutableSequence", "MutableSet", "bytearray") \
                        or (c_ is not None and (c_.is_typeddict or any(x.is_typeddict for x in c_.mro()))):
                    unhash.append(f"{p_.arg}: {unparse(p_.annotation)}")
        if "cached_property" not in memo:
            rep.ob(rid, f"memoised {fi.qualname} takes hashable arguments only (the cache hashes them at every call)", not unhash, file=fi.file, line=fi.node.lineno,
                   function=fi.qualname, expected="str / int / tuple / None parameters", found=unhash or "no unhashable parameter type")
        shared = [f"returns a {c} (line {x.lineno})" for x in ast.walk(fi.node) if isinstance(x, ast.Return) and x.value is not None
                  for c in [_stateful_instance(fi, x.value)] if c]
        rep.ob(rid, f"memoised {fi.qualname} hands out no object that changes after construction (every caller would get the same one)", not shared, file=fi.file,
               line=fi.node.lineno, function=fi.qualname, expected="a value", found=shared or "no stateful object returned")
        rep.ob(rid, f"memoised {fi.qualname} depends only on its arguments (no attribute that changes after construction)", not stale, file=fi.file,
               line=fi.node.lineno, function=fi.qualname, expected="pure function of hashable arguments", found=sorted(set(stale)) or "no mutable state read")
    rep.counts["memoised functions inspected"] = n


ONE_SHOT = ("chain", "map", "filter", "zip", "iter", "reversed", "enumerate", "islice", "accumulate", "takewhile", "dropwhile", "starmap",
            "from_iterable", "finditer", "zip_longest", "groupby", "pairwise")
CONSUMERS = ("list", "tuple", "sorted", "set", "frozenset", "sum", "any", "all", "max", "min", "dict", "join", "extend", "deque")
PARTIAL = ("next", "islice", "zip", "takewhile", "dropwhile")


def rule_iterators(rep: Report, rid="C15.iter", files=None) -> None:
    """A one-shot iterator (chain/map/filter/zip/generator ...) bound to a local name yields its elements once.  It must not be
    walked again on a later round of a loop it was created outside of (directly, or by handing it to a call made there), nor
    walked to the end twice in a row: the second walk sees nothing."""
    from ..astutil import walk_no_nested_defs
    f = facts()
    gens = {fn.qualname for fn in f.all_functions() if any(isinstance(x, (ast.Yield, ast.YieldFrom)) for x in walk_no_nested_defs(fn.node))}
    nb = 0
    for fi in _pkg_functions():
        if files is not None and fi.file not in files:
            continue
        parents = {}
        for p_ in ast.walk(fi.node):
            for ch in ast.iter_child_nodes(p_):
                parents[ch] = p_

        def one_shot(v):
            if isinstance(v, ast.GeneratorExp):
                return True
            if isinstance(v, ast.Call):
                nm = v.func.attr if isinstance(v.func, ast.Attribute) else (v.func.id if isinstance(v.func, ast.Name) else "")
                if nm in ONE_SHOT:
                    return True
                r = None
                if isinstance(v.func, ast.Name):
                    r = f.resolve_name(fi.module, v.func.id)
                    if r is not None and r[0] == "func" and r[1].qualname in gens:
                        return True
                if isinstance(v.func, ast.Attribute) and isinstance(v.func.value, ast.Name) and fi.cls is not None and fi.params() and v.func.value.id == fi.params()[0]:
                    m = fi.cls.find_method(v.func.attr)
                    if m is not None and m.qualname in gens:
                        return True
            return False

        def loops_of(node):
            out = []
            cur = node
            while cur in parents:
                par = parents[cur]
                if isinstance(par, (ast.For, ast.While)) and cur in par.body + par.orelse:
                    out.append(par)
                if isinstance(par, (ast.ListComp, ast.SetComp, ast.DictComp, ast.GeneratorExp)) and (cur is not par.generators[0].iter) \
                        and not (isinstance(cur, ast.comprehension) and cur is par.generators[0]):
                    out.append(par)
                cur = par
            return out
        binds = {}
        for x in walk_no_nested_defs(fi.node):
            if isinstance(x, ast.Assign) and len(x.targets) == 1 and isinstance(x.targets[0], ast.Name):
                binds.setdefault(x.targets[0].id, []).append(x)
            elif isinstance(x, ast.AnnAssign) and isinstance(x.target, ast.Name) and x.value is not None:
                binds.setdefault(x.target.id, []).append(x)
        for name, bs in binds.items():
            if not all(one_shot(b.value) for b in bs):
                continue            # also bound to something re-iterable: not tracked
            nb += 1
            for b in bs:
                bloops = loops_of(b)
                full = []
                for u in walk_no_nested_defs(fi.node):
                    if not (isinstance(u, ast.Name) and u.id == name and isinstance(u.ctx, ast.Load)) or u.lineno < b.lineno:
                        continue
                    par = parents.get(u)
                    callee = ""
                    if isinstance(par, ast.Call) and u in par.args:
                        callee = par.func.attr if isinstance(par.func, ast.Attribute) else (par.func.id if isinstance(par.func, ast.Name) else "")
                    if callee in PARTIAL:
                        continue            # takes some elements only: sharing the iterator is the point
                    uloops = [l for l in loops_of(u) if l not in bloops]
                    iter_src = (isinstance(par, (ast.For, ast.comprehension)) and par.iter is u) or callee in CONSUMERS or isinstance(par, ast.Starred)
                    if isinstance(par, ast.For) and par.iter is u:
                        uloops = [l for l in uloops if l is not par]
                    if uloops and not isinstance(par, (ast.Compare, ast.BoolOp, ast.UnaryOp, ast.If, ast.While, ast.IfExp)):
                        rep.ob(rid, f"one-shot iterator '{name}' is not walked again on later rounds of a loop", False, file=fi.file, line=u.lineno,
                               function=fi.qualname, expected=f"a list (or the iterator created inside the loop): it is created at line {b.lineno}, outside the loop at line {uloops[-1].lineno}",
                               found=ast.unparse(par)[:100])
                    elif iter_src:
                        full.append(u)
                if len(full) > 1:
                    # two complete walks: fine only when they sit in different arms of one if
                    def arms(u):
                        out, cur = [], u
                        while cur in parents:
                            par = parents[cur]
                            if isinstance(par, ast.If):
                                out.append((par, "body" if cur in par.body else ("else" if cur in par.orelse else "test")))
                            cur = par
                        return out
                    a0, a1 = arms(full[0]), arms(full[1])
                    exclusive = any(i0 is i1 and s0 != s1 and "test" not in (s0, s1) for i0, s0 in a0 for i1, s1 in a1)
                    if not exclusive:
                        rep.ob(rid, f"one-shot iterator '{name}' is walked to the end once", False, file=fi.file, line=full[1].lineno, function=fi.qualname,
                               expected="one complete walk (or a list)", found=f"walked at lines {full[0].lineno} and {full[1].lineno}")
    rep.ob(rid, "no one-shot iterator is walked more than once", True, file="python/gherkin", function="(all functions)", expected="single consumption",
           found=f"{nb} local iterator binding(s) inspected")


# the modules whose behaviour each property is a statement about (a hidden state elsewhere cannot break it)
ALL = None
FRONT = ("token_scanner", "gherkin_line", "token", "token_matcher", "dialect", "parser", "errors")
SCOPES = {
    "C01": ALL, "C15": ALL,
    "C02": FRONT + ("ast_builder", "ast_node"),
    "C03": FRONT + ("ast_builder", "ast_node"),
    "C04": FRONT + ("ast_builder", "ast_node"),
    "C05": FRONT + ("ast_builder", "ast_node"),
    "C06": ("compiler",), "C07": ("compiler",), "C08": ("compiler",), "C09": ("compiler",),
    "C10": ("compiler", "token_matcher", "dialect", "gherkin_line", "ast_builder", "ast_node", "parser"),
    "C11": ("compiler", "ast_builder", "ast_node", "id_generator", "gherkin_events", "parser"),
    "C12": FRONT + ("ast_builder", "ast_node"),
    "C13": FRONT + ("ast_builder", "ast_node"),
    "C14": FRONT + ("ast_builder", "ast_node", "gherkin_events"),
    "C16": FRONT + ("ast_builder", "ast_node", "source_events", "compiler"),
    "C17": ALL,
    "C18": ("token_scanner", "gherkin_line", "token", "parser", "errors", "token_formatter_builder", "token_matcher", "dialect"),
    "C19": ("token_matcher_markdown", "token_matcher", "dialect", "gherkin_line", "token", "token_scanner"),
}
CLASS_MODULE = {"gherkin.token_matcher.TokenMatcher": "token_matcher", "gherkin.token_matcher_markdown.GherkinInMarkdownTokenMatcher": "token_matcher_markdown",
                "gherkin.ast_builder.AstBuilder": "ast_builder", "gherkin.token_formatter_builder.TokenFormatterBuilder": "token_formatter_builder"}


def rule_stateless(rep: Report, prefix: str) -> None:
    """Nothing survives from one call / instance / document to the next except through the documented state - in the modules
    the property is about: any hidden state there makes a second use behave differently from the first."""
    from . import matcher_rules as mr, dialect_rules as dr
    scope = SCOPES.get(prefix, ALL)
    _SCOPE[0] = scope
    try:
        classes = tuple(c for c, m_ in CLASS_MODULE.items() if scope is None or m_ in scope)
        if classes:
            mr.rule_reset(rep, f"{prefix}.reset", classes=classes)
        rule_inst(rep, f"{prefix}.inst")
        rule_shared(rep, f"{prefix}.shared")
        if scope is None or "dialect" in scope:
            dr.rule_shared_table(rep, f"{prefix}.shared")
        rule_memo(rep, f"{prefix}.memo")
        rule_iterators(rep, f"{prefix}.iter")
        from . import totality_rules as tr_
        tr_.rule_oneshot_flow(rep, f"{prefix}.iter")
    finally:
        _SCOPE[0] = None


def rule_inst(rep: Report, rid="C15.inst") -> None:
    """Parser and Compiler carry no per-parse state: nothing reachable from parse()/compile() writes their attributes."""
    f = facts()
    for cq, ctor_only in (("gherkin.parser.Parser", True), ("gherkin.pickles.compiler.Compiler", True), ("gherkin.parser.ParserContext", True),
                          ("gherkin.stream.gherkin_events.GherkinEvents", True)):
        if not _in_scope(cq.rsplit(".", 1)[0]):
            continue
        cls = f.cls(cq)
        n_sites = 0
        for fi in cls.methods.values():
            aliases = {}
            for n in ast.walk(fi.node):
                if isinstance(n, ast.Assign) and len(n.targets) == 1 and isinstance(n.targets[0], ast.Name) and isinstance(n.value, ast.Attribute) \
                        and isinstance(n.value.value, ast.Name) and n.value.value.id == "self":
                    aliases[n.targets[0].id] = n.value.attr
            for n in ast.walk(fi.node):
                w = None
                if isinstance(n, ast.Attribute) and isinstance(n.ctx, (ast.Store, ast.Del)) and isinstance(n.value, ast.Name) and n.value.id == "self":
                    w = f"self.{n.attr} (assignment)"
                if isinstance(n, ast.Call) and isinstance(n.func, ast.Attribute) and n.func.attr in Interp.MUTATORS and isinstance(n.func.value, ast.Name) \
                        and n.func.value.id in aliases:
                    w = f"{n.func.value.id}.{n.func.attr}() on an alias of self.{aliases[n.func.value.id]}"
                if isinstance(n, ast.Subscript) and isinstance(n.ctx, (ast.Store, ast.Del)) and isinstance(n.value, ast.Name) and n.value.id in aliases:
                    w = f"{n.value.id}[...] = ... on an alias of self.{aliases[n.value.id]}"
                if isinstance(n, ast.Call) and isinstance(n.func, ast.Attribute) and n.func.attr in Interp.MUTATORS and isinstance(n.func.value, ast.Attribute) \
                        and isinstance(n.func.value.value, ast.Name) and n.func.value.value.id == "self":
                    w = f"self.{n.func.value.attr}.{n.func.attr}() (in-place change)"
                if isinstance(n, ast.Subscript) and isinstance(n.ctx, (ast.Store, ast.Del)) and isinstance(n.value, ast.Attribute) and isinstance(n.value.value, ast.Name) \
                        and n.value.value.id == "self":
                    w = f"self.{n.value.attr}[...] (item assignment)"
                if w is None:
                    continue
                n_sites += 1
                rep.ob(rid, f"{cls.name} keeps no state across calls: its attributes are only set by the constructor", fi.name == "__init__",
                       file=fi.file, line=n.lineno, function=fi.qualname, expected="written in __init__ only", found=w)
        rep.counts[f"{cls.name} attribute write sites"] = n_sites
    # parse() itself writes no Parser attribute (normal form: no setattr on self)
    from ..frame import parse_nf
    P = parse_nf()
    kw = dict(file="python/gherkin/parser.py", line=P.fi.node.lineno, function=P.fi.qualname)
    sw = [n for n, c in P.flat if n[0] in ("setattr", "delattr") and n[1] == P.selft]
    rep.ob(rid, "parse() writes no Parser attribute", not sw, **kw, expected="locals and the per-parse context only", found=[n[2] for n in sw])


def rule_parse_resets(rep: Report, rid="C15.reset") -> None:
    from ..frame import parse_nf
    P = parse_nf()
    I = P.I
    kw = dict(file="python/gherkin/parser.py", line=P.fi.node.lineno, function=P.fi.qualname)
    first = min([P.index(n) for n, c in P.ev("read_token") + P.ev("start_rule")], default=-1)
    rb = P.ev("reset_builder")
    ok = len(rb) == 1 and rb[0][0][2][0] == ("attr", P.selft, N.PARSER_BUILDER) and P.index(rb[0][0]) < first and not nf.guards_in_ctx(rb[0][1]) and not nf.loops_in_ctx(rb[0][1])
    rep.ob(rid, "parse() resets the builder unconditionally before anything is started or read", ok, **kw, expected="self.ast_builder.reset() first",
           found=[n[1] for n, c in P.events][:8])
    # the matcher used: the context's matcher; every alternative of it is reset before the first read
    M = P.ctx_attr(N.CTX_MATCHER)
    alts = []
    def collect(t):
        if t is not None and t[0] == "cond":
            collect(t[2]); collect(t[3])
        elif t is not None:
            alts.append(t)
    collect(M)
    rm = P.ev("reset_matcher")
    reset_objs = [n[2][0] for n, c in rm]
    only_choice_guards = all(all(g[0][0] == "cmp" and g[0][1] == "Is" for g in nf.guards_in_ctx(c)) and not nf.loops_in_ctx(c) and P.index(n) < first for n, c in rm)
    ok = bool(alts) and sorted(map(str, alts)) == sorted(map(str, reset_objs)) and only_choice_guards
    rep.ob(rid, "parse() resets the token matcher it is going to use, unconditionally, before the first token is read", ok, **kw,
           expected="matcher.reset() before read_token, for the matcher stored in the context", found={"context matcher": fmt(M, I) if M else None, "reset": [fmt(x, I) for x in reset_objs]})
    e, q = P.ctx_attr(N.CTX_ERRORS), P.ctx_attr(N.CTX_QUEUE)
    eo, qo = (I.obj(e) if e else None), (I.obj(q) if q else None)
    ok = isinstance(eo, HList) and not eo.segs and eo.origin[2] != 0 and isinstance(qo, HList) and not qo.segs and qo.origin[2] != 0 and e != q
    ctx_o = I.obj(P.ctx) if P.ctx else None
    rep.ob(rid, "each parse gets a fresh context: empty error list and empty look-ahead queue", ok and ctx_o is not None, **kw,
           expected="ParserContext(scanner, matcher, deque(), [])", found={"errors": fmt(e, I) if e else None, "token_queue": fmt(q, I) if q else None})
    # a default matcher is a new object per parse
    ok = False
    if M is not None and M[0] == "cond" and P.matcher_param is not None:
        c = M[1]
        new, given = (M[2], M[3]) if c == ("cmp", "Is", P.matcher_param, NONE) else ((M[3], M[2]) if c == mk_not(("cmp", "Is", P.matcher_param, NONE)) else (None, None))
        o = I.obj(new) if new else None
        ok = isinstance(o, HInst) and o.cls.name.endswith("TokenMatcher") and o.origin[2] != 0 and given == P.matcher_param
    rep.ob(rid, "without an explicit matcher each parse creates its own TokenMatcher (no matcher shared between parses or parsers)", ok, **kw,
           expected="TokenMatcher() if token_matcher is None else token_matcher", found=fmt(M, I) if M else None)


DET_BAD_CALLS = {"id", "hash", "random", "randint", "choice", "shuffle", "time", "time_ns", "monotonic", "perf_counter", "now", "today", "uuid4", "uuid1",
                 "getenv", "urandom", "getpid"}
DET_BAD_MODULES = {"random", "time", "datetime", "uuid", "secrets"}


def rule_det(rep: Report, rid="C15.det") -> None:
    n = 0
    for fi in _pkg_functions():
        if fi.module.name.startswith("scripts"):
            continue
        for node in walk_no_nested_defs(fi.node):
            bad = None
            if isinstance(node, ast.Call):
                nm = xdotted(node.func, fi.module) or ""
                last = nm.rsplit(".", 1)[-1]
                n += 1
                if (isinstance(node.func, ast.Name) and last in ("id", "hash")) or (nm.split(".")[0] in DET_BAD_MODULES) or (last in DET_BAD_CALLS and "." in nm and nm.split(".")[0] in DET_BAD_MODULES | {"os"}):
                    bad = nm
            if isinstance(node, (ast.For, ast.comprehension)) and isinstance(node.iter, (ast.Set, ast.SetComp)):
                bad = "iteration over a set display (order of strings varies between runs)"
            if isinstance(node, (ast.For, ast.comprehension)) and isinstance(node.iter, ast.Call) and isinstance(node.iter.func, ast.Name) \
                    and node.iter.func.id in ("set", "frozenset"):
                bad = "iteration over set(...) (order of strings varies between runs)"
            if isinstance(node, ast.Call) and isinstance(node.func, (ast.Name, ast.Attribute)) and len(node.args) >= 1 \
                    and (getattr(node.func, "id", None) in ("list", "tuple", "enumerate", "iter", "next", "zip", "map", "filter", "chain") or getattr(node.func, "attr", None) in ("join", "extend", "chain")) \
                    and any(isinstance(a, (ast.Set, ast.SetComp)) or (isinstance(a, ast.Call) and isinstance(a.func, ast.Name) and a.func.id in ("set", "frozenset")) for a in node.args):
                bad = "a set turned into a sequence (order of strings varies between runs); sorted(...) gives a fixed order"
            if isinstance(node, (ast.Attribute, ast.Name)) and xdotted(node, fi.module) in ("os.environ",):
                bad = "os.environ"
            if bad:
                rep.ob(rid, "results depend only on the input (no clock, randomness, object identity, hash order or environment)", False,
                       file=fi.file, line=getattr(node, "lineno", getattr(getattr(node, "iter", None), "lineno", fi.node.lineno)), function=fi.qualname,
                       expected="deterministic operations", found=bad)
    mods = set()
    for m in facts().modules.values():
        if m.name.startswith("gherkin") and m.name != "gherkin.inout":
            for nm, (mod, attr) in m.imports.items():
                if mod.split(".")[0] in DET_BAD_MODULES:
                    rep.ob(rid, "no module imports a source of nondeterminism", False, file=m.rel, function=m.name, expected="none of " + ", ".join(sorted(DET_BAD_MODULES)), found=mod)
    rep.ob(rid, "no nondeterminism source is used anywhere in the package", True, file="python/gherkin", function="(all functions)", expected="none", found=f"{n} call sites inspected")
    rep.floor("call sites inspected for determinism", n, 60)


def rule_formatter(rep: Report, rid="C18.fmt") -> None:
    q = "gherkin.token_formatter_builder.TokenFormatterBuilder"
    f = facts()
    cls = f.cls(q)
    rep.used_file(cls.module.rel)
    # build appends every token; reset clears; start/end_rule do nothing
    I = new_interp()
    fi = cls.find_method("build")
    tree, rv, st = I.run(fi.qualname)
    rep.used_function(fi.qualname)
    selft, tok = ("param", fi.params()[0]), ("param", fi.params()[1])
    muts = [(n, c) for n, c in nf.iter_nodes(tree) if n[0] == "mutate"]
    ok = len(muts) == 1 and muts[0][0][1] == ("attr", selft, N.FMT_TOKENS) and muts[0][0][2] == "append" and muts[0][0][3] == (tok,) and not nf.guards_in_ctx(muts[0][1])
    rep.ob(rid, "the token listing records every token it is given, in order, unconditionally", ok, file=fi.file, line=fi.node.lineno, function=fi.qualname,
           expected="self._tokens.append(token)", found=[(n[2], [(fmt(a, I), p) for a, p in nf.guards_in_ctx(c)]) for n, c in muts])
    for name in ("__init__", "reset"):
        fi0 = cls.find_method(name)
        ok = False
        v = None
        if fi0 is not None and fi0.cls is cls:
            I0 = new_interp()
            I0.types[("param", fi0.params()[0])] = cls
            t0, r0, s0 = I0.run(fi0.qualname)
            v = s0.ext.get((("param", fi0.params()[0]), N.FMT_TOKENS)) if s0 else None
            o0 = I0.obj(v) if v else None
            ok = isinstance(o0, HList) and not nf.list_content(I0, v, t0) and o0.origin[2] != 0
        rep.ob(rid, f"the token listing starts empty after {name}()", ok, file=cls.module.rel, line=fi0.node.lineno if fi0 else None, function=f"{q}.{name}",
               expected="self._tokens = []", found=fmt(v, I0) if v else "no fresh list bound")
    for name in ("start_rule", "end_rule"):
        fi2 = cls.find_method(name)
        I2 = new_interp()
        t2, r2, s2 = I2.run(fi2.qualname)
        eff = [n for n, _ in nf.iter_nodes(t2) if n[0] in ("mutate", "setattr", "setitem", "raise")]
        rep.ob(rid, f"the token listing ignores {name} (it has no rule stack to corrupt)", fi2.cls is cls and not eff, file=fi2.file, line=fi2.node.lineno, function=fi2.qualname,
               expected="no effect", found=[n[0] for n in eff])
    fi3 = cls.find_method("get_result")
    I3 = new_interp()
    I3.types[("param", fi3.params()[0])] = cls
    t3, r3, s3 = I3.run(fi3.qualname)
    rep.used_function(fi3.qualname)
    s = ("param", fi3.params()[0])
    ok = r3[0] == "call" and r3[1] == ".join" and is_const(r3[2][0], "\n") and r3[2][1][0] == "ref"
    if ok:
        segs = nf.list_content(I3, r3[2][1], t3)
        ok = len(segs) == 1 and segs[0][0] == "loop" and I3.loops[segs[0][1]].get("iter") == ("attr", s, N.FMT_TOKENS) and not I3.loops[segs[0][1]].get("conds") \
            and len(segs[0][2]) == 1 and segs[0][2][0][0] == "e"
    rep.ob(rid, "the listing is one formatted line per recorded token, joined by line feeds", ok, file=fi3.file, line=fi3.node.lineno, function=fi3.qualname,
           expected="'\\n'.join(self._format_token(t) for t in self._tokens)", found=fmt(r3, I3))
    # the formatting of one token: the element expression of the joined list (whatever helper computes it, inlined)
    if not ok:
        return
    fi4, I4, t4 = fi3, I3, t3
    tok = ("elem", segs[0][1])
    r4 = segs[0][2][0][1]
    line = ("attr", tok, "line")
    eof_guard = r4[0] == "cond" and r4[1] == line and is_const(r4[3], "EOF")
    body = r4[2] if eof_guard else r4
    rep.ob(rid, "the EOF token is listed as 'EOF'", eof_guard, file=fi4.file, line=fi4.node.lineno, function=fi4.qualname, expected="'EOF' if token.eof()", found=fmt(r4, I4)[:200])
    loc = ("attr", tok, "location")
    kwt, kwd, txt, items = ("attr", tok, "matched_keyword_type"), ("attr", tok, "matched_keyword"), ("attr", tok, "matched_text"), ("attr", tok, "matched_items")
    mtype = ("attr", tok, "matched_type")
    stringy = lambda x: x in (kwt, kwd, txt, mtype)
    got = nf.str_nf(I4, body, t4, stringy)
    # expected normal form: ( line : col ) type : [ ( kwtype ) kw ] / text / col:item,...
    ok = False
    found = fmt(got, I4)[:400] if got and got[0] != "cat" else [fmt(p_, I4)[:80] for p_ in got[1]]
    if got[0] == "cat" and len(got[1]) == 12:
        P_ = got[1]
        def text_of(t, mapping):
            """the string a piece spells once the optional fields it reads are given values (None, empty, some text)"""
            r = nf.simplify(I4, t, mapping)
            if isinstance(r, tuple) and r and r[0] == "cat":
                parts_ = [text_of(x, mapping) for x in r[1]]
                return "".join(parts_) if all(isinstance(x, str) for x in parts_) else None
            return r[1] if is_const(r) and isinstance(r[1], str) else None
        vals = (None, "", "K", "Given ")
        # optional fields are strings or None: decided by those values, whichever way "missing" is tested
        oktxt = all(text_of(P_[9], {txt: const(v)}) == (v or "") for v in vals)
        okkw = all(text_of(P_[7], {kwd: const(k), kwt: const(t_)}) == (("(" + (t_ or "") + ")" + k) if k else "") for k in vals for t_ in vals)
        fixed = P_[0] == const("(") and P_[1] == ("call", "str", (("item", loc, const("line")),), ()) and P_[2] == const(":") \
            and P_[3] == ("call", "str", (("item", loc, const("column")),), ()) and P_[4] == const(")") and P_[5] == mtype and P_[6] == const(":") \
            and P_[8] == const("/") and oktxt and P_[10] == const("/")
        okitems = False
        it = P_[11]
        if it[0] == "join" and it[1] == "," and len(it[2]) == 1 and it[2][0][0] == "loop":
            lid = it[2][0][1]
            el = ("elem", lid)
            want = ("cat", (("call", "str", (("item", el, const("column")),), ()), const(":"), ("item", el, const("text"))))
            okitems = I4.loops[lid].get("iter") == items and not I4.loops[lid].get("conds") and it[2][0][2] == (("e", want),)
        ok = fixed and okkw and okitems
    rep.ob(rid, "a listed line is '(line:column)Kind:(keyword type)keyword/text/col:item,...' built from the token's matched fields", ok,
           file=fi4.file, line=fi4.node.lineno, function=fi4.qualname, expected="(L:C)type:[(kwtype)kw]/text/items", found=found)
