"""C18 - the builder sees each source line exactly once, in order, then one EOF."""
from . import matcher_rules as mr, parser_rules as pr, line_rules as lr, misc_rules as ms, error_rules as er

META = {
    "level": "other",
    "explanation": "On the extracted automaton every one of the 334 transitions ends with exactly one build(context, token) of the "
                   "current token after its start/end_rule productions and no error tail builds (a line is delivered or reported, never "
                   "both or neither); the parse loop reads one token per iteration and stops at EOF only. Look-ahead queue discipline: "
                   "each token read ahead is appended to the local queue before any exit, the loop has only break exits, exactly one "
                   "token_queue.extend(queue) follows, read_token pops from the left before asking the scanner, the queue is a fresh "
                   "deque per parse and touched by nobody else; all look-aheads share one skip set disjoint from their expected tokens "
                   "(so nested look-ahead re-queues in order). Scanner: one token per readline, EOF token when exhausted. The token "
                   "formatter records every token and prints the documented line format.",
    "assumptions": ["deque.extend/popleft are FIFO", "equality with the corpus' reference listings needs execution and is not claimed"],
}


def run(rep):
    pr.rule_shape(rep, "C18.shape")
    pr.rule_once(rep)
    pr.rule_queue(rep)
    pr.rule_nest(rep)
    pr.rule_look(rep, "C18.look")
    pr.rule_parse_frame(rep, "C18.loop")
    pr.rule_glue(rep, "C18.glue")
    lr.rule_scanner(rep, "C18.line", "C18.scan")
    lr.rule_token(rep, "C18.token")
    ms.rule_formatter(rep)
    # what the listing prints per token (position, kind, keyword, text, items) is what the matcher's sink stored
    mr.rule_sink(rep, "C18.col", "C18.crlf", want=("col", "crlf", "fields"))
    # the items of a TableRow token are the cells the splitter made of the row (one item per cell, at its column)
    lr.rule_split(rep, "C18.split", "C18.cellcol")
    lr.rule_split_init(rep, "C18.cells")
    mr.rule_token_table(rep, "C18.row", "C18.rowcol")
    # "delivered or reported": only an identical message (which includes the position) is reported once
    er.rule_cap(rep, "C18.cap")
    # no hidden state: what the property promises for one use must hold for every later use as well
    ms.rule_stateless(rep, "C18")
