"""C16 - layout is meaning-neutral."""
from . import line_rules as lr, matcher_rules as mr, parser_rules as pr, builder_rules as br, error_rules as er, dialect_rules as dr
from . import misc_rules as ms

META = {
    "level": "other",
    "explanation": "C16 relates pairs of inputs; decided here are the normalisation points without which the relation fails: the source "
                   "file is read as UTF-8 with newline='' and the scanner splits with readline only; the single sink strips trailing "
                   "CR/LF from every kind's text; all keyword/tag/row/delimiter tests and extractions read the left-trimmed line and "
                   "strip the remainder, only Comment and Other keep the line; doc string indentation state is cleared on close; "
                   "blank/comment lines are consumed by build-only self-loops in every state not expecting free text (grammar product) "
                   "and comments are collected regardless of position; the EOF token exists whether or not a final line break does.",
    "assumptions": ["carriage returns occur only in CRLF pairs (the property's own restriction)", "str.strip/lstrip/rstrip semantics"],
}


def run(rep):
    lr.rule_source_io(rep, "C16.src")
    lr.rule_scanner(rep, "C16.line", "C16.scan")
    lr.rule_line_basics(rep, "C16.line")
    mr.rule_sink(rep, "C16.col", "C16.crlf", want=("col", "crlf"))
    mr.rule_token_table(rep, "C16.trim", "C16.col")
    mr.rule_roles(rep, "C16.roles", "C16.text", want=("text",))
    mr.rule_docstring_fsm(rep, "C16.docstring")
    mr.rule_other_text(rep, "C16.other")
    lr.rule_tags(rep, "C16.tags")
    lr.rule_split_init(rep, "C16.cells")
    pr.rule_grammar(rep, "C16.skip")
    pr.rule_look(rep, "C16.look")
    pr.rule_queue(rep, "C16.queue")
    er.rule_messages(rep, "C16.errors")
    br.rule_desc(rep, "C16.desc")
    br.rule_fields(rep, "C16.fields")
    # the language header is recognised with or without a trailing carriage return
    dr.rule_header(rep, "C16.header")
    # no hidden state: what the property promises for one use must hold for every later use as well
    ms.rule_stateless(rep, "C16")
