"""C07 - pickle steps = in-scope background steps followed by the scenario's own steps."""
from . import compiler_rules as cr, parser_rules as pr
from . import misc_rules as ms
from . import shape_rules as sh

META = {
    "level": "other",
    "explanation": "On the inlined normal form of Compiler.compile: the steps list of each of the four emission contexts is "
                   "[background accumulator in scope..., scenario.steps...] mapped to pickle steps pointing back to their source; "
                   "the background part is guarded by 'scenario has steps'; the feature-level accumulator grows only on the feature's "
                   "background path, the rule-level one is a fresh copy per rule that grows only by that rule's background (alias and "
                   "mutation-site analysis); arguments are copied row by row, cell by cell, content and media type.",
    "assumptions": ["AST dictionaries have the shape the builder produces (C03/C17)"],
}


def run(rep):
    sh.rule_key_reads(rep, "C07.reads")
    cr.rule_skel(rep, "C07.skel")
    cr.rule_steps(rep, want=("order", "guard", "fresh", "args"))
    cr.rule_input(rep, "C07.isolation")
    # which background is in scope is decided by the nesting the parser reports
    pr.rule_grammar(rep, "C07.nesting")
    # no hidden state: what the property promises for one use must hold for every later use as well
    ms.rule_stateless(rep, "C07")
