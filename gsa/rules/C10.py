"""C10 - every pickle step has a definite type."""
from . import compiler_rules as cr
from . import misc_rules as ms
from . import matcher_rules as mr
from . import dialect_rules as dr

META = {
    "level": "other",
    "explanation": "In all four emission contexts the step type is a fold over background then own steps: "
                   "type := prev if keywordType == 'Conjunction' else keywordType, starting from the constant 'Unknown' assigned per "
                   "pickle (plain and outline path must agree). The keyword-type table of the matcher (given->Context, when->Action, "
                   "then->Outcome, and/but->Conjunction, ambiguous->Unknown) and its consistency with the dialect in force are checked.",
    "assumptions": ["AST step dictionaries carry keywordType as set by the matcher"],
}


def run(rep):
    cr.rule_skel(rep, "C10.skel")
    cr.rule_fold(rep)
    mr.rule_keyword_types(rep, "C10.types")
    mr.rule_dialect_triple(rep, "C10.triple")
    cr.rule_input(rep, "C10.isolation")
    # "its keyword": the keyword a step line is given is the first listed one the line starts with, separator included
    mr.rule_roles(rep, "C10.roles", "C10.text", want=("roles",))
    # the table: a step keyword listed under two roles of one dialect is ambiguous (type Unknown); only '* ' may be
    dr.rule_data(rep, "C10.data")
    # no hidden state: what the property promises for one use must hold for every later use as well
    ms.rule_stateless(rep, "C10")
