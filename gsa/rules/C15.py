"""C15 - no hidden state: results are independent of earlier and concurrent parses."""
from . import matcher_rules as mr, misc_rules as ms, compiler_rules as cr, dialect_rules as dr, parser_rules as pr, error_rules as er

META = {
    "level": "other",
    "explanation": "Write-set / reset coverage: every attribute of TokenMatcher, the Markdown matcher, AstBuilder and the token formatter "
                   "that is written (assigned or mutated in place, including through local aliases) by anything but the constructor is "
                   "re-established unconditionally by reset() (the dialect triple through its sole writer); parse() resets builder "
                   "and matcher before the first read and creates a fresh context (deque, list) and, by default, a fresh matcher. "
                   "Parser, ParserContext, Compiler and GherkinEvents attributes are written only by constructors; no class-object or "
                   "module-global writes, no mutable class attributes or parameter defaults, DIALECTS never mutated - hence distinct "
                   "instances share no written object (the static argument for interleaving independence). compile() mutates nothing "
                   "reachable from its input and hands out no AST list; no nondeterminism source.",
    "assumptions": ["objects passed in by the caller (an explicit matcher shared between threads) are the caller's responsibility"],
}


def run(rep):
    mr.rule_reset(rep, "C15.reset", classes=(mr.MQ, "gherkin.token_matcher_markdown.GherkinInMarkdownTokenMatcher",
                                             "gherkin.ast_builder.AstBuilder", "gherkin.token_formatter_builder.TokenFormatterBuilder"))
    mr.rule_dialect_triple(rep, "C15.triple")
    mr.rule_docstring_own(rep, "C15.own")
    ms.rule_parse_resets(rep)
    pr.rule_parse_frame(rep, "C15.frame")
    ms.rule_inst(rep)
    ms.rule_shared(rep)
    dr.rule_shared_table(rep)
    cr.rule_input(rep)
    er.rule_cap(rep, "C15.errors")
    ms.rule_det(rep)
    # no hidden state: what the property promises for one use must hold for every later use as well
    ms.rule_stateless(rep, "C15")
