"""C14 - rejected documents get errors at the right place with the right expectation."""
from . import parser_rules as pr, error_rules as er, line_rules as lr, dialect_rules as dr, builder_rules as br
from . import misc_rules as ms, matcher_rules as mr

META = {
    "level": "other",
    "explanation": "Per state of the extracted automaton: the expected-token list equals the distinct transition tokens in order, equals "
                   "(as a set) what the grammar expects at every continuation reaching that state (plus ignored tokens where free "
                   "text is not expected), and equals every sibling implementation's list; the no-match path builds the EOF/token "
                   "error from this state's list, raises it in stop mode or collects it exactly once, never builds, and stays in the "
                   "same state. Message normal forms ('(line:col): ' prefix, expected list joined by ', ', quoted trimmed line), "
                   "error locations and fallbacks, de-duplication and the cap of 11, the stop/collect wrapper, the three data faults "
                   "(tag whitespace, unknown language, ragged table) with their locations, errors before get_result, and the stream "
                   "yielding only parseError envelopes for a rejected source.",
    "assumptions": ["which state a concrete document is in when it fails follows from C02 for every token sequence"],
}


def run(rep):
    pr.rule_shape(rep, "C14.shape")
    pr.rule_expected(rep)
    pr.rule_tail(rep)
    pr.rule_once(rep, "C14.nobuild")
    pr.rule_siblings(rep, "C14.siblings")
    er.rule_messages(rep)
    er.rule_cap(rep, "C14.cap")
    er.rule_handle_external(rep)
    er.rule_noast(rep)
    er.rule_stream(rep, "C14.stream")
    lr.rule_tags(rep, "C14.tagfault")
    dr.rule_header(rep, "C14.langfault", snapshot=True)
    br.rule_rect(rep, "C14.ragged")
    # whether a table is ragged is a question about the cells the splitter made of each row (a pipe taken for an escaped one
    # merges two cells: a well-formed table is reported, a ragged one is not) and about those cells reaching the token
    lr.rule_split(rep, "C14.split", "C14.col")
    lr.rule_split_init(rep, "C14.cells")
    mr.rule_token_table(rep, "C14.row", "C14.rowcol")
    lr.rule_scanner(rep, "C14.line", "C14.scan")
    lr.rule_token(rep, "C14.token")
    # which dialect names are unknown is decided by Dialect.for_name against the table; the expectation after a tag line
    # depends on what the look-ahead skips
    dr.rule_dialect(rep, "C14.dialect")
    pr.rule_look(rep, "C14.look")
    # no hidden state: what the property promises for one use must hold for every later use as well
    ms.rule_stateless(rep, "C14")
