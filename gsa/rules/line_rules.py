"""Rules on GherkinLine and TokenScanner (C04.line/tags/cells, C12.split/trim/doc, C16, C18.scan)."""
from __future__ import annotations

import ast
import re

from ..absint import new_interp, Interp, State, Activation, Outcome, HList, HDict, HInst, HGen, NONE, const, is_const, fmt, fmt_seg, fmt_tree, mk_not, mk_cmp, mk_cond
from ..names import N
from ..common import AnalysisError, Report, read_text
from ..facts import facts
from .. import nf
from .. import regexnf
from .matcher_rules import lin_eq, lin

LFILE = "python/gherkin/gherkin_line.py"
LQ = "gherkin.gherkin_line.GherkinLine"
SQ = "gherkin.token_scanner.TokenScanner"
SFILE = "python/gherkin/token_scanner.py"


def _run(q, intr=None):
    I = new_interp()
    I.no_fuse.add(N.SPLITTER_Q)
    if intr:
        I.intrinsics.update(intr)
    fi = I.facts.func(q)
    tree, rv, st = I.run(q)
    return I, fi, tree, rv, st


def _re_flags(kwargs) -> int:
    fl = 0
    for k, v in kwargs:
        if k == "flags":
            for t in nf.subterms(v):
                if t[0] == "extname" and t[1].startswith("re."):
                    fl |= int(getattr(re, t[1][3:], 0))
    return fl


def empty_forms(x):
    """Terms that are true exactly when string term x is empty."""
    ln = ("call", "len", (x,), ())
    return [mk_not(x), ("cmp", "Eq", ln, const(0)), ("cmp", "Eq", x, const("")), mk_not(ln), mk_cmp("Lt", ln, const(1)), mk_cmp("LtE", ln, const(0))]


def rule_line_basics(rep: Report, rid="C04.indent") -> None:
    """GherkinLine: trimmed text = line.lstrip(); indent = len(line) - len(trimmed) in code points; helpers."""
    I, fi, tree, rv, st = _run(f"{LQ}.__init__")
    rep.used_file(LFILE)
    rep.used_function(fi.qualname)
    selft = ("param", fi.params()[0])
    text = ("param", fi.params()[1])
    kw = dict(file=LFILE, line=fi.node.lineno, function=fi.qualname)
    ext = st.ext
    trimmed = ("call", ".lstrip", (text,), ())
    got_trimmed = ext.get((selft, N.TRIMMED), NONE)
    ind = ext.get((selft, N.INDENT))

    def leading_ws_count(t):
        """t counts the leading whitespace characters of the line: sum(1 for _ in takewhile(str.isspace, text)) / len(list(...))"""
        if t is None or t[0] != "call" or t[1] not in ("sum", "len") or len(t[2]) != 1:
            return False
        sg = nf.flatten_segs(I, nf.value_segs(I, t[2][0], tree), tree) if t[2][0][0] == "ref" else []
        run = None
        if t[1] == "sum" and len(sg) == 1 and sg[0][0] == "loop" and list(sg[0][2]) == [("e", const(1))] and not I.loops[sg[0][1]].get("conds"):
            run = I.loops[sg[0][1]].get("iter")
        elif t[1] == "len" and len(sg) == 1 and sg[0][0] == "s":
            run = sg[0][1]
        return run == ("call", "itertools.takewhile", (("attr", ("builtin", "str"), "isspace"), text), ())

    if leading_ws_count(ind) and got_trimmed == ("slice", text, ind, NONE, NONE):
        # the same two facts computed the other way round: count the leading whitespace, then cut it off
        rep.ob(rid, "the trimmed text is the line without its leading whitespace", True, **kw, expected=fmt(trimmed, I), found=fmt(got_trimmed, I))
        rep.ob(rid, "indent = number of leading whitespace code points", True, **kw, expected="leading whitespace count", found=fmt(ind, I))
    else:
        rep.eq(rid, "the trimmed text is the line without its leading whitespace", fmt(trimmed, I), fmt(got_trimmed, I), **kw)
        want = ("binop", "Sub", ("call", "len", (text,), ()), ("call", "len", (trimmed,), ()))
        rep.ob(rid, "indent = number of leading whitespace code points", ind is not None and lin_eq(ind, want), **kw, expected=fmt(want, I), found=fmt(ind, I) if ind else None)
    rep.eq(rid, "the raw line text is kept unchanged", fmt(text, I), fmt(ext.get((selft, N.RAW), NONE), I), **kw)
    rep.eq(rid, "the line number is kept", fmt(("param", fi.params()[2]), I), fmt(ext.get((selft, N.LINENO), NONE), I), **kw)
    # helpers (found by the role they play for the token matcher; a helper the matcher does without constrains nothing -
    # its callers are checked on their normal forms, into which helpers are inlined)
    h_rest, h_text = N.line_helper("rest"), N.line_helper("text")
    if h_rest and facts().has_func(f"{LQ}.{h_rest}"):
        I, fi, tree, rv, st = _run(f"{LQ}.{h_rest}")
        rep.used_function(fi.qualname)
        selft = ("param", fi.params()[0])
        n = ("param", fi.params()[1]) if len(fi.params()) > 1 else NONE
        want = ("call", ".strip", (("slice", ("attr", selft, N.TRIMMED), n, NONE, NONE),), ())
        rep.eq(rid, "the rest after a prefix of n characters = trimmed[n:].strip()", fmt(want, I), fmt(rv, I), file=LFILE, line=fi.node.lineno, function=fi.qualname)
    if h_text and facts().has_func(f"{LQ}.{h_text}"):
        I, fi, tree, rv, st = _run(f"{LQ}.{h_text}")
        rep.used_function(fi.qualname)
        selft = ("param", fi.params()[0])
        n = ("param", fi.params()[1]) if len(fi.params()) > 1 else NONE
        C = ("bool", "or", (mk_cmp("Lt", n, const(0)), mk_cmp("Gt", n, ("attr", selft, N.INDENT))))
        want = mk_cond(C, ("attr", selft, N.TRIMMED), ("slice", ("attr", selft, N.RAW), n, NONE, NONE))
        rep.eq(rid, "the line text with n columns of indentation removed = the trimmed line if n < 0 or n > indent, else raw[n:]", fmt(want, I), fmt(rv, I), file=LFILE, line=fi.node.lineno, function=fi.qualname)
        d = fi.node.args.defaults
        rep.ob(rid, "without an argument the line text is the fully trimmed line", len(d) == 1 and isinstance(d[0], ast.UnaryOp) and ast.unparse(d[0]) == "-1",
               file=LFILE, line=fi.node.lineno, function=fi.qualname, expected="indent_to_remove=-1", found=[ast.unparse(x) for x in d])
    for role, name, want_fn in (("prefix", N.line_helper("prefix"), lambda s, a: ("call", ".startswith", (("attr", s, N.TRIMMED), a), ())),
                                ("title_prefix", N.line_helper("title_prefix"), lambda s, a: ("call", ".startswith", (("attr", s, N.TRIMMED), ("binop", "Add", a, const(":"))), ())),
                                ("empty", N.line_helper("empty"), lambda s, a: mk_not(("attr", s, N.TRIMMED)))):
        if name is None:
            continue
        if not facts().has_func(f"{LQ}.{name}"):
            continue        # a helper that no longer exists constrains nothing; its callers are checked on their normal forms
        I, fi, tree, rv, st = _run(f"{LQ}.{name}")
        rep.used_function(fi.qualname)
        s = ("param", fi.params()[0])
        a = ("param", fi.params()[1]) if len(fi.params()) > 1 else None
        want = want_fn(s, a)
        okf = rv == want or (role == "empty" and rv in empty_forms(("attr", s, N.TRIMMED)))
        rep.ob(rid, f"the {role} test reads the left-trimmed text", okf, file=LFILE, line=fi.node.lineno, function=fi.qualname, expected=fmt(want, I), found=fmt(rv, I))


def _before_first_match(t):
    """(pattern, subject) when t is the part of subject before the first match of pattern (all of it when nothing matches):
    ``re.split(p, s, ...)[0]`` or ``s[:m.start()] if (m := re.search(p, s)) else s``."""
    if t[0] == "item" and is_const(t[2], 0) and t[1][0] == "call" and t[1][1] == "re.split" and len(t[1][2]) >= 2:
        return t[1][2][0], t[1][2][1]
    if t[0] == "cond":
        c, a, b = t[1], t[2], t[3]
        if c[0] == "cmp" and c[1] == "Is" and is_const(c[3], None):
            c, a, b = c[2], b, a
        if c[0] == "call" and c[1] == "re.search" and len(c[2]) == 2 and not c[3] and c[2][1] == b \
                and a == ("slice", b, NONE, ("call", ".start", (c,), ()), NONE):
            return c[2][0], b
    return None


def rule_tags(rep: Report, rid="C04.tags") -> None:
    I, fi, tree, rv, st = _run(f"{LQ}.{N.TAGS}")
    rep.used_function(fi.qualname)
    selft = ("param", fi.params()[0])
    kw = dict(file=LFILE, line=fi.node.lineno, function=fi.qualname)
    loops = [n for n, ctx in nf.iter_nodes(tree) if n[0] == "loop" and not nf.loops_in_ctx(ctx)]
    # a comprehension that only computes values (no append, no raise) is not a scan of its own
    effects = ("mutate", "raise", "setattr", "setitem", "yield", "return", "extcall")
    scans = [n for n in loops if not (I.loops[n[1]].get("kind") == "comp" and not any(x[0] in effects for x, _ in nf.iter_nodes(n[2])))]
    loops = scans if len(scans) == 1 else loops
    if len(loops) != 1:
        rep.ob(rid, "tags are extracted by one scan over the '@'-separated pieces", False, **kw, expected="one loop", found=len(loops))
        return
    lid = loops[0][1]
    info = I.loops[lid]
    el = ("elem", lid)
    # iterated pieces: X.split('@')[1:]
    def push_deep(t, depth=0):
        """push_cond_in, repeated inwards: the choice ends up at the innermost place where the alternatives differ"""
        t = nf.push_cond_in(t)
        if depth > 8 or not isinstance(t, tuple) or not t or t[0] in ("const", "ref", "cond"):
            return t
        return tuple(push_deep(x, depth + 1) if isinstance(x, tuple) and x and isinstance(x[0], str) else
                     (tuple(push_deep(y, depth + 1) if isinstance(y, tuple) and y and isinstance(y[0], str) else y for y in x) if isinstance(x, tuple) else x)
                     for x in t)
    it = push_deep(info.get("iter")) if info.get("iter") is not None else None
    ok_it = it is not None and it[0] == "slice" and is_const(it[2], 1) and it[3] == NONE and it[1][0] == "call" and it[1][1] == ".split" \
        and len(it[1][2]) == 2 and is_const(it[1][2][1], "@")
    rep.ob(rid, "the pieces are the '@'-separated parts after the first (text before the first '@' is no tag)", ok_it, **kw,
           expected="<line>.split('@')[1:]", found=fmt(it, I))
    src = it[1][2][0] if ok_it else None
    # the line scanned: trimmed, comment removed at first whitespace+'#'
    trimmed = ("attr", selft, N.TRIMMED)
    ok_src = False
    if src is not None:
        s0 = src
        # (the line is left-trimmed already: stripping it again on the right, or on both sides, removes the same characters)
        while s0[0] == "call" and s0[1] in (".strip", ".rstrip") and len(s0[2]) == 1:
            s0 = s0[2][0]
        pm = _before_first_match(s0)
        if pm is not None:
            pat, subj = pm
            while subj[0] == "call" and subj[1] in (".strip", ".rstrip") and len(subj[2]) == 1:
                subj = subj[2][0]
            ok_src = is_const(pat) and regexnf.same(pat[1], 0, r"\s#") and subj == trimmed
    rep.ob(rid, "the scanned text is the left-trimmed line up to a trailing ' #' comment; no leading characters are removed before the first tag",
           ok_src, **kw, expected="re.split(r'\\s#', trimmed.strip())[0]", found=fmt(src, I) if src else None)
    # column bookkeeping
    var = None
    for nm, upd in info.get("carried", {}).items():
        init = info.get("carried_init", {}).get(nm)
        if init is not None and lin_eq(init, ("binop", "Add", ("attr", selft, N.INDENT), const(1))):
            var = nm
    rep.ob(rid, "the first tag's column is indent + 1", var is not None, **kw, expected="column = self.indent + 1 before the scan",
           found={k: fmt(v, I) for k, v in info.get("carried_init", {}).items()})
    if var is None:
        return
    phi = ("phi", lid, var)
    upd = info["carried"][var]
    want = ("binop", "Add", phi, ("binop", "Add", ("call", "len", (el,), ()), const(1)))
    rep.ob(rid, "after a tag the column advances by the untrimmed piece's length plus one for '@'", lin_eq(upd, want), **kw,
           expected=fmt(want, I), found=fmt(upd, I))
    # the returned list's content (append loop, comprehension, or list(<generator>)): one element per piece
    elems = list(nf.seg_elems(nf.flatten_segs(I, nf.value_segs(I, rv, tree), tree)))
    rep.ob(rid, "each piece yields one tag item", len(elems) == 1 and elems[0][0] == "e" and elems[0][2] == (lid,), **kw, expected="one append per piece",
           found=[(k, loops) for k, _, loops, _ in elems])
    for k, t, lp, gs in elems:
        if k != "e":
            continue
        d = nf.resolve_ref_dict(I, t, tree)
        ok = d is not None and set(d) == {"column", "text"} and d["column"][0] == phi \
            and _str_parts(d["text"][0]) == _str_parts(("binop", "Add", const("@"), ("call", ".strip", (el,), ())))
        rep.ob(rid, "a tag item records the column before the advance and the text '@' + trimmed piece", ok, file=LFILE, line=fi.node.lineno, function=fi.qualname,
               expected="{'column': column, 'text': '@' + item.strip()}", found=fmt(t, I))
    # whitespace error: raised with the current tag's column, ParserException
    raises = [(n, ctx) for n, ctx in nf.iter_nodes(tree) if n[0] == "raise"]
    good = 0
    for n, ctx in raises:
        loc = None
        for m2, _ in nf.iter_nodes(tree):
            if m2[0] == "setattr" and m2[1] == n[1] and m2[2] == "location":
                loc = nf.resolve_ref_dict(I, m2[3], tree)
        gs = nf.guards_in_ctx(ctx)
        tagv = ("binop", "Add", const("@"), ("call", ".strip", (el,), ()))
        okg = False
        for c, p in gs:
            cc, pp = c, p
            if cc[0] == "cmp" and cc[1] == "Is" and is_const(cc[3], None):
                cc, pp = cc[2], not pp
            if cc[0] == "call" and cc[1] in ("re.search",) and pp and is_const(cc[2][0]) and _str_parts(cc[2][1]) == _str_parts(tagv) \
                    and regexnf.same(cc[2][0][1], 0, r"\s"):
                okg = True
            # ... or asked character by character: some character of the tag is a blank (str.isspace and \s cover the same)
            ex = nf.exists_form(I, c, tree) if p else None
            if ex is not None:
                it_, lid_, pred_ = ex
                isspace = lambda f_: f_ == ("attr", ("builtin", "str"), "isspace")
                over, what = it_, pred_
                if it_[0] == "call" and it_[1] == "map" and len(it_[2]) == 2 and isspace(it_[2][0]) and pred_ == ("elem", lid_):
                    over, what = it_[2][1], ("call", ".isspace", (("elem", lid_),), ())
                if _str_parts(over) == _str_parts(tagv) and what in (("call", ".isspace", (("elem", lid_),), ()), ("call", "str.isspace", (("elem", lid_),), ())):
                    okg = True
        cls = I.obj(n[1]).cls.name if isinstance(I.obj(n[1]), HInst) else None
        if okg and loc and set(loc) == {"line", "column"} and loc["column"][0] == phi and loc["line"][0] == ("attr", selft, N.LINENO) and cls == "ParserException":
            good += 1
    rep.ob(rid, "a tag containing whitespace raises ParserException at (this line, this tag's column)", good == 1 and len(raises) == 1, **kw,
           expected="if re.search(whitespace, tag): raise ParserException(..., {'line': line number, 'column': column})", found=f"{len(raises)} raise(s), {good} as specified")


def _splitter_body(fi):
    """The single character loop of the splitter: ``while True: c = next(it, None) ...`` or ``for c in it: ...``.
    ``while c := next(it, None): ...`` is read as the first form: the character is fetched, the loop ends when it is false."""
    loops = [n for n in fi.node.body if isinstance(n, (ast.While, ast.For))]
    if len(loops) != 1:
        return None
    lp = loops[0]
    if isinstance(lp, ast.While) and isinstance(lp.test, ast.NamedExpr) and not lp.orelse:
        cached = getattr(lp, "_as_while_true", None)
        if cached is None:
            fetch = ast.Assign(targets=[ast.Name(id=lp.test.target.id, ctx=ast.Store())], value=lp.test.value)
            stop = ast.If(test=ast.UnaryOp(op=ast.Not(), operand=ast.Name(id=lp.test.target.id, ctx=ast.Load())), body=[ast.Break()], orelse=[])
            cached = ast.While(test=ast.Constant(value=True), body=[fetch, stop] + list(lp.body), orelse=[])
            for x in (fetch, stop, cached):
                ast.copy_location(x, lp)
            ast.fix_missing_locations(cached)
            lp._as_while_true = cached
            # the function body seen by the analysis has the rewritten loop in the original's place
            fi.node.body[fi.node.body.index(lp)] = cached
        return cached
    return lp


END = object()


STR_METHODS = (".join", ".strip", ".lstrip", ".rstrip", ".replace", ".format", ".lower", ".upper", ".title", ".removeprefix", ".removesuffix", "str", "repr",
               "re.sub", "re.escape")


def _is_str_term(t) -> bool:
    """The term is known to denote a str (so str(t) is t)."""
    if not isinstance(t, tuple) or not t:
        return False
    if is_const(t):
        return isinstance(t[1], str)
    if t[0] == "fstr":
        return True
    if t[0] == "call" and t[1] in STR_METHODS:
        return True
    if t[0] == "binop" and t[1] == "Add":
        return _is_str_term(t[2]) or _is_str_term(t[3])
    if t[0] == "cond":
        return _is_str_term(t[2]) and _is_str_term(t[3])
    return False


def _strip_form(x):
    """``re.sub(P, '', s)`` with P removing whitespace at the ends only (``\\A\\s+``, ``\\s+\\Z``, or both as alternatives; ``*`` for ``+``)
    is ``s.lstrip()`` / ``s.rstrip()`` / ``s.strip()`` - str.strip() and \\s cover the same characters."""
    if not (x[0] == "call" and x[1] == "re.sub" and len(x[2]) == 3 and is_const(x[2][0]) and isinstance(x[2][0][1], str) and is_const(x[2][1], "")):
        return x
    fl = _re_flags(x[3])
    if fl & ~re.UNICODE:
        return x
    try:
        seq = regexnf.nf(x[2][0][1], fl)
        ws = regexnf.nf(r"\s", 0)[0][3]
    except Exception:
        return x

    def side(alt):
        alt = list(alt)
        if len(alt) == 2 and alt[0] == ("at", "begin") and alt[1][0] == "rep" and alt[1][1] in (0, 1) and alt[1][2] is None and alt[1][3] == ws:
            return "l"
        if len(alt) == 2 and alt[1] in (("at", "AT_END_STRING"), ("at", "end")) and alt[0][0] == "rep" and alt[0][1] in (0, 1) and alt[0][2] is None and alt[0][3] == ws:
            return "r"
        return None
    alts = [list(b) for b in seq[0][1]] if len(seq) == 1 and seq[0][0] == "branch" else [list(seq)]
    sides = [side(a) for a in alts]
    if None in sides or not sides:
        return x
    name = ".strip" if set(sides) == {"l", "r"} else (".lstrip" if set(sides) == {"l"} else ".rstrip")
    return ("call", name, (x[2][2],), ())


def _str_parts(t):
    """Flatten a string concatenation term into parts, merging adjacent constants."""
    def parts(x):
        if x[0] == "binop" and x[1] == "Add":
            return parts(x[2]) + parts(x[3])
        if x[0] == "call" and x[1] == "re.sub":
            y = _strip_form(x)
            if y is not x:
                return parts(y)
        if x[0] == "call" and x[1] == "str" and len(x[2]) == 1 and not x[3] and _is_str_term(x[2][0]):
            return parts(x[2][0])          # str() of a string is that string
        if x[0] == "call" and x[1] == "str" and len(x[2]) == 1 and not x[3] and is_const(x[2][0]) and isinstance(x[2][0][1], int) \
                and not isinstance(x[2][0][1], bool):
            return [const(str(x[2][0][1]))]     # str(0) is '0'
        if x[0] == "fstr":
            out_ = []
            for p_ in x[1]:
                out_ += parts(p_) if _is_str_term(p_) else parts(("call", "str", (p_,), ()))
            return out_
        if x[0] == "call" and x[1] == ".join" and len(x[2]) == 2 and is_const(x[2][0]) and isinstance(x[2][0][1], str) and x[2][1][0] == "tuple":
            # sep.join((a, b, c)) over a display: the pieces in order, the separator between them
            out_ = []
            for i_, p_ in enumerate(x[2][1][1]):
                if i_ and x[2][0][1]:
                    out_.append(x[2][0])
                out_ += parts(p_)
            return out_
        return [x]
    out = []
    for p in parts(t):
        if is_const(p) and isinstance(p[1], str):
            if p[1] == "":
                continue
            if out and is_const(out[-1]) and isinstance(out[-1][1], str):
                out[-1] = const(out[-1][1] + p[1])
                continue
        out.append(p)
    return out


ENUM_COL = "__position"      # the column counter when positions come from enumerate(row, start=...)


def _enum_start(v, rowp):
    """start of ``enumerate(row[, start])`` (an int), else None."""
    if not (isinstance(v, tuple) and v and v[0] == "call" and v[1] == "enumerate" and v[2] and v[2][0] == rowp):
        return None
    start = const(0)
    if len(v[2]) == 2:
        start = v[2][1]
    for k, x in v[3] or ():
        if k == "start":
            start = x
    return start[1] if is_const(start) and isinstance(start[1], int) and len(v[2]) <= 2 else None


def _lexer_of(I, fi, loop):
    """The repo generator the splitter's for loop runs over, called on the row alone (a two-stage splitter: the generator
    breaks the row into pieces, the loop assembles the cells) -- or None."""
    if not isinstance(loop, ast.For) or not isinstance(loop.iter, ast.Call) or loop.iter.keywords or len(loop.iter.args) != 1:
        return None
    arg = loop.iter.args[0]
    params = fi.params()
    if not (isinstance(arg, ast.Name) and params and arg.id == params[-1]):
        return None
    f = loop.iter.func
    g = None
    if isinstance(f, ast.Name):
        r = I.facts.resolve_name(fi.module, f.id)
        if r and r[0] == "func":
            g = r[1]
    elif isinstance(f, ast.Attribute) and isinstance(f.value, ast.Name):
        c = None
        if f.value.id in ("self", "cls") and fi.cls is not None:
            c = fi.cls
        else:
            c = I.facts.resolve_class(fi.module, f.value.id)
        if c is not None:
            g = c.find_method(f.attr)
    if g is None or not any(isinstance(x, (ast.Yield, ast.YieldFrom)) for x in ast.walk(g.node)):
        return None
    return g


_STAGE_PRE: dict = {}


def _stage_init(fi, loop):
    """Abstract values of the locals when the loop of generator ``fi`` is first reached."""
    pre_I = new_interp()
    pre_state = State()
    params = fi.params()
    rowp = ("param", params[-1])
    pre_state.env[params[-1]] = rowp
    act = Activation(fi, 0)
    pre_I.stack.append(act)
    pre_stmts = fi.node.body[: fi.node.body.index(loop)]
    pre_stmts = [s for s in pre_stmts if not (isinstance(s, ast.Expr) and isinstance(s.value, ast.Constant))]
    pre_I.exec_block(pre_stmts, pre_state, [])
    pre_I.stack.pop()
    env = dict(pre_state.env)
    # a small object of the repository holding part of the scan's state (a cursor with the iterator and the column): its
    # fields are state variables like the locals, named "<local>.<field>"
    for k, v in list(env.items()):
        if isinstance(v, tuple) and v and v[0] == "ref" and isinstance(pre_I.obj(v), HInst):
            fields = {a_: val for (b_, a_), val in pre_state.ext.items() if b_ == v}
            if fields:
                del env[k]
                for a_, val in fields.items():
                    env[f"{k}.{a_}"] = val
    _STAGE_PRE[id(fi)] = pre_stmts
    return pre_I, act, rowp, env


def splitter_table():
    """Finite-class abstract interpretation of split_table_cells' loop body: one abstract run per
    (first_cell state, character-class sequence).  Returns (rows, problems, fi).

    A two-stage splitter (the loop runs over a generator of the repo that breaks the row into pieces) is interpreted the
    same way: the character loop is the generator's, and the assembling loop's body runs once per piece it yields."""
    I = new_interp()
    q = N.SPLITTER_Q
    fi = I.facts.func(q)
    loop = _splitter_body(fi)
    problems = []
    NOT_LOOP = "split_table_cells is not a single character loop ('while True' over next(it, None), or 'for c in it')"
    if loop is None or loop.orelse:
        return None, [NOT_LOOP], fi
    post = fi.node.body[fi.node.body.index(loop) + 1:]
    late_yield = any(isinstance(x, (ast.Yield, ast.YieldFrom)) for p_ in post for x in ast.walk(p_))
    lex = _lexer_of(I, fi, loop)
    outer = None
    if lex is not None:
        # the assembling stage: its state, and the loop body run per piece
        o_I, o_act, o_rowp, o_init = _stage_init(fi, loop)
        o_init.pop(fi.params()[-1], None)
        outer = (fi, loop, o_init)
        cfi, cloop = lex, _splitter_body(lex)
        if cloop is None or cloop.orelse:
            return None, [NOT_LOOP], fi
        cpost = lex.node.body[lex.node.body.index(cloop) + 1:]
        late_yield = late_yield or any(isinstance(x, (ast.Yield, ast.YieldFrom)) for p_ in cpost for x in ast.walk(p_))
    else:
        cfi, cloop = fi, loop
    is_for = isinstance(cloop, ast.For)
    if not is_for and not (isinstance(cloop.test, ast.Constant) and cloop.test.value is True):
        return None, [NOT_LOOP], fi
    # pre-loop initialisation
    pre_I, act, rowp, init = _stage_init(cfi, cloop)
    # variables: iterator, col, start_col, cell, first flag -- discovered by value
    it_vars = [k for k, v in init.items() if (v[0] == "call" and v[1] == "iter" and v[2] == (rowp,)) or _enum_start(v, rowp) is not None]
    direct = False
    if not it_vars and is_for:
        # ``for c in row`` / ``for i, c in enumerate(row)``: the loop's own iterator, nobody else can advance it
        pst = State(env=dict(init))
        pre_I.stack.append(act)
        over0 = pre_I.ev(pst, cloop.iter, [])
        pre_I.stack.pop()
        if over0 == rowp or _enum_start(over0, rowp) is not None:
            init["__row_iterator"] = over0
            it_vars = ["__row_iterator"]
            direct = True
    if len(it_vars) != 1:
        return None, [f"the row is not scanned through one iterator (iter(row) / enumerate(row)): {sorted(init)}"], fi
    itv = it_vars[0]
    # positions delivered with the characters (enumerate): the column counter is the iterator's own, one behind the
    # position of the next character
    enum = _enum_start(init[itv], rowp)
    if enum is not None:
        init[ENUM_COL] = const(enum - 1)
    seqs = [["|"], ["\\", "n"], ["\\", "|"], ["\\", "\\"], ["\\", "x"], ["\\", END], ["x"], ["n"], [END]]
    if is_for and not direct:
        pst = State(env=dict(init))
        pre_I.stack.append(act)
        over = pre_I.ev(pst, cloop.iter, [])
        pre_I.stack.pop()
        if over != init[itv]:
            return None, ["the character loop does not run over the row iterator"], fi
    # the state the cells are assembled in: the scanning stage's own locals, and the assembling stage's when there are two
    state_init = dict(init)
    if outer is not None:
        clash = set(state_init) & set(outer[2])
        if clash:
            # the two stages are separate functions: same-named locals are different variables
            return None, [f"two-stage splitter whose stages share local names: {sorted(clash)}"], fi
        state_init.update(outer[2])
    flags = [k for k, v in state_init.items() if is_const(v) and isinstance(v[1], bool)]
    modes = []
    if len(flags) > 1 and is_for and outer is None:
        # several boolean state variables: the one the first pipe flips is "before the first pipe"; the others are modes of the
        # scan (an escape pending) - clear at every character boundary the classes start from
        probe_I = new_interp()
        pst = State(env=dict(state_init))
        probe_I.stack.append(Activation(cfi, 0))
        tgt0 = const("|") if _enum_start(init[itv], rowp) is None else ("tuple", (const(0), const("|")))
        probe_I.bind_target(pst, cloop.target, tgt0)
        po = probe_I.exec_block(cloop.body, pst, [])
        probe_I.stack.pop()
        pend = po.live or po.cont or po.brk
        flipped = [k for k in flags if pend is not None and pend.env.get(k) != state_init[k]]
        if len(flipped) == 1:
            modes = [k for k in flags if k != flipped[0]]
            flags = flipped
    if len(flags) != 1:
        return None, [f"no single 'before the first pipe' boolean flag: {sorted(state_init)}"], fi
    flag = flags[0]
    before = state_init[flag][1]          # the flag's value while nothing but text before the first pipe was seen
    rows = []
    for first in (True, False):
        for seq in seqs:
            I2 = new_interp()
            st = State()
            sym = {}
            objs = sorted({k.split(".", 1)[0] for k in state_init if "." in k})
            if objs and outer is None:
                # the objects holding state are made as the function makes them, then their fields get the state's values
                st.env[cfi.params()[-1]] = rowp
                I2.stack.append(Activation(cfi, 0))
                I2.exec_block(_STAGE_PRE[id(cfi)], st, [])
                I2.stack.pop()

            def put(k, v, st=st):
                if "." in k:
                    var, attr = k.split(".", 1)
                    st.ext[(st.env[var], attr)] = v
                else:
                    st.env[k] = v
            for k, v in state_init.items():
                if k == itv:
                    put(k, v)
                elif k == flag:
                    put(k, const(before if first else not before))
                elif k in modes:
                    put(k, v)
                else:
                    sym[k] = ("param", k)
                    put(k, ("param", k))
            # a cell collected as a list of pieces (joined when complete) is the text the pieces spell: the list starts as
            # "whatever was collected so far" and is read back as the concatenation of its content
            list_vars = [k for k, v in state_init.items() if k not in (itv, flag) and isinstance(pre_I.obj(v), HList) and not pre_I.obj(v).segs] \
                if outer is None else [k for k, v in outer[2].items() if k != flag and isinstance(o_I.obj(v), HList) and not o_I.obj(v).segs]
            for k in list_vars:
                st.env[k] = I2.new_list([("s", ("param", k))], None, None)
            feed = list(seq)
            calls = []
            taken = [0]

            def item_of(c, taken=taken):
                if enum is None:
                    return const(c)
                taken[0] += 1
                return ("tuple", (("binop", "Add", ("param", ENUM_COL), const(taken[0])), const(c)))

            def next_hook(I_, st_, args, kwargs, n, tree_, feed=feed, calls=calls):
                if not args or args[0] != init[itv]:
                    return ("call", "next", tuple(args), ())
                default = args[1] if len(args) > 1 else ("nodefault",)
                calls.append(default)
                if not feed:
                    return ("opaque", "extra next()")
                c = feed.pop(0)
                if c is END:
                    return default
                return item_of(c)
            I2.builtin_hooks["next"] = next_hook
            I2.stack.append(Activation(cfi, 0))
            tree: list = []
            if is_for and feed[0] is END:
                # the for loop ends when the iterator is exhausted: nothing of the body runs
                feed.pop(0)
                out = Outcome(brk=st)
            else:
                if is_for:
                    I2.bind_target(st, cloop.target, item_of(feed.pop(0)))
                out = I2.exec_block(cloop.body, st, tree)
                # a loop that takes one character per round (a pending escape is a mode of the next round): the rounds
                # the rest of the class sequence takes
                while is_for and feed and out.brk is None and (out.live or out.cont) is not None:
                    cur_ = out.live or out.cont
                    if feed[0] is END:
                        feed.pop(0)
                        out = Outcome(brk=cur_)
                        break
                    I2.bind_target(cur_, cloop.target, item_of(feed.pop(0)))
                    out = I2.exec_block(cloop.body, cur_, tree)
            I2.stack.pop()
            end = out.live or out.cont or out.brk
            undecided = [n for n, _ in nf.iter_nodes(tree) if n[0] == "if"]
            raises = [n for n, _ in nf.iter_nodes(tree) if n[0] == "raise"]
            broke = out.brk is not None and out.live is None and out.cont is None
            if outer is not None:
                # the pieces of this stretch of the row, handed one by one to the assembling loop's body
                pieces = [n[1] for n, _ in nf.iter_nodes(tree) if n[0] == "yield"]
                tree = []
                cur = end if end is not None else st
                I2.stack.append(Activation(fi, 0))
                for pc in pieces:
                    if cur is None:
                        break
                    I2.bind_target(cur, loop.target, pc)
                    o = I2.exec_block(loop.body, cur, tree)
                    if o.brk is not None and o.live is None and o.cont is None:
                        broke = True
                        cur = o.brk
                        break
                    cur = o.live or o.cont or o.brk
                I2.stack.pop()
                end = cur
                undecided += [n for n, _ in nf.iter_nodes(tree) if n[0] == "if"]
                raises += [n for n, _ in nf.iter_nodes(tree) if n[0] == "raise"]

            def as_text(t, I2=I2, tree=tree):
                """list-of-pieces values and ''.join(list) as the string they spell"""
                if not isinstance(t, tuple) or not t:
                    return t
                if t[0] == "call" and t[1] == ".join" and len(t[2]) == 2 and is_const(t[2][0], "") and isinstance(I2.obj(t[2][1]), HList):
                    return as_text(t[2][1])
                if t[0] == "ref" and isinstance(I2.obj(t), HList):
                    parts_ = []
                    for sg in nf.list_content(I2, t, tree):
                        if sg[0] in ("s", "e"):
                            parts_.append(as_text(sg[1]))
                        else:
                            return t
                    out_ = const("")
                    for p_ in parts_:
                        out_ = p_ if out_ == const("") else ("binop", "Add", out_, p_)
                    return out_
                if t[0] == "tuple":
                    return ("tuple", tuple(as_text(x) for x in t[1]))
                return t
            if end is not None:
                for k in state_init:
                    if "." in k:
                        var, attr = k.split(".", 1)
                        if var in end.env and (end.env[var], attr) in end.ext:
                            end.env[k] = end.ext[(end.env[var], attr)]
                for k in list_vars:
                    if k in end.env:
                        end.env[k] = as_text(end.env[k])
            if enum is not None and end is not None:
                end.env[ENUM_COL] = ("binop", "Add", ("param", ENUM_COL), const(taken[0]))
            yields = [as_text(n[1]) for n, _ in nf.iter_nodes(tree) if n[0] == "yield"]
            if late_yield and seq[0] is END:
                yields.append(("opaque", "yield after the loop"))
            rows.append({"first": first, "seq": seq, "consumed": len(seq) - len(feed), "leftover": list(feed), "break": broke,
                         "env": dict(end.env) if end else {}, "yields": yields, "undecided": undecided, "I": I2, "sym": sym, "flag": flag, "before": before, "init": state_init, "modes": modes,
                         "bare_next": [d for d in calls if d == ("nodefault",)], "raises": raises})
    return rows, problems, fi


def rule_split(rep: Report, rid="C12.split", rid_col="C04.cells") -> None:
    rows, problems, fi = splitter_table()
    rep.used_file(LFILE)
    rep.used_function(fi.qualname)
    kw = dict(file=LFILE, line=fi.node.lineno, function=fi.qualname)
    if rows is None:
        rep.ob(rid, "the cell splitter is a character loop whose body can be interpreted per character class", False, **kw,
               expected="while True: char = next(row_iter, None) ...", found=problems)
        return
    rep.floor("splitter (state x class sequence) rows", len(rows), 18)
    def show(seq):
        return "".join("<end>" if c is END else c for c in seq)
    for r in rows:
        I = r["I"]
        seq, first = r["seq"], r["first"]
        name = f"{'before the first pipe' if first else 'inside a cell'}, input {show(seq)!r}"
        env, sym = r["env"], r["sym"]
        if r["undecided"]:
            rep.ob(rid, f"{name}: the splitter's decisions depend only on the character class", False, **kw, expected="decided by character comparisons",
                   found=[fmt(n[1], I) for n in r["undecided"]][:3])
            continue
        rep.ob(rid, f"{name}: exhausting the row never raises (next() has a default)", not r["bare_next"] and not r["raises"], **kw,
               expected="next(it, default)", found=f"{len(r['bare_next'])} bare next() call(s), {len(r['raises'])} raise(s)")
        # identify cell / col / start_col variables by their role in this row: done once from the '|' row semantics below
        # expected effect
        lead = seq[0]
        want_consumed = 1 if lead is not END and lead != "\\" else (2 if lead == "\\" else 1)
        rep.eq(rid, f"{name}: consumes {'the escape pair' if lead == chr(92) else 'one character'}", want_consumed, r["consumed"], **kw)
        want_break = lead is END
        if seq[-1] is END and not want_break and r["break"]:
            # an escape character as the very last character: the row ends here either way, and what follows the last pipe is
            # dropped - whether the lone backslash was still put into that text or not cannot be observed
            rep.ob(rid, f"{name}: text after the last pipe is dropped (nothing is yielded at the end)", not r["yields"], **kw, expected="no yield", found=[fmt(y, I) for y in r["yields"]])
            continue
        rep.eq(rid, f"{name}: " + ("ends the scan" if want_break else "continues the scan"), want_break, r["break"], **kw)
        if want_break:
            rep.ob(rid, f"{name}: text after the last pipe is dropped (nothing is yielded at the end)", not r["yields"], **kw, expected="no yield", found=[fmt(y, I) for y in r["yields"]])
            continue
        for mk in r.get("modes", ()):
            rep.eq(rid, f"{name}: afterwards the scan is at a character boundary again (no escape pending: {mk})", r["init"].get(mk), env.get(mk), **kw)
        # which symbolic variable is the cell text? the one whose value gets a string appended on an ordinary char
        # resolve roles lazily (shared across rows)
        roles = _roles(rows)
        if roles is None:
            rep.ob(rid, "splitter state variables (cell text, column, cell start column) are identifiable", False, **kw,
                   expected="cell += char; col += 1; start_col = col + 1", found="could not identify roles")
            return
        cellv, colv, startv = roles
        cell0, col0, start0 = ("param", cellv), ("param", colv), ("param", startv)
        got_cell = _str_parts(env.get(cellv, ("undef",)))
        # the conventions of the bookkeeping: the counter's value before anything is consumed (c0), and what is added to the
        # recorded start when a cell is handed out (k) - columns handed out are 1-based positions whatever the two are
        c0v = r["init"].get(colv)
        c0 = c0v[1] if c0v is not None and is_const(c0v) and isinstance(c0v[1], int) else 0
        koff = _yield_offset(rows, startv)
        ncons = want_consumed
        if seq[-1] is not END:
            # (after the end of the row nothing is yielded any more, so the counter is no longer read)
            rep.ob(rid_col, f"{name}: the column counter advances by the number of characters consumed", lin_eq(env.get(colv, NONE), ("binop", "Add", col0, const(ncons))), **kw,
                   expected=f"col + {ncons}", found=fmt(env.get(colv, NONE), I))
        if lead == "|":
            rep.eq(rid, f"{name}: " + ("opens the first cell without yielding" if first else "yields the finished cell"), 0 if first else 1, len(r["yields"]), **kw)
            if not first and r["yields"]:
                y = r["yields"][0]
                ok = y[0] == "tuple" and len(y[1]) == 2 and y[1][0] == cell0 and koff is not None and lin_eq(y[1][1], ("binop", "Add", start0, const(koff)))
                rep.ob(rid_col, f"{name}: the yielded pair is (cell text so far, that cell's start column)", ok, **kw, expected="(cell, start_col)", found=fmt(y, I))
            rep.ob(rid, f"{name}: a new empty cell starts", got_cell == [], **kw, expected="''", found=[fmt(x, I) for x in got_cell])
            rep.ob(rid_col, f"{name}: the new cell starts one column after the pipe", koff is not None
                   and lin_eq(("binop", "Add", env.get(startv, NONE), const(koff)), ("binop", "Add", col0, const(2 - c0))), **kw,
                   expected="start_col = (col + 1) + 1" + ("" if (c0, koff) == (0, 0) else f"  (counter starts at {c0}, {koff} is added when the cell is handed out)"),
                   found=fmt(env.get(startv, NONE), I))
            rep.eq(rid, f"{name}: afterwards the scan is inside a cell", const(not r["before"]), env.get(r["flag"]), **kw)
            continue
        rep.ob(rid, f"{name}: nothing is yielded", not r["yields"], **kw, expected="no yield", found=[fmt(y, I) for y in r["yields"]])
        rep.ob(rid_col, f"{name}: the cell start column is unchanged", env.get(startv) == start0, **kw, expected=startv, found=fmt(env.get(startv, NONE), I))
        rep.eq(rid, f"{name}: the before-first-pipe state is unchanged", const(r["before"] if first else not r["before"]), env.get(r["flag"]), **kw)
        if lead == "\\":
            second = seq[1]
            want = {"n": "\n", "|": "|", "\\": "\\", "x": "\\x"}.get(second, "\\") if second is not END else "\\"
            what = {"n": "becomes a line feed", "|": "becomes a pipe", "\\": "becomes one backslash", "x": "is kept as written"}.get(second, "(lone trailing backslash) is kept")
        else:
            want = lead
            what = "is appended"
        rep.eq(rid, f"{name}: {show(seq)!r} {what}", [fmt(cell0, I), repr(want)], [fmt(x, I) for x in got_cell], **kw)


def _yield_offset(rows, startv):
    """k such that a finished cell is handed out with column ``start + k`` (0 when the recorded start is the column itself)."""
    r_p = next((r for r in rows if not r["first"] and r["seq"] == ["|"]), None)
    if r_p is None or not r_p["yields"]:
        return None
    y = r_p["yields"][0]
    if not (y[0] == "tuple" and len(y[1]) == 2):
        return None
    d = lin(("binop", "Sub", y[1][1], ("param", startv)))
    if d is None or any(k != 1 for k in d):
        return None
    return d.get(1, 0)


def _roles(rows):
    """(cell text var, column var, start column var) from the 'inside a cell, ordinary char' and pipe rows."""
    r_x = next((r for r in rows if not r["first"] and r["seq"] == ["x"]), None)
    r_p = next((r for r in rows if not r["first"] and r["seq"] == ["|"]), None)
    if r_x is None or r_p is None:
        return None
    cellv = colv = startv = None
    for k in r_x["sym"]:
        v = r_x["env"].get(k)
        if v is None:
            continue
        if v != ("param", k):
            ps = _str_parts(v)
            if ps == [("param", k), const("x")]:
                cellv = k
            elif lin_eq(v, ("binop", "Add", ("param", k), const(1))):
                colv = k
    for k in r_p["sym"]:
        v = r_p["env"].get(k)
        if k not in (cellv, colv) and v is not None and v != ("param", k) and colv and nf.contains(v, lambda t: t == ("param", colv)):
            startv = k
    if None in (cellv, colv, startv):
        return None
    return cellv, colv, startv


def rule_split_init(rep: Report, rid="C04.cells", rid_trim=None) -> None:
    """Initial splitter state and the column formula of table_cells."""
    rid_trim = rid_trim or (rid.split(".")[0] + ".trim")
    I = new_interp()
    q = N.SPLITTER_Q
    fi = I.facts.func(q)
    kw = dict(file=LFILE, line=fi.node.lineno, function=fi.qualname)
    rows, problems, _ = splitter_table()
    roles = _roles(rows) if rows else None
    if roles is None:
        rep.ob(rid, "splitter roles identifiable", False, **kw, expected="cell/col/start_col", found=problems)
        return
    cellv, colv, startv = roles
    loop = _splitter_body(fi)
    pre = {}
    for s in fi.node.body[: fi.node.body.index(loop)]:
        if isinstance(s, ast.Assign) and len(s.targets) == 1 and isinstance(s.targets[0], ast.Name):
            pre[s.targets[0].id] = s.value
    I2 = new_interp()
    I2.stack.append(Activation(fi, 0))
    st = State()
    st.env[fi.params()[-1]] = ("param", fi.params()[-1])
    I2.exec_block([s for s in fi.node.body[: fi.node.body.index(loop)] if not (isinstance(s, ast.Expr) and isinstance(s.value, ast.Constant))], st, [])
    I2.stack.pop()
    for k_, v_ in list(st.env.items()):
        if isinstance(v_, tuple) and v_ and v_[0] == "ref" and isinstance(I2.obj(v_), HInst):
            for (b_, a_), val_ in st.ext.items():
                if b_ == v_:
                    st.env[f"{k_}.{a_}"] = val_         # state kept in an object's fields (see splitter_table)
    if colv == ENUM_COL:
        es = [e for e in (_enum_start(v, ("param", fi.params()[-1])) for v in st.env.values()) if e is not None]
        st.env[ENUM_COL] = const(es[0] - 1) if len(es) == 1 else NONE
    c0v, s0v = st.env.get(colv), st.env.get(startv)
    koff = _yield_offset(rows, startv)
    rep.ob(rid, "the column counter starts at a fixed value (nothing consumed)", c0v is not None and is_const(c0v) and isinstance(c0v[1], int), **kw,
           expected="col = 0", found=fmt(c0v, I2) if c0v is not None else None)
    rep.ob(rid, "the first cell would start at column 1", s0v is not None and is_const(s0v) and isinstance(s0v[1], int) and koff is not None and s0v[1] + koff == 1, **kw,
           expected="start_col = 1", found=(fmt(s0v, I2) if s0v is not None else None, koff))
    cell0 = st.env.get(cellv)
    if isinstance(I2.obj(cell0), HList) and not I2.obj(cell0).segs:
        cell0 = const("")           # an empty list of pieces spells the empty text
    rep.eq(rid, "the cell text starts empty", const(""), cell0, **kw)
    # table_cells
    I, fi2, tree, rv, st2 = _run(f"{LQ}.{N.TABLE_CELLS}")
    rep.used_function(fi2.qualname)
    selft = ("param", fi2.params()[0])
    kw2 = dict(file=LFILE, line=fi2.node.lineno, function=fi2.qualname)
    segs = nf.flatten_segs(I, nf.list_content(I, rv, tree), tree) if rv[0] == "ref" else []
    if not (len(segs) == 1 and segs[0][0] == "loop"):
        rep.ob(rid, "table_cells maps the splitter's output one to one", False, **kw2, expected="one item per split cell", found=fmt(rv, I))
        return
    lid = segs[0][1]
    it = I.loops[lid].get("iter")
    g = I.obj(it)
    trimmed = ("attr", selft, N.TRIMMED)
    ok = isinstance(g, HGen) and g.qualname == q and g.args and g.args[-1] in (("call", ".strip", (trimmed,), ()), trimmed, ("call", ".rstrip", (trimmed,), ()))
    rep.ob(rid, "the splitter scans the left-trimmed row (so splitter columns are relative to the first '|')", ok, **kw2,
           expected="split_table_cells(trimmed.strip())", found=[fmt(a, I) for a in g.args] if isinstance(g, HGen) else fmt(it, I))
    el = ("elem", lid)
    cell, col = ("item", el, const(0)), ("item", el, const(1))
    elts = [sg for sg in segs[0][2]]
    rep.ob(rid, "each split cell yields one cell item, unfiltered", len(elts) == 1 and elts[0][0] == "e" and not I.loops[lid].get("conds"), **kw2,
           expected="one item per cell", found=[x[0] for x in elts])
    app = [("mutate", rv, "append", (x[1],), None) for x in elts if x[0] == "e"]
    for n in app:
        d = nf.resolve_ref_dict(I, n[3][0], tree)
        if not d or set(d) != {"column", "text"}:
            rep.ob(rid, "a cell item is {column, text}", False, **kw2, expected="{column, text}", found=fmt(n[3][0], I))
            continue
        text = d["text"][0]
        colt = d["column"][0]
        # text = rtrim(ltrim(cell)) with blank-but-not-LF classes
        ok_t = False
        l = None
        if text[0] == "call" and text[1] == "re.sub" and len(text[2]) == 3 and is_const(text[2][0]) and is_const(text[2][1], ""):
            inner = text[2][2]
            # the left trim: ``re.sub(P, '', cell)``, or ``cell[m.end():]`` with ``m = re.match(P, cell)`` (P may match nothing,
            # so m is never None) - the same characters go, and m.end() is how many
            cut = None
            if inner[0] == "slice" and inner[1] == cell and inner[3] == NONE and inner[4] == NONE and inner[2][0] == "call" and inner[2][1] == ".end" \
                    and len(inner[2][2]) == 1 and inner[2][2][0][0] == "call" and inner[2][2][0][1] == "re.match" and len(inner[2][2][0][2]) == 2 \
                    and is_const(inner[2][2][0][2][0]) and inner[2][2][0][2][1] == cell:
                mcall = inner[2][2][0]
                try:
                    can_be_empty = regexnf.nf(mcall[2][0][1], _re_flags(mcall[3]))
                    can_be_empty = all(it_[0] == "at" or (it_[0] == "rep" and it_[1] == 0) for it_ in can_be_empty)
                except Exception:
                    can_be_empty = False
                if can_be_empty:
                    cut = inner[2]
                    inner = ("call", "re.sub", (mcall[2][0], const(""), cell), mcall[3])
            if inner[0] == "call" and inner[1] == "re.sub" and len(inner[2]) == 3 and is_const(inner[2][0]) and is_const(inner[2][1], "") and inner[2][2] == cell:
                f1, f2 = _re_flags(inner[3]), _re_flags(text[3])
                ok_l = regexnf.same(inner[2][0][1], f1, r"^[^\S\n]*", re.U)
                # anchored at the very end of the text: '$' would also match in front of a final line feed and take the
                # blanks before it (cell text 'a \n' must stay as it is - only blanks at the ends go)
                ok_r = regexnf.same(text[2][0][1], f2, r"[^\S\n]*\Z", re.U)
                ok_t = ok_l and ok_r
                l = inner
                rep.ob(rid_trim, "leading blanks (whitespace except line feed) are removed from a cell", ok_l, **kw2, expected=regexnf.describe(r"^[^\S\n]*", re.U),
                       found=regexnf.describe(inner[2][0][1], f1))
                rep.ob(rid_trim, "trailing blanks (whitespace except line feed) are removed at the very end of a cell only (a line feed at the end, and blanks before it, stay)",
                       ok_r, **kw2, expected=regexnf.describe(r"[^\S\n]*\Z", re.U),
                       found=regexnf.describe(text[2][0][1], f2))
        if l is None:
            rep.ob(rid_trim, "cell text = split cell with blanks (not line feeds) trimmed at both ends, after unescaping", False, **kw2,
                   expected="re.sub('[^\\S\\n]*$', '', re.sub('^[^\\S\\n]*', '', cell))", found=fmt(text, I))
            continue
        want = ("binop", "Add", ("binop", "Add", col, ("attr", selft, N.INDENT)), ("binop", "Sub", ("call", "len", (cell,), ()), ("call", "len", (l,), ())))
        ok_col = lin_eq(colt, want)
        if not ok_col and cut is not None:
            ok_col = lin_eq(colt, ("binop", "Add", ("binop", "Add", col, ("attr", selft, N.INDENT)), cut))      # m.end() is that number
        rep.ob(rid, "cell column = splitter column + line indent + number of leading blanks removed", ok_col, **kw2, expected=fmt(want, I), found=fmt(colt, I))


def rule_doc_escapes(rep: Report, rid="C12.doc") -> None:
    """README 'Table cell escaping' documents exactly the three escapes the splitter implements."""
    txt = read_text("README.md")
    rep.used_file("README.md")
    m = re.search(r"^## Table cell escaping\s*\n(.*?)(?=^## )", txt, re.S | re.M)
    if not m:
        raise AnalysisError("README.md: section 'Table cell escaping' vanished")
    documented = set(re.findall(r"`(\\\\?.)`", m.group(1)))
    documented = {d for d in documented if d.startswith("\\")}
    rows, problems, fi = splitter_table()
    implemented = set()
    roles = _roles(rows) if rows else None
    if rows and roles:
        cellv = roles[0]
        for r in rows:
            if r["first"] or r["seq"][0] != "\\" or r["seq"][1] is END:
                continue
            got = _str_parts(r["env"].get(cellv, ("undef",)))
            pair = "\\" + r["seq"][1]
            if len(got) == 2 and is_const(got[1]) and got[1][1] != pair:
                implemented.add(pair)
    rep.eq(rid, "the documented escapes are the ones the splitter translates (everything else is kept as written)",
           sorted(documented), sorted(implemented), file=LFILE, line=fi.node.lineno, function=fi.qualname)


def rule_scanner(rep: Report, rid_line="C04.line", rid_scan="C18.scan") -> None:
    I, fi, tree, rv, st = _run(f"{SQ}.__init__")
    rep.used_file(SFILE)
    rep.used_function(fi.qualname)
    selft = ("param", fi.params()[0])
    kw = dict(file=SFILE, line=fi.node.lineno, function=fi.qualname)
    rep.eq(rid_line, "the line counter starts at 0", const(0), st.ext.get((selft, N.SCANNER_LINENO)), **kw)
    sios = [n for n, ctx in nf.iter_nodes(tree) if n[0] == "extcall" and n[1] == "io.StringIO"]
    srcp = ("param", fi.params()[1])
    io_t = st.ext.get((selft, N.SCANNER_IO))
    def sio_ok(t):
        return t is not None and t[0] == "call" and t[1] == "io.StringIO" and t[2] == (srcp,) and (not t[3] or all(k == "newline" and is_const(v, "\n") for k, v in t[3]))
    def alts(t):
        return alts(t[2]) + alts(t[3]) if t is not None and t[0] == "cond" else [t]
    ok_sio = io_t is not None and any(sio_ok(a) for a in alts(io_t)) and all(sio_ok(a) or (a is not None and a[0] == "call" and a[1] == "open") for a in alts(io_t))
    rep.ob(rid_scan, "source text is read through io.StringIO(text) with default newline handling (lines end at line feeds only; lone CR is not a line break)", ok_sio, **kw,
           expected="io.StringIO(path_or_str)", found=fmt(io_t, I) if io_t else None)
    # a path is opened as plain UTF-8 text: the same characters a caller would get by reading the file and passing the text
    # (no byte-order-mark stripping, no error replacement, no other encoding)
    for a in alts(io_t) if io_t is not None else []:
        if a is not None and a[0] == "call" and a[1] == "open":
            kws = dict(a[3] or ())
            enc = kws.get("encoding")
            mode = a[2][1] if len(a[2]) > 1 else kws.get("mode")
            ok_open = a[2][:1] == (srcp,) and enc is not None and is_const(enc) and str(enc[1]).lower().replace("-", "").replace("_", "") == "utf8" \
                and (mode is None or (is_const(mode) and mode[1] in ("r", "rt"))) and set(kws) <= {"encoding", "mode"}
            rep.ob(rid_scan, "a source file is opened as plain UTF-8 text (same characters as the file's text passed as a string)", ok_open, **kw,
                   expected="open(path, encoding='utf8')", found=fmt(a, I))
    I, fi, tree, rv, st = _run(f"{SQ}.read")
    rep.used_function(fi.qualname)
    selft = ("param", fi.params()[0])
    kw = dict(file=SFILE, line=fi.node.lineno, function=fi.qualname)
    ln = ("attr", selft, N.SCANNER_LINENO)
    inc = ("binop", "Add", ln, const(1))
    sets = [n for n, ctx in nf.iter_nodes(tree) if n[0] == "setattr" and n[1] == selft and n[2] == N.SCANNER_LINENO]
    rep.ob(rid_line, "each read increments the line counter exactly once, unconditionally", len(sets) == 1 and lin_eq(sets[0][3], inc)
           and not nf.guards_in_ctx([c for n, c in nf.iter_nodes(tree) if n is sets[0]][0]), **kw, expected="self.line_number += 1", found=[fmt(s[3], I) for s in sets])
    reads = [n for n, ctx in nf.iter_nodes(tree) if n[0] == "mcall" and n[2] == ("attr", selft, N.SCANNER_IO)]
    names = [n[1] for n in reads]
    rep.ob(rid_scan, "each read consumes exactly one physical line with readline() (lines end at line feeds only)", names == ["readline"] and not reads[0][3], **kw,
           expected="line = self.io.readline()", found=names or [n[1] for n, _ in nf.iter_nodes(tree) if n[0] in ("mcall", "extcall")])
    linev = ("call", ".readline", (("attr", selft, N.SCANNER_IO),), ())
    # the returned value may be one Token or a decision between Tokens (early return at end of input): decide per case
    cases = []
    for a1, tok in nf.decisions(rv) or []:
        line = st.ext.get((tok, "line"))
        for a2, lv in (nf.decisions(nf.resolve_conds(line, a1)) if line is not None else None) or [({}, None)]:
            cases.append(({**a1, **a2}, tok, lv))
    ok_tok = bool(cases) and all(isinstance(I.obj(tok), HInst) and I.obj(tok).cls.name == "Token" for _, tok, _ in cases)
    rep.ob(rid_scan, "each read returns one new token", ok_tok, **kw, expected="Token(...)", found=fmt(rv, I))
    if not ok_tok:
        return
    ok_loc = True
    ok = True
    seen_truth = set()
    for assign, tok, lv in cases:
        loc = nf.resolve_conds(st.ext.get((tok, "location")), assign) if st.ext.get((tok, "location")) is not None else None
        ld = nf.resolve_ref_dict(I, loc, tree) if loc else None
        ok_loc = ok_loc and ld is not None and set(ld) == {"line"} and lin_eq(ld["line"][0], inc)
        if set(assign) != {linev}:
            ok = False
            continue
        seen_truth.add(assign[linev])
        if assign[linev]:
            gl = I.obj(lv) if lv is not None else None
            if isinstance(gl, HInst) and gl.cls.name == "GherkinLine":
                t = st.ext.get((lv, N.RAW))
                nnum = st.ext.get((lv, N.LINENO))
                t = nf.resolve_conds(t, assign) if t is not None else None
                nnum = nf.resolve_conds(nnum, assign) if nnum is not None else None
                ok = ok and t == linev and nnum is not None and lin_eq(nnum, inc)
            else:
                ok = False
        else:
            ok = ok and lv in (linev, NONE, const(""))
    ok = ok and seen_truth == {True, False}
    rep.ob(rid_line, "the token's location is {'line': the incremented counter} (1-based physical line; column added by the matcher)",
           ok_loc, **kw, expected="{'line': self.line_number} after the increment", found=[fmt(st.ext.get((tok, "location")), I) for _, tok, _ in cases][:2])
    rep.ob(rid_scan, "a non-empty read becomes a GherkinLine of exactly that text and number; an empty read (end of input) becomes the EOF token", ok, **kw,
           expected="Token(GherkinLine(line, n) if line else line, location)", found=[(sorted((fmt(k, I), v) for k, v in a.items()), fmt(lv, I) if lv else None) for a, _, lv in cases])


def rule_source_io(rep: Report, rid="C16.src") -> None:
    """source_event reads the file as UTF-8 without newline translation."""
    I, fi, tree, rv, st = _run("gherkin.stream.source_events.source_event")
    rep.used_file(fi.file)
    rep.used_function(fi.qualname)
    kw = dict(file=fi.file, line=fi.node.lineno, function=fi.qualname)
    opens = [n for n, ctx in nf.iter_nodes(tree) if n[0] == "extcall" and n[1] == "open"]
    ok = False
    found = None
    if len(opens) == 1:
        a = opens[0][2]
        kws = {x[1]: x[2] for x in a if isinstance(x, tuple) and x and x[0] == "kw"}
        pos = [x for x in a if not (isinstance(x, tuple) and x and x[0] == "kw")]
        found = {"args": [fmt(x, I) for x in pos], **{k: fmt(v, I) for k, v in kws.items()}}
        enc = kws.get("encoding")
        ok = pos[:1] == [("param", fi.params()[0])] and is_const(kws.get("newline"), "") and enc is not None and is_const(enc) and str(enc[1]).lower().replace("-", "") == "utf8" \
            and (len(pos) == 1 or is_const(pos[1], "r"))
    rep.ob(rid, "the source file is opened as UTF-8 text with newline='' (no newline translation)", ok, **kw, expected="open(path, encoding='utf8', newline='')", found=found)
    d = nf.resolve_ref_dict(I, rv, tree)
    src = nf.resolve_ref_dict(I, d["source"][0], tree) if d and "source" in d else None
    ok = src is not None and set(src) == {"uri", "data", "mediaType"} and src["uri"][0] == ("param", fi.params()[0]) \
        and src["data"][0][0] == "call" and src["data"][0][1] == ".read" and len(src["data"][0][2]) == 1 and src["data"][0][2][0][0] == "call" and src["data"][0][2][0][1] == "open" \
        and is_const(src["mediaType"][0], "text/x.cucumber.gherkin+plain")
    rep.ob("C17.source", "the source envelope is {uri: path, data: whole file text unchanged, mediaType: Gherkin plain}", ok, **kw,
           expected="{'source': {'uri': path, 'data': open(...).read(), 'mediaType': 'text/x.cucumber.gherkin+plain'}}", found=fmt(rv, I))
    # SourceEvents: one source event per path, in the order given
    sq = "gherkin.stream.source_events.SourceEvents"
    if I.facts.has_func(f"{sq}.enum") and I.facts.has_func(f"{sq}.__init__"):
        I1, fi1, tree1, rv1, st1 = _run(f"{sq}.__init__")
        s1 = ("param", fi1.params()[0])
        attr = next((k2[1] for k2, v2 in st1.ext.items() if k2[0] == s1 and len(fi1.params()) > 1 and v2 == ("param", fi1.params()[1])), None)
        stub = lambda I_, st_, fi_, args, kwargs, n, tree_: ("source_event", args[0] if args else None)
        I2, fi2, tree2, rv2, st2 = _run(f"{sq}.enum", {"gherkin.stream.source_events.source_event": stub})
        rep.used_function(fi2.qualname)
        s2 = ("param", fi2.params()[0])
        paths = ("attr", s2, attr) if attr else None
        ok = False
        if paths is not None:
            if rv2 == ("call", "map", (("func", "gherkin.stream.source_events.source_event"), paths), ()):
                ok = True
            else:
                segs = nf.flatten_segs(I2, nf.value_segs(I2, rv2, tree2), tree2) if rv2[0] in ("ref", "cond") else []
                segs = [sg for sg in segs if not (sg[0] == "op")]
                ys = [n for n, c in nf.iter_nodes(tree2) if n[0] == "yield"]
                if len(segs) == 1 and segs[0][0] == "loop":
                    lid = segs[0][1]
                    ok = I2.loops[lid].get("iter") == paths and not I2.loops[lid].get("conds") and list(segs[0][2]) == [("e", ("source_event", ("elem", lid)))]
                elif len(ys) == 1:
                    lp = [c for n, c in nf.iter_nodes(tree2) if n is ys[0]][0]
                    loops = nf.loops_in_ctx(lp)
                    ok = len(loops) == 1 and I2.loops[loops[0]].get("iter") == paths and ys[0][1] == ("source_event", ("elem", loops[0])) and not nf.guards_in_ctx(lp)
        rep.ob("C17.source", "the source stream yields one source event per path, in the order given", ok, file=fi2.file, line=fi2.node.lineno, function=fi2.qualname,
               expected="map(source_event, self.paths)", found=fmt(rv2, I2))


def rule_token(rep: Report, rid="C18.token") -> None:
    """Token: eof() is 'no line'; the constructor keeps the line and the location object it is given."""
    I, fi, tree, rv, st = _run("gherkin.token.Token.eof")
    rep.used_file(fi.file)
    rep.used_function(fi.qualname)
    selft = ("param", fi.params()[0])
    line = ("attr", selft, "line")
    forms = [mk_not(line), ("cmp", "Is", line, NONE), ("cmp", "Eq", line, const(""))]
    # the scanner's EOF token carries the empty string read at end of input, so only falsiness is a correct test
    rep.ob(rid, "Token.eof() is true exactly for the token without a line (the scanner's end-of-input token)", rv == forms[0],
           file=fi.file, line=fi.node.lineno, function=fi.qualname, expected="not self.line", found=fmt(rv, I))
    # ... which presupposes that a scanned line is never false: the line class defines no truth value of its own
    lcls = facts().cls(LQ)
    odd = [f"{c.name}.{m}" for c in [lcls] + [x for x in facts().all_classes() if lcls in x.mro() and x is not lcls] for m in ("__bool__", "__len__") if m in c.methods]
    rep.ob(rid, "a scanned line object is never false (GherkinLine defines neither __bool__ nor __len__), so only the end-of-input token is EOF", not odd,
           file=LFILE, line=lcls.node.lineno if hasattr(lcls, "node") else None, function=LQ, expected="no __bool__ / __len__", found=odd or "none defined")
    I, fi, tree, rv, st = _run("gherkin.token.Token.__init__")
    rep.used_function(fi.qualname)
    p = fi.params()
    selft = ("param", p[0])
    ok = st.ext.get((selft, "line")) == ("param", p[1]) and st.ext.get((selft, "location")) == ("param", p[2])
    rep.ob(rid, "a token keeps the line and the location it was created with", ok, file=fi.file, line=fi.node.lineno, function=fi.qualname,
           expected="self.line = gherkin_line; self.location = location", found={k[1]: fmt(v, I) for k, v in st.ext.items()})
    # the printable value the error messages quote: the Token method the error classes call (found by that use; the
    # messages themselves are checked on their normal forms, into which it is inlined)
    tcls = facts().cls("gherkin.token.Token")
    em = facts().modules.get("gherkin.errors")
    used = set()
    for efi in (list(em.functions.values()) + [m_ for c_ in em.classes.values() for m_ in c_.methods.values()]) if em else []:
        for n in ast.walk(efi.node):
            if isinstance(n, ast.Call) and isinstance(n.func, ast.Attribute) and n.func.attr in tcls.methods and n.func.attr not in ("eof", "detach", "__init__") \
                    and not n.args:
                used.add(n.func.attr)
    for nm in sorted(used):
        I, fi, tree, rv, st = _run(f"gherkin.token.Token.{nm}")
        rep.used_function(fi.qualname)
        selft = ("param", fi.params()[0])
        line = ("attr", selft, "line")
        want = ("cond", line, ("attr", line, N.TRIMMED), const("EOF"))
        rep.ob(rid, "a token's printable value is 'EOF' or its left-trimmed line", rv == want, file=fi.file, line=fi.node.lineno, function=fi.qualname,
               expected=fmt(want, I), found=fmt(rv, I))
