"""Rules on errors.py and the parser's error handling (C01.cap, C04.err, C14.msg/faults/noast, C17.order)."""
from __future__ import annotations

import ast

from ..absint import new_interp, Interp, HList, HDict, HInst, HGen, NONE, const, is_const, fmt, fmt_tree, mk_not
from ..astutil import unparse
from ..names import N
from ..common import AnalysisError, Report
from ..facts import facts
from .. import nf
from .matcher_rules import lin_eq
from .line_rules import _str_parts
from . import parser_rules as pr

EFILE = "python/gherkin/errors.py"
EQ = "gherkin.errors"
PFILE = "python/gherkin/parser.py"


def _run(q, intr=None):
    I = new_interp()
    if intr:
        I.intrinsics.update(intr)
    fi = I.facts.func(q)
    tree, rv, st = I.run(q)
    return I, fi, tree, rv, st


def _super_init_msg(tree):
    for n, ctx in nf.iter_nodes(tree):
        if n[0] == "mcall" and n[1] == "__init__" and n[2][0] == "super":
            return n[3][0] if n[3] else None
    return None


def _merge(parts):
    out = []
    for p in parts:
        if is_const(p) and isinstance(p[1], str) and out and is_const(out[-1]) and isinstance(out[-1][1], str):
            out[-1] = const(out[-1][1] + p[1])
        else:
            out.append(p)
    return out


def _prefix(loc):
    col = ("cond", ("cmp", "In", const("column"), loc), ("item", loc, const("column")), const(0))
    return [const("("), ("call", "str", (("item", loc, const("line")),), ()), const(":"), ("call", "str", (col,), ()), const("): ")]


def _exc_loc(I, tree, exc):
    for n, ctx in nf.iter_nodes(tree):
        if n[0] == "setattr" and n[1] == exc and n[2] == "location":
            return n[3]
    return None


def rule_messages(rep: Report, rid="C14.msg") -> None:
    rep.used_file(EFILE)
    # ParserException: "(line:column|0): message", location stored
    I, fi, tree, rv, st = _run(f"{EQ}.ParserException.__init__")
    rep.used_function(fi.qualname)
    p = fi.params()
    selft, msg, loc = ("param", p[0]), ("param", p[1]), ("param", p[2])
    kw = dict(file=EFILE, line=fi.node.lineno, function=fi.qualname)
    rep.eq(rid, "a parser error keeps its location", loc, st.ext.get((selft, "location")), **kw)
    m = _super_init_msg(tree)
    col = ("cond", ("cmp", "In", const("column"), loc), ("item", loc, const("column")), const(0))
    want = [const("("), ("call", "str", (("item", loc, const("line")),), ()), const(":"), ("call", "str", (col,), ()), const("): "), msg]
    rep.eq(rid, "every error message starts with its own '(line:column): ' position (column 0 when unknown)", [fmt(x, I) for x in want],
           [fmt(x, I) for x in _str_parts(m)] if m else None, **kw)
    # UnexpectedTokenException
    I, fi, tree, rv, st = _run(f"{EQ}.UnexpectedTokenException.__init__")
    rep.used_function(fi.qualname)
    p = fi.params()
    selft, tok, exp = ("param", p[0]), ("param", p[1]), ("param", p[2])
    kw = dict(file=EFILE, line=fi.node.lineno, function=fi.qualname)
    m = _super_init_msg(tree)
    line = ("attr", tok, "line")
    quoted = ("cond", line, ("call", ".strip", (("attr", line, N.TRIMMED),), ()), ("call", ".strip", (const("EOF"),), ()))
    want_body = [const("expected: "), ("call", ".join", (const(", "), exp), ()), const(", got '"), quoted, const("'")]
    got = _str_parts(m) if m else []
    # the position prefix is built from the location chosen below; compare the message body only
    nprefix = 4
    ok_body = len(got) >= len(_merge([const("): ")] + want_body)) and got[-(len(want_body)):] [1:] == want_body[1:] \
        and is_const(got[-len(want_body)]) and str(got[-len(want_body)][1]).endswith("): expected: ")
    rep.ob(rid, "an unexpected-line message lists the expected token kinds joined by ', ' and quotes the trimmed line", ok_body, **kw,
           expected=[fmt(x, I) for x in want_body], found=[fmt(x, I) for x in got[-len(want_body):]])
    loc = st.ext.get((selft, "location"))
    tl = ("attr", tok, "location")
    colv = ("cond", ("cmp", "In", const("column"), tl), ("item", tl, const("column")), NONE)
    ok = False
    if loc is not None and loc[0] == "cond" and loc[1] == colv and loc[2] == tl:
        d = nf.resolve_ref_dict(I, loc[3], tree)
        ok = d is not None and set(d) == {"line", "column"} and d["line"][0] == ("item", tl, const("line")) \
            and lin_eq(d["column"][0], ("binop", "Add", ("attr", line, "indent"), const(1)))
    rep.ob("C04.err" if rid.startswith("C04") else rid, "an unexpected-line error is located at the token's own location, falling back to (line, indent + 1) when no column was set",
           ok, **kw, expected="token.location if it has a column else {'line': token line, 'column': token.line.indent + 1}", found=fmt(loc, I) if loc else None)
    # UnexpectedEOFException
    I, fi, tree, rv, st = _run(f"{EQ}.UnexpectedEOFException.__init__")
    rep.used_function(fi.qualname)
    p = fi.params()
    selft, tok, exp = ("param", p[0]), ("param", p[1]), ("param", p[2])
    kw = dict(file=EFILE, line=fi.node.lineno, function=fi.qualname)
    m = _super_init_msg(tree)
    want = _merge(_prefix(("attr", tok, "location")) + [const("unexpected end of file, expected: "), ("call", ".join", (const(", "), exp), ())])
    rep.eq(rid, "an unexpected-end-of-file message is '(line:col): unexpected end of file, expected: ' + the expected kinds joined by ', '",
           [fmt(x, I) for x in want], [fmt(x, I) for x in _str_parts(m)] if m else None, **kw)
    rep.eq(rid, "an unexpected-end-of-file error is located at the EOF token (one line past the last)", ("attr", tok, "location"), st.ext.get((selft, "location")), **kw)
    # CompositeParserException keeps the list as collected
    I, fi, tree, rv, st = _run(f"{EQ}.CompositeParserException.__init__")
    rep.used_function(fi.qualname)
    p = fi.params()
    kw = dict(file=EFILE, line=fi.node.lineno, function=fi.qualname)
    rep.eq(rid, "the composite error carries the collected errors themselves, in collection order", ("param", p[1]), st.ext.get((("param", p[0]), "errors")), **kw)
    muts = [n for n, _ in nf.iter_nodes(tree) if n[0] == "mutate"]
    rep.ob(rid, "the composite error does not reorder or drop errors", not muts, **kw, expected="no sort/pop", found=[(n[2], n[4]) for n in muts])
    # subclasses
    f = facts()
    root = f.cls(f"{EQ}.ParserError")
    for cn in ("ParserException", "CompositeParserException"):
        c = f.cls(f"{EQ}.{cn}")
        rep.ob(rid, f"{cn} is a ParserError", root in c.mro(), file=EFILE, line=c.node.lineno, function=c.qualname, expected="subclass of ParserError", found=[x.name for x in c.mro()])
    for cn in ("NoSuchLanguageException", "AstBuilderException", "UnexpectedEOFException", "UnexpectedTokenException"):
        c = f.cls(f"{EQ}.{cn}")
        pe = f.cls(f"{EQ}.ParserException")
        rep.ob(rid, f"{cn} is a ParserException (collected and located like the others)", pe in c.mro(), file=EFILE, line=c.node.lineno, function=c.qualname,
               expected="subclass of ParserException", found=[x.name for x in c.mro()])


def rule_error_locations(rep: Report, rid="C04.err") -> None:
    rule_messages(rep, rid)


def cap_threshold(test_src: ast.expr, lenvar: str):
    """Smallest n >= 0 with test(n) true, for a comparison of len(<errors>) against a constant."""
    for n in range(0, 40):
        try:
            if eval(compile(ast.Expression(test_src), "<cap>", "eval"), {"__builtins__": {}}, {lenvar: n}):
                return n
        except Exception:
            return None
    return None


def rule_cap(rep: Report, rid="C01.cap") -> None:
    """add_error: de-duplicated by message; appended; the composite is raised as soon as the list holds 11 errors."""
    I, fi, tree, rv, st = _run("gherkin.parser.Parser.add_error")
    rep.used_file(PFILE)
    rep.used_function(fi.qualname)
    p = fi.params()
    ctx_t, err = ("param", p[1]), ("param", p[2])
    errs = ("attr", ctx_t, "errors")
    kw = dict(file=PFILE, line=fi.node.lineno, function=fi.qualname)
    apps = [(n, c) for n, c in nf.iter_nodes(tree) if n[0] == "mutate" and n[1] == errs]
    ok = len(apps) == 1 and apps[0][0][2] == "append" and apps[0][0][3] == (err,)
    rep.ob(rid, "an error is collected by appending it to the context's error list (order of discovery)", ok, **kw,
           expected="context.errors.append(error)", found=[(n[2], [fmt(a, I) for a in n[3]]) for n, _ in apps])
    if not ok:
        return
    gs = nf.guards_in_ctx(apps[0][1])
    dedup_ok = False
    if len(gs) == 1 and gs[0][1] is False and gs[0][0][0] == "cmp" and gs[0][0][1] == "In" and gs[0][0][2] == ("call", "str", (err,), ()):
        coll = gs[0][0][3]
        o = I.obj(coll)
        if isinstance(o, HList) and len(o.segs) == 1 and o.segs[0][0] == "loop":
            lid = o.segs[0][1]
            dedup_ok = I.loops[lid].get("iter") == errs and o.segs[0][2] == [("e", ("call", "str", (("elem", lid),), ()))] and not I.loops[lid].get("conds")
    rep.ob(rid, "identical messages are collected once (de-duplication by str(error) against this parse's errors)", dedup_ok, **kw,
           expected="if str(error) not in (str(e) for e in context.errors)", found=[(fmt(c, I), p2) for c, p2 in gs])
    # the cap: a raise right after the append, guarded by len(context.errors) <cmp> const
    raises = [(n, c) for n, c in nf.iter_nodes(tree) if n[0] == "raise"]
    good = False
    thr = None
    found = None
    for n, c in raises:
        g2 = nf.guards_in_ctx(c)
        extra = [x for x in g2 if x not in gs]
        if len(extra) == 1 and extra[0][0][0] == "cmp" and extra[0][0][2] == ("call", "len", (errs,), ()) and is_const(extra[0][0][3]):
            op = {"Gt": ">", "GtE": ">=", "Eq": "==", "Lt": "<", "LtE": "<="}.get(extra[0][0][1])
            src = f"(n {op} {extra[0][0][3][1]})" if extra[0][1] else f"(not (n {op} {extra[0][0][3][1]}))"
            thr = cap_threshold(ast.parse(src, mode="eval").body, "n") if op else None
            found = src
            o = I.obj(n[1])
            carried = st.ext.get((n[1], "errors")) if st else None
            e2 = None
            for m2, _ in nf.iter_nodes(tree):
                if m2[0] == "setattr" and m2[1] == n[1] and m2[2] == "errors":
                    e2 = m2[3]
            good = isinstance(o, HInst) and o.cls.name == "CompositeParserException" and e2 == errs
    rep.ob(rid, "collecting stops with the composite error exactly when the 11th distinct error has been appended", good and thr == 11, **kw,
           expected="append, then if len(context.errors) > 10: raise CompositeParserException(context.errors)",
           found=f"raise guarded by {found} -> first satisfied at {thr} errors" if found else f"{len(raises)} raise(s), none guarded by the list length right after the append")
    # the errors list is written only here
    f = facts()
    sites = 0
    for fn in f.all_functions():
        if fn.module.name == "gherkin.inout":
            continue
        for n in ast.walk(fn.node):
            if isinstance(n, ast.Call) and isinstance(n.func, ast.Attribute) and n.func.attr in Interp.MUTATORS and isinstance(n.func.value, ast.Attribute) \
                    and n.func.value.attr == "errors" and not (isinstance(n.func.value.value, ast.Name) and n.func.value.value.id == "self" and fn.cls and fn.cls.name != "ParserContext"):
                sites += 1
                rep.ob(rid, "the collected-error list is only changed by add_error", fn.qualname == fi.qualname, file=fn.file, line=n.lineno, function=fn.qualname,
                       expected=fi.qualname, found=fn.qualname)
    rep.floor("error list mutation sites", sites, 1)


def rule_handle_external(rep: Report, rid="C14.wrap") -> None:
    I, fi, tree, rv, st = _run("gherkin.parser.Parser.handle_external_error",
                               {"gherkin.parser.Parser.add_error": lambda I_, st_, fi_, args, kw_, n, tree_: (tree_.append(("add_error", tuple(args), getattr(n, "lineno", None))), NONE)[1]})
    rep.used_function(fi.qualname)
    p = fi.params()
    selft, ctxp, dflt, arg, act = [("param", x) for x in p[:5]]
    kw = dict(file=PFILE, line=fi.node.lineno, function=fi.qualname)
    stop = ("attr", selft, "stop_at_first_error")
    top = [n for n in tree if n[0] == "if"]
    ok_shape = len(top) == 1 and nf.norm_guard(top[0][1], True)[0] == stop
    rep.ob(rid, "the wrapper branches on stop-at-first-error only", ok_shape, **kw, expected="if self.stop_at_first_error", found=[fmt(n[1], I) for n in top])
    if not ok_shape:
        return
    pol = nf.norm_guard(top[0][1], True)[1]
    stop_tree, coll_tree = (top[0][2], top[0][3]) if pol else (top[0][3], top[0][2])
    calls = [n for n, _ in nf.iter_nodes(stop_tree) if n[0] == "dyncall"]
    trys = [n for n, _ in nf.iter_nodes(stop_tree) if n[0] == "try"]
    rets = [n for n, _ in nf.iter_nodes(stop_tree) if n[0] == "return"]
    rep.ob(rid, "stop mode: the action runs unprotected and its result is returned (the first error propagates as raised)",
           len(calls) == 1 and calls[0][1] == act and calls[0][2] == (arg,) and not trys and len(rets) == 1, **kw,
           expected="return action(argument)", found={"calls": len(calls), "try": len(trys)})
    trys = [n for n in coll_tree if n[0] == "try"]
    if len(trys) != 1:
        rep.ob(rid, "collect mode: the action runs inside one try", False, **kw, expected="try: return action(argument)", found=len(trys))
        return
    t = trys[0]
    body_calls = [n for n, _ in nf.iter_nodes(t[1]) if n[0] == "dyncall"]
    rep.ob(rid, "collect mode: exactly the action call is protected", len(body_calls) == 1 and body_calls[0][1] == act and body_calls[0][2] == (arg,), **kw,
           expected="action(argument)", found=len(body_calls))
    handlers = {h[0]: h for h in t[2]}
    rep.eq(rid, "collect mode: parser exceptions (single and composite) are caught, nothing broader", ["CompositeParserException", "ParserException"], sorted(handlers), **kw)
    h = handlers.get("ParserException")
    if h:
        adds = [n for n, _ in nf.iter_nodes(h[2]) if n[0] == "add_error"]
        ok = len(adds) == 1 and adds[0][1][1] == ctxp and adds[0][1][2][0] == "excvar"
        rep.ob(rid, "a parser exception from a matcher/builder call becomes one collected error", ok, **kw, expected="self.add_error(context, e)", found=len(adds))
    h = handlers.get("CompositeParserException")
    if h:
        adds = [(n, c) for n, c in nf.iter_nodes(h[2]) if n[0] == "add_error"]
        ok = False
        if len(adds) == 1:
            loops = nf.loops_in_ctx(adds[0][1])
            ok = len(loops) == 1 and adds[0][0][1][2] == ("elem", loops[0]) and I.loops[loops[0]].get("iter", ("x",))[0] == "attr" \
                and I.loops[loops[0]]["iter"][2] == "errors" and not I.loops[loops[0]].get("conds")
        rep.ob(rid, "a composite exception contributes each of its errors, in order", ok, **kw, expected="for error in e.errors: self.add_error(context, error)", found=len(adds))
    after = [n for n in coll_tree if n[0] == "return"]
    rep.ob(rid, "collect mode: after a collected error the wrapper returns the caller's default (no match / carry on)", len(after) == 1 and after[0][1] == dflt, **kw,
           expected="return default_value", found=[fmt(n[1], I) for n in after])


def rule_noast(rep: Report, rid="C14.noast") -> None:
    pf = pr.parse_frame()
    fi = pf.fi
    rep.used_function(fi.qualname)
    kw = dict(file=PFILE, line=fi.node.lineno, function=fi.qualname)
    ri = pf.index("raise_if_errors")
    gi = pf.index("get_result")
    ei = max([i for i, e in enumerate(pf.events) if e[0] == "end_rule"], default=-1)
    le = pf.index("endloop")
    r = pf.first("raise_if_errors")
    ok = ri >= 0 and gi > ri and ri > le >= 0 and r[3] == 0 and not r[2]
    rep.ob(rid, "after the loop, a non-empty error list raises the composite error before any result is taken from the builder", ok, **kw,
           expected="if context.errors: raise CompositeParserException(context.errors) ... return self.get_result()", found=[e[0] for e in pf.events])
    if r is not None:
        ctxv = pf.ctx_var
        rep.eq(rid, "the composite raised at the end carries this parse's error list", f"CompositeParserException({ctxv}.errors)", r[4], **kw)
    rets = pf.all("return")
    rep.ob(rid, "parse returns only the builder's result, after the error check", len(rets) == 1 and "get_result" in (rets[0][4] or "") and not rets[0][2], **kw,
           expected="return self.get_result()", found=[e[4] for e in rets])


def rule_stream(rep: Report, rid="C17.order") -> None:
    """enum: source, gherkinDocument, pickles - each gated by its own option only, after a successful parse;
    errors yield parseError envelopes only."""
    def stub(name):
        def h(I_, st_, fi_, args, kwargs, n, tree_):
            tree_.append((name, tuple(args), getattr(n, "lineno", None)))
            return (name + "_result",)
        return h
    q = "gherkin.stream.gherkin_events.GherkinEvents.enum"
    I, fi, tree, rv, st = _run(q, {"gherkin.parser.Parser.parse": stub("parse"), "gherkin.pickles.compiler.Compiler.compile": stub("compile")})
    rep.used_file(fi.file)
    rep.used_function(fi.qualname)
    p = fi.params()
    selft, ev = ("param", p[0]), ("param", p[1])
    kw = dict(file=fi.file, line=fi.node.lineno, function=fi.qualname)
    trys = [n for n in tree if n[0] == "try"]
    outside = [n for n, c in nf.iter_nodes(tree) if n[0] in ("yield", "yieldfrom", "parse", "compile") and not any(x[0] in ("try", "except") for x in c)]
    if len(trys) != 1 or outside:
        rep.ob(rid, "parsing, compiling and all yields happen inside one try whose handlers turn parser errors into envelopes", False, **kw,
               expected="one try", found={"try": len(trys), "outside": [n[0] for n in outside]})
        return
    t = trys[0]
    uri = ("item", ("item", ev, const("source")), const("uri"))
    data = ("item", ("item", ev, const("source")), const("data"))
    seq = []
    for n, c in nf.iter_nodes(t[1]):
        if n[0] in ("parse", "compile", "yield", "yieldfrom"):
            seq.append((n, nf.guards_in_ctx(c), nf.loops_in_ctx(c)))
    kinds = []
    opt = lambda o: ("attr", ("attr", selft, "options"), o)
    ok_all = True
    details = []
    for n, gs, loops in seq:
        if n[0] == "parse":
            kinds.append("parse")
            ok = not gs and n[1][1] == data and n[1][0] == ("attr", selft, "parser")
            details.append(("parse", ok))
        elif n[0] == "compile":
            kinds.append("compile")
            d = nf.resolve_ref_dict(I, n[1][1], tree) if len(n[1]) > 1 else None
            ok = gs == [(opt("print_pickles"), True)] and n[1][0] == ("attr", selft, "compiler") and d is not None and d.get("uri", (None,))[0] == uri \
                and ("dyn", ("parse_result",)) not in d and any(e[0] == "**" and e[1] == ("parse_result",) for e in I.obj(n[1][1]).entries)
            details.append(("compile gated by print_pickles only, on {**document, uri}", ok))
        elif n[0] == "yield":
            v = n[1]
            if v == ev:
                kinds.append("source")
                ok = gs == [(opt("print_source"), True)] and not loops
                details.append(("source envelope = the incoming event, gated by print_source only", ok))
            else:
                d = nf.resolve_ref_dict(I, v, tree)
                k = next(iter(d)) if d and len(d) == 1 else None
                kinds.append(str(k))
                if k == "gherkinDocument":
                    dd = nf.resolve_ref_dict(I, d[k][0], tree)
                    ok = gs == [(opt("print_ast"), True)] and not loops and dd is not None and dd.get("uri", (None,))[0] == uri \
                        and any(e[0] == "**" and e[1] == ("parse_result",) for e in I.obj(d[k][0]).entries)
                    details.append(("gherkinDocument envelope = {**document, uri}, gated by print_ast only", ok))
                elif k == "pickle":
                    ok = gs == [(opt("print_pickles"), True)] and len(loops) == 1 and I.loops[loops[0]].get("iter") == ("compile_result",) \
                        and d[k][0] == ("elem", loops[0]) and not I.loops[loops[0]].get("conds")
                    details.append(("one pickle envelope per compiled pickle, in order, gated by print_pickles only", ok))
                else:
                    details.append((f"unexpected envelope {fmt(v, I)}", False))
        else:
            kinds.append("yieldfrom")
            details.append(("no error envelopes on the success path", False))
    for what, ok in details:
        rep.ob(rid, what, ok, **kw, expected="as stated", found="deviates" if not ok else "ok")
    rep.eq(rid, "envelope order is source, gherkinDocument, pickles, all after the parse", ["parse", "source", "gherkinDocument", "compile", "pickle"], kinds, **kw)
    # handlers
    hs = {h[0]: h for h in t[2]}
    rep.ob(rid, "handlers cover the composite error and the root ParserError", "CompositeParserException" in hs and "ParserError" in hs and
           [h[0] for h in t[2]].index("CompositeParserException") < [h[0] for h in t[2]].index("ParserError"), **kw,
           expected="except CompositeParserException ... except ParserError", found=[h[0] for h in t[2]])
    for name, h in hs.items():
        ys = [n for n, c in nf.iter_nodes(h[2]) if n[0] in ("yield", "yieldfrom")]
        ok = len(ys) == 1 and ys[0][0] == "yieldfrom" and isinstance(I.obj(ys[0][1]), HGen) and I.obj(ys[0][1]).qualname.endswith(".create_errors")
        if ok:
            g = I.obj(ys[0][1])
            a0 = g.args[0]
            if name == "CompositeParserException":
                ok = a0[0] == "attr" and a0[2] == "errors" and a0[1][0] == "excvar" and g.args[1] == uri
            else:
                o = I.obj(a0)
                ok = isinstance(o, HList) and len(o.segs) == 1 and o.segs[0][0] == "e" and o.segs[0][1][0] == "excvar" and g.args[1] == uri
        rep.ob(rid, f"handler for {name} yields only parseError envelopes, one per error", ok, **kw, expected="yield from create_errors(errors, uri)", found=[n[0] for n in ys])
    # create_errors
    I2, fi2, tree2, rv2, st2 = _run("gherkin.stream.gherkin_events.create_errors")
    rep.used_function(fi2.qualname)
    ys = [(n, c) for n, c in nf.iter_nodes(tree2) if n[0] == "yield"]
    ok = False
    if len(ys) == 1 and len(nf.loops_in_ctx(ys[0][1])) == 1:
        lid = nf.loops_in_ctx(ys[0][1])[0]
        el = ("elem", lid)
        d = nf.resolve_ref_dict(I2, ys[0][0][1], tree2)
        pe = nf.resolve_ref_dict(I2, d["parseError"][0], tree2) if d and set(d) == {"parseError"} else None
        src = nf.resolve_ref_dict(I2, pe["source"][0], tree2) if pe and set(pe) == {"source", "message"} else None
        ok = src is not None and set(src) == {"uri", "location"} and src["uri"][0] == ("param", fi2.params()[1]) and src["location"][0] == ("attr", el, "location") \
            and pe["message"][0] == ("call", "str", (el,), ()) and I2.loops[lid].get("iter") == ("param", fi2.params()[0]) and not I2.loops[lid].get("conds")
    rep.ob(rid, "a parseError envelope carries {source: {uri, location: error.location}, message: str(error)}, one per error in order", ok,
           file=fi2.file, line=fi2.node.lineno, function=fi2.qualname, expected="{'parseError': {'source': {'uri', 'location'}, 'message'}}", found=[fmt(n[1], I2) for n, _ in ys])
    # the stream shares one id generator between builder and compiler and one parser/compiler across sources
    I3, fi3, tree3, rv3, st3 = _run("gherkin.stream.gherkin_events.GherkinEvents.__init__")
    rep.used_function(fi3.qualname)
    s3 = ("param", fi3.params()[0])
    gen = st3.ext.get((s3, "id_generator"))
    par = st3.ext.get((s3, "parser"))
    comp = st3.ext.get((s3, "compiler"))
    ok = gen is not None and isinstance(I3.obj(gen), HInst) and I3.obj(gen).cls.name == "IdGenerator"
    b = st3.ext.get((par, "ast_builder")) if par else None
    ok = ok and b is not None and st3.ext.get((b, "id_generator")) == gen and comp is not None and st3.ext.get((comp, "id_generator")) == gen
    rep.ob("C11.gen" if rid.startswith("C11") else rid, "the stream's builder and compiler draw from one and the same id generator object", ok,
           file=fi3.file, line=fi3.node.lineno, function=fi3.qualname, expected="Parser(AstBuilder(g)), Compiler(g) with the same g",
           found={"generator": fmt(gen, I3) if gen else None, "builder's": fmt(st3.ext.get((b, 'id_generator')), I3) if b and st3.ext.get((b, 'id_generator')) else None,
                  "compiler's": fmt(st3.ext.get((comp, 'id_generator')), I3) if comp and st3.ext.get((comp, 'id_generator')) else None})
