"""Rules on errors.py and the parser's error handling (C01.cap, C04.err, C14.msg/faults/noast, C17.order)."""
from __future__ import annotations

import ast

from ..absint import new_interp, Interp, HList, HDict, HInst, HGen, NONE, const, is_const, fmt, fmt_tree, mk_not
from ..astutil import unparse
from ..names import N
from ..common import AnalysisError, Report
from ..facts import facts
from .. import nf
from .matcher_rules import lin_eq
from .line_rules import _str_parts
from . import parser_rules as pr

EFILE = "python/gherkin/errors.py"
EQ = "gherkin.errors"
PFILE = "python/gherkin/parser.py"


def _run(q, intr=None):
    I = new_interp()
    if intr:
        I.intrinsics.update(intr)
    fi = I.facts.func(q)
    tree, rv, st = I.run(q)
    return I, fi, tree, rv, st


def _super_init_msg(tree):
    for n, ctx in nf.iter_nodes(tree):
        if n[0] == "mcall" and n[1] == "__init__" and n[2][0] == "super":
            return n[3][0] if n[3] else None
    return None


def _merge(parts):
    out = []
    for p in parts:
        if is_const(p) and isinstance(p[1], str) and out and is_const(out[-1]) and isinstance(out[-1][1], str):
            out[-1] = const(out[-1][1] + p[1])
        else:
            out.append(p)
    return out


def same_string(found, expected) -> bool:
    """Two string-valued terms are equal under every assignment of the conditions they contain (conds may sit at
    different depths: str(a if c else b) == (str(a) if c else str(b)))."""
    import itertools
    from .matcher_rules import cond_atoms, resolve_conds
    if found is None:
        return False
    atoms = cond_atoms(("pair", found, expected))
    if len(atoms) > 8:
        return False
    for bits in itertools.product([True, False], repeat=len(atoms)):
        a = dict(zip(atoms, bits))
        if _merge(_str_parts(resolve_conds(found, a))) != _merge(_str_parts(resolve_conds(expected, a))):
            return False
    return True


def _concat(parts):
    t = parts[0]
    for p in parts[1:]:
        t = ("binop", "Add", t, p)
    return t


def _prefix(loc):
    col = ("cond", ("cmp", "In", const("column"), loc), ("item", loc, const("column")), const(0))
    return [const("("), ("call", "str", (("item", loc, const("line")),), ()), const(":"), ("call", "str", (col,), ()), const("): ")]


def _exc_loc(I, tree, exc):
    for n, ctx in nf.iter_nodes(tree):
        if n[0] == "setattr" and n[1] == exc and n[2] == "location":
            return n[3]
    return None


def rule_messages(rep: Report, rid="C14.msg") -> None:
    rep.used_file(EFILE)
    # ParserException: "(line:column|0): message", location stored
    I, fi, tree, rv, st = _run(f"{EQ}.ParserException.__init__")
    rep.used_function(fi.qualname)
    p = fi.params()
    selft, msg, loc = ("param", p[0]), ("param", p[1]), ("param", p[2])
    kw = dict(file=EFILE, line=fi.node.lineno, function=fi.qualname)
    rep.eq(rid, "a parser error keeps its location", loc, st.ext.get((selft, "location")), **kw)
    m = _super_init_msg(tree)
    want = _concat(_prefix(loc) + [msg])
    rep.ob(rid, "every error message starts with its own '(line:column): ' position (column 0 when unknown)", same_string(m, want), **kw,
           expected=[fmt(x, I) for x in _merge(_str_parts(want))], found=[fmt(x, I) for x in _str_parts(m)] if m else None)
    # UnexpectedTokenException
    I, fi, tree, rv, st = _run(f"{EQ}.UnexpectedTokenException.__init__")
    rep.used_function(fi.qualname)
    p = fi.params()
    selft, tok, exp = ("param", p[0]), ("param", p[1]), ("param", p[2])
    kw = dict(file=EFILE, line=fi.node.lineno, function=fi.qualname)
    m = _super_init_msg(tree)
    line = ("attr", tok, "line")
    quoted = ("cond", line, ("call", ".strip", (("attr", line, N.TRIMMED),), ()), ("call", ".strip", (const("EOF"),), ()))
    want_body = [const("expected: "), ("call", ".join", (const(", "), exp), ()), const(", got '"), quoted, const("'")]
    got = _str_parts(m) if m else []
    # the position prefix is built from the location chosen below; compare the message body only
    nprefix = 4
    ok_body = len(got) >= len(_merge([const("): ")] + want_body)) and all(same_string(a_, b_) for a_, b_ in zip(got[-(len(want_body)):][1:], want_body[1:])) \
        and is_const(got[-len(want_body)]) and str(got[-len(want_body)][1]).endswith("): expected: ")
    rep.ob(rid, "an unexpected-line message lists the expected token kinds joined by ', ' and quotes the trimmed line", ok_body, **kw,
           expected=[fmt(x, I) for x in want_body], found=[fmt(x, I) for x in got[-len(want_body):]])
    loc = st.ext.get((selft, "location"))
    tl = ("attr", tok, "location")
    has = ("cmp", "In", const("column"), tl)
    col = ("item", tl, const("column"))
    ok = False
    if loc is not None:
        # decided over what a token's column can be: absent (no matcher claimed the line) or a 1-based position - however the
        # test is spelt (truthiness, ``is not None``, ``!= 0``, ``.get``)
        def fallback(leaf):
            d = nf.resolve_ref_dict(I, leaf, tree) if isinstance(leaf, tuple) and leaf and leaf[0] == "ref" else None
            return d is not None and set(d) == {"line", "column"} and d["line"][0] == ("item", tl, const("line")) \
                and lin_eq(d["column"][0], ("binop", "Add", ("attr", line, N.INDENT), const(1)))
        get1, get2 = ("call", ".get", (tl, const("column")), ()), ("call", ".get", (tl, const("column"), NONE), ())
        absent = nf.simplify(I, loc, {has: const(False), get1: NONE, get2: NONE})
        present = {nf.simplify(I, loc, {has: const(True), col: const(v), get1: const(v), get2: const(v)}) for v in (1, 2, 9, 120)}
        ok = fallback(absent) and present == {tl}
    rep.ob("C04.err" if rid.startswith("C04") else rid, "an unexpected-line error is located at the token's own location, falling back to (line, indent + 1) when no column was set",
           ok, **kw, expected="token.location if it has a column else {'line': token line, 'column': token.line.indent + 1}", found=fmt(loc, I) if loc else None)
    # UnexpectedEOFException
    I, fi, tree, rv, st = _run(f"{EQ}.UnexpectedEOFException.__init__")
    rep.used_function(fi.qualname)
    p = fi.params()
    selft, tok, exp = ("param", p[0]), ("param", p[1]), ("param", p[2])
    kw = dict(file=EFILE, line=fi.node.lineno, function=fi.qualname)
    m = _super_init_msg(tree)
    want = _concat(_prefix(("attr", tok, "location")) + [const("unexpected end of file, expected: "), ("call", ".join", (const(", "), exp), ())])
    rep.ob(rid, "an unexpected-end-of-file message is '(line:col): unexpected end of file, expected: ' + the expected kinds joined by ', '", same_string(m, want), **kw,
           expected=[fmt(x, I) for x in _merge(_str_parts(want))], found=[fmt(x, I) for x in _str_parts(m)] if m else None)
    rep.eq(rid, "an unexpected-end-of-file error is located at the EOF token (one line past the last)", ("attr", tok, "location"), st.ext.get((selft, "location")), **kw)
    # CompositeParserException keeps the list as collected
    I, fi, tree, rv, st = _run(f"{EQ}.CompositeParserException.__init__")
    rep.used_function(fi.qualname)
    p = fi.params()
    kw = dict(file=EFILE, line=fi.node.lineno, function=fi.qualname)
    rep.eq(rid, "the composite error carries the collected errors themselves, in collection order", ("param", p[1]), st.ext.get((("param", p[0]), "errors")), **kw)
    muts = [n for n, _ in nf.iter_nodes(tree) if n[0] == "mutate" and n[1] == ("param", p[1])]
    rep.ob(rid, "the composite error does not reorder or drop errors", not muts, **kw, expected="no sort/pop on the error list", found=[(n[2], n[4]) for n in muts])
    # the composite message lists the collected messages, one per line, in order
    m = _super_init_msg(tree)
    got = nf.str_nf(I, m, tree) if m is not None else None
    ok = False
    if got is not None and got[0] == "cat" and len(got[1]) == 2 and got[1][0] == const("Parser errors:\n") and got[1][1][0] == "join" and got[1][1][1] == "\n":
        segs = got[1][1][2]
        if len(segs) == 1 and segs[0][0] == "loop":
            lid = segs[0][1]
            el = ("elem", lid)
            msg_forms = [("item", ("attr", el, "args"), const(0)), ("call", "str", (el,), ())]
            ok = I.loops[lid].get("iter") == ("param", p[1]) and not I.loops[lid].get("conds") and len(segs[0][2]) == 1 and segs[0][2][0][0] == "e" \
                and segs[0][2][0][1] in msg_forms
    rep.ob(rid, "the composite message is 'Parser errors:' followed by every collected message on its own line, in collection order", ok, **kw,
           expected="'Parser errors:\\n' + '\\n'.join(error.args[0] for error in errors)", found=fmt(m, I)[:200] if m is not None else "no message passed to the base class")
    # an unknown language: typed, located, names the language
    I, fi, tree, rv, st = _run(f"{EQ}.NoSuchLanguageException.__init__")
    rep.used_function(fi.qualname)
    p = fi.params()
    selft, lang, loc = ("param", p[0]), ("param", p[1]), ("param", p[2])
    kw = dict(file=EFILE, line=fi.node.lineno, function=fi.qualname)
    m = _super_init_msg(tree)
    want = _concat(_prefix(loc) + [const("Language not supported: "), lang])
    rep.ob(rid, "an unknown-language message is '(line:col): Language not supported: ' + the name", same_string(m, want), **kw,
           expected=[fmt(x, I) for x in _merge(_str_parts(want))], found=[fmt(x, I) for x in _str_parts(m)] if m else None)
    rep.eq(rid, "an unknown-language error is located where the header token is", loc, st.ext.get((selft, "location")), **kw)
    # subclasses
    f = facts()
    root = f.cls(f"{EQ}.ParserError")
    for cn in ("ParserException", "CompositeParserException"):
        c = f.cls(f"{EQ}.{cn}")
        rep.ob(rid, f"{cn} is a ParserError", root in c.mro(), file=EFILE, line=c.node.lineno, function=c.qualname, expected="subclass of ParserError", found=[x.name for x in c.mro()])
    for cn in ("NoSuchLanguageException", "AstBuilderException", "UnexpectedEOFException", "UnexpectedTokenException"):
        c = f.cls(f"{EQ}.{cn}")
        pe = f.cls(f"{EQ}.ParserException")
        rep.ob(rid, f"{cn} is a ParserException (collected and located like the others)", pe in c.mro(), file=EFILE, line=c.node.lineno, function=c.qualname,
               expected="subclass of ParserException", found=[x.name for x in c.mro()])


def rule_error_locations(rep: Report, rid="C04.err") -> None:
    rule_messages(rep, rid)


def rule_cap(rep: Report, rid="C01.cap") -> None:
    """add_error: de-duplicated by message; appended; the composite is raised as soon as the list holds 11 errors."""
    from ..frame import analyse_add_error
    a = analyse_add_error()
    fi, I = a["fi"], a["I"]
    rep.used_file(PFILE)
    rep.used_function(fi.qualname)
    kw = dict(file=PFILE, line=fi.node.lineno, function=fi.qualname)
    probs = {p[0]: p for p in a["problems"]}
    rep.ob(rid, "an error is collected by appending it to the context's error list (order of discovery)", "append" not in probs, **kw,
           expected="context.errors.append(error)", found=probs.get("append", ("", "", "as expected"))[2])
    if "append" in probs:
        return
    rep.ob(rid, "identical messages are collected once (de-duplication by str(error) against this parse's errors)", "dedup" not in probs, **kw,
           expected="append only if no collected error has the same str()", found=probs.get("dedup", ("", "", "as expected"))[2])
    cap = a.get("cap")
    ok = cap is not None and cap["threshold"] == 11 and cap["carries_list"] and cap["exception"] == "CompositeParserException"
    rep.ob(rid, "collecting stops with the composite error exactly when the 11th distinct error has been appended", ok, **kw,
           expected="append, then if len(context.errors) > 10: raise CompositeParserException(context.errors)",
           found=(f"raise guarded by {cap['guard']} -> first satisfied at {cap['threshold']} errors; carries the list: {cap['carries_list']}" if cap
                  else f"{a['n_raises']} raise(s), none guarded by the list length right after the append"))
    # the errors list is written only here (through any alias, or by a helper that is handed the list)
    f = facts()
    sites = 0

    def mutated_params(callee, depth=0):
        """Positions of the parameters a function changes in place (directly, or by handing them on)."""
        ps = callee.params()
        out = set()
        for n in ast.walk(callee.node):
            if isinstance(n, ast.Call) and isinstance(n.func, ast.Attribute) and n.func.attr in Interp.MUTATORS and isinstance(n.func.value, ast.Name) \
                    and n.func.value.id in ps:
                out.add(ps.index(n.func.value.id))
            elif isinstance(n, ast.AugAssign) and isinstance(n.target, ast.Name) and n.target.id in ps:
                out.add(ps.index(n.target.id))
            elif isinstance(n, ast.Call) and depth < 2:
                inner = resolve_callee(callee, n)
                if inner is not None:
                    mp = mutated_params(inner, depth + 1)
                    off = 1 if (inner.cls is not None and not inner.is_static and isinstance(n.func, ast.Attribute)) else 0
                    for i, a_ in enumerate(n.args):
                        if isinstance(a_, ast.Name) and a_.id in ps and (i + off) in mp:
                            out.add(ps.index(a_.id))
        return out

    def resolve_callee(fn, call):
        if isinstance(call.func, ast.Name):
            r = f.resolve_name(fn.module, call.func.id)
            return r[1] if r is not None and r[0] == "func" else None
        if isinstance(call.func, ast.Attribute) and isinstance(call.func.value, ast.Name) and fn.cls is not None and fn.params() \
                and call.func.value.id == fn.params()[0]:
            return fn.cls.find_method(call.func.attr)
        return None

    ctx_cls = f.cls("gherkin.parser.ParserContext") if f.has_class("gherkin.parser.ParserContext") else None

    def on_context(fn, v):
        """v is ``<context>.<errors>`` (not the ``errors`` attribute of an exception object)"""
        if not (isinstance(v, ast.Attribute) and v.attr == N.CTX_ERRORS):
            return False
        if isinstance(v.value, ast.Name) and v.value.id == "self":
            return fn.cls is not None and ctx_cls is not None and ctx_cls in fn.cls.mro()
        return True

    # who may write: add_error, and helpers that nothing but add_error (or such a helper) calls
    def callers_of(target):
        out = []
        for g in f.all_functions():
            if g.module.name == "gherkin.inout":
                continue
            for n in ast.walk(g.node):
                if isinstance(n, ast.Call):
                    nm = n.func.attr if isinstance(n.func, ast.Attribute) else (n.func.id if isinstance(n.func, ast.Name) else None)
                    if nm == target.name and g is not target:
                        out.append(g)
        return out
    allowed_writers = {fi.qualname}
    changed = True
    while changed:
        changed = False
        for g in f.all_functions():
            if g.qualname in allowed_writers or g.module.name == "gherkin.inout" or g.name.startswith("__"):
                continue
            cs = callers_of(g)
            if cs and all(c.qualname in allowed_writers for c in cs):
                allowed_writers.add(g.qualname)
                changed = True

    for fn in f.all_functions():
        if fn.module.name == "gherkin.inout":
            continue
        aliases = set()
        for n in ast.walk(fn.node):
            if isinstance(n, ast.Assign) and len(n.targets) == 1 and isinstance(n.targets[0], ast.Name) and on_context(fn, n.value):
                aliases.add(n.targets[0].id)
        for n in ast.walk(fn.node):
            if isinstance(n, ast.Call) and isinstance(n.func, ast.Attribute) and n.func.attr in Interp.MUTATORS:
                v = n.func.value
                hit = on_context(fn, v) or (isinstance(v, ast.Name) and v.id in aliases)
                if hit:
                    sites += 1
                    rep.ob(rid, "the collected-error list is only changed by add_error", fn.qualname in allowed_writers, file=fn.file, line=n.lineno, function=fn.qualname,
                           expected=sorted(allowed_writers), found=fn.qualname)
            if isinstance(n, ast.Call):
                callee = resolve_callee(fn, n)
                if callee is None:
                    continue
                off = 1 if (callee.cls is not None and not callee.is_static and isinstance(n.func, ast.Attribute)) else 0
                mp = None
                for i, v in enumerate(n.args):
                    if on_context(fn, v) or (isinstance(v, ast.Name) and v.id in aliases):
                        mp = mutated_params(callee) if mp is None else mp
                        if (i + off) in mp:
                            sites += 1
                            rep.ob(rid, "the collected-error list is only changed by add_error", fn.qualname in allowed_writers, file=fn.file, line=n.lineno,
                                   function=fn.qualname, expected=sorted(allowed_writers), found=f"{fn.qualname} (through {callee.qualname})")
    rep.floor("error list mutation sites", sites, 1)


def rule_handle_external(rep: Report, rid="C14.wrap") -> None:
    from ..frame import analyse_wrapper
    w = analyse_wrapper()
    fi = w["fi"]
    rep.used_function(fi.qualname)
    kw = dict(file=PFILE, line=fi.node.lineno, function=fi.qualname)
    probs = w["problems"]
    claims = [("stop", "stop mode: the action runs unprotected and its result is returned (the first error propagates as raised)"),
              ("collect", "collect mode: exactly the action call runs inside one try"),
              ("handlers", "collect mode: parser exceptions (single and composite) are caught, nothing broader"),
              ("single", "a parser exception from a matcher/builder call becomes one collected error"),
              ("composite", "a composite exception contributes each of its errors, in order"),
              ("default", "collect mode: after a collected error the wrapper returns the caller's default (no match / carry on)")]
    for key, text in claims:
        mine = [p for p in probs if p[0] == key]
        rep.ob(rid, text, not mine, **kw, expected="as stated", found=[(p[1], p[2]) for p in mine] or "as expected")


def rule_noast(rep: Report, rid="C14.noast") -> None:
    from ..frame import parse_nf, is_truthy_of, nonempty_guard
    P = parse_nf()
    I = P.I
    fi = P.fi
    rep.used_function(fi.qualname)
    kw = dict(file=PFILE, line=fi.node.lineno, function=fi.qualname)
    errs = P.ctx_attr(N.CTX_ERRORS)
    raises = [(n, c) for n, c in P.flat if n[0] == "raise" and not nf.loops_in_ctx(c)]
    gr = P.ev("get_result")
    er = P.ev("end_rule")
    ok = False
    found = {"raises": len(raises), "get_result": len(gr)}
    if len(raises) == 1 and len(gr) == 1 and errs is not None:
        n, c = raises[0]
        gs = nf.guards_in_ctx(c)
        comp = [e for e, _ in P.ev("composite") if e[2][0] == n[1]]
        carries = bool(comp) and comp[0][2][1:2] == (errs,)
        ok = len(gs) == 1 and nonempty_guard(gs[0][0], gs[0][1], errs) and carries and P.index(n) < P.index(gr[0][0]) \
            and (not er or P.index(n) > P.index(er[-1][0])) and isinstance(I.obj(n[1]), HInst) and I.obj(n[1]).cls.name == "CompositeParserException"
        found = {"guard": [(fmt(a, I), p) for a, p in gs], "carries this parse's errors": carries}
    rep.ob(rid, "after the loop, a non-empty error list raises the composite error (carrying this parse's list) before any result is taken from the builder", ok, **kw,
           expected="if context.errors: raise CompositeParserException(context.errors) ... return self.get_result()", found=found)
    rv = P.rv
    ok = len(gr) == 1 and rv == ("result", gr[0][0][4]) and not nf.guards_in_ctx([c for n, c in P.flat if n is gr[0][0]][0][:0])
    rep.ob(rid, "parse returns only the builder's result, after the error check", ok, **kw, expected="return self.get_result()", found=fmt(rv, I))


def rule_stream(rep: Report, rid="C17.order") -> None:
    """enum: source, gherkinDocument, pickles - each gated by its own option only, after a successful parse;
    errors yield parseError envelopes only."""
    def stub(name):
        def h(I_, st_, fi_, args, kwargs, n, tree_):
            tree_.append((name, tuple(args), getattr(n, "lineno", None)))
            return (name + "_result",)
        return h
    q = "gherkin.stream.gherkin_events.GherkinEvents.enum"
    I, fi, tree, rv, st = _run(q, {"gherkin.parser.Parser.parse": stub("parse"), "gherkin.pickles.compiler.Compiler.compile": stub("compile")})
    rep.used_file(fi.file)
    rep.used_function(fi.qualname)
    p = fi.params()
    selft, ev = ("param", p[0]), ("param", p[1])
    kw = dict(file=fi.file, line=fi.node.lineno, function=fi.qualname)
    trys = [n for n in tree if n[0] == "try"]
    outside = [n for n, c in nf.iter_nodes(tree) if n[0] in ("yield", "yieldfrom", "parse", "compile") and not any(x[0] in ("try", "except") for x in c)]
    if len(trys) != 1 or outside:
        rep.ob(rid, "parsing, compiling and all yields happen inside one try whose handlers turn parser errors into envelopes", False, **kw,
               expected="one try", found={"try": len(trys), "outside": [n[0] for n in outside]})
        return
    t = trys[0]
    uri = ("item", ("item", ev, const("source")), const("uri"))
    data = ("item", ("item", ev, const("source")), const("data"))
    seq = []
    for n, c in nf.iter_nodes(t[1]):
        if n[0] in ("parse", "compile", "yield", "yieldfrom"):
            seq.append((n, nf.guards_in_ctx(c), nf.loops_in_ctx(c)))
    kinds = []
    opt = lambda o: ("attr", ("attr", selft, N.GE_OPTIONS), o)
    ok_all = True
    details = []
    for n, gs, loops in seq:
        if n[0] == "parse":
            kinds.append("parse")
            ok = not gs and n[1][1] == data and n[1][0] == ("attr", selft, N.GE_PARSER)
            details.append(("parse", ok))
        elif n[0] == "compile":
            kinds.append("compile")
            d = nf.resolve_ref_dict(I, n[1][1], tree) if len(n[1]) > 1 else None
            ok = gs == [(opt("print_pickles"), True)] and n[1][0] == ("attr", selft, N.GE_COMPILER) and d is not None and d.get("uri", (None,))[0] == uri \
                and ("dyn", ("parse_result",)) not in d and any(e[0] == "**" and e[1] == ("parse_result",) for e in I.obj(n[1][1]).entries)
            details.append(("compile gated by print_pickles only, on {**document, uri}", ok))
        elif n[0] == "yield":
            v = n[1]
            if v == ev:
                kinds.append("source")
                ok = gs == [(opt("print_source"), True)] and not loops
                details.append(("source envelope = the incoming event, gated by print_source only", ok))
            else:
                d = nf.resolve_ref_dict(I, v, tree)
                k = next(iter(d)) if d and len(d) == 1 else None
                kinds.append(str(k))
                if k == "gherkinDocument":
                    dd = nf.resolve_ref_dict(I, d[k][0], tree)
                    ok = gs == [(opt("print_ast"), True)] and not loops and dd is not None and dd.get("uri", (None,))[0] == uri \
                        and any(e[0] == "**" and e[1] == ("parse_result",) for e in I.obj(d[k][0]).entries)
                    details.append(("gherkinDocument envelope = {**document, uri}, gated by print_ast only", ok))
                elif k == "pickle":
                    ok = gs == [(opt("print_pickles"), True)] and len(loops) == 1 and I.loops[loops[0]].get("iter") == ("compile_result",) \
                        and d[k][0] == ("elem", loops[0]) and not I.loops[loops[0]].get("conds")
                    details.append(("one pickle envelope per compiled pickle, in order, gated by print_pickles only", ok))
                else:
                    details.append((f"unexpected envelope {fmt(v, I)}", False))
        else:
            kinds.append("yieldfrom")
            details.append(("no error envelopes on the success path", False))
    for what, ok in details:
        rep.ob(rid, what, ok, **kw, expected="as stated", found="deviates" if not ok else "ok")
    rep.eq(rid, "envelope order is source, gherkinDocument, pickles, all after the parse", ["parse", "source", "gherkinDocument", "compile", "pickle"], kinds, **kw)
    # handlers: decided per kind of failure (the composite error / any other parser error), whichever way the handlers
    # split the work (two except clauses, one clause with an isinstance test, a helper ...)
    F = I.facts
    comp_cls = F.cls("gherkin.errors.CompositeParserException")
    root_cls = F.cls("gherkin.errors.ParserError")
    mod = fi.module
    htypes = [(h, F.annotation_class(mod, ast.parse(h[0], mode="eval").body) if h[0] else None) for h in t[2]]
    rep.ob(rid, "handlers catch parser errors only (the composite error and the root ParserError), nothing broader",
           bool(htypes) and all(c is not None and root_cls in c.mro() for _, c in htypes), **kw,
           expected="except CompositeParserException ... except ParserError", found=[h[0] for h in t[2]])

    def envelope_ok(v, X, treex):
        d = nf.resolve_ref_dict(I, v, treex)
        pe = nf.resolve_ref_dict(I, d["parseError"][0], treex) if d and set(d) == {"parseError"} else None
        src = nf.resolve_ref_dict(I, pe["source"][0], treex) if pe and set(pe) == {"source", "message"} else None
        return src is not None and set(src) == {"uri", "location"} and src["uri"][0] == uri and src["location"][0] == ("attr", X, "location") \
            and pe["message"][0] == ("call", "str", (X,), ())

    for scenario, ecls in (("the composite error", comp_cls), ("a single parser error", root_cls)):
        h = next((h for h, c in htypes if c is not None and c in ecls.mro()), None)
        if h is None:
            rep.ob(rid, f"{scenario} is turned into parseError envelopes", False, **kw, expected="a handler", found=[x[0] for x in t[2]])
            continue
        exc = ("excvar", h[4], h[0])
        is_comp = ("call", "isinstance", (exc, ("class", comp_cls.qualname)), ())
        assign = {is_comp: ecls is comp_cls}
        body = nf.specialise(h[2], assign)
        ys = [(n, c) for n, c in nf.iter_nodes(body) if n[0] in ("yield", "yieldfrom")]
        undecided = [n for n, c in nf.iter_nodes(body) if n[0] == "if"]
        ok = False
        found = [n[0] for n, c in ys]
        if len(ys) == 1 and ys[0][0][0] == "yield" and not undecided:
            n, c = ys[0]
            loops = nf.loops_in_ctx(c)
            it = nf.resolve_conds(I.loops[loops[0]].get("iter"), assign) if len(loops) == 1 else None
            conds = I.loops[loops[0]].get("conds") if len(loops) == 1 else None
            if ecls is comp_cls:
                ok = it == ("attr", exc, "errors") and not conds and envelope_ok(n[1], ("elem", loops[0]), h[2])
                found = {"iterates": fmt(it, I) if it else None}
            elif not loops:
                ok = envelope_ok(n[1], exc, h[2])
            elif it is not None:
                o = I.obj(it)
                ok = isinstance(o, HList) and [sg for sg in o.segs] == [("e", exc)] and not conds and envelope_ok(n[1], ("elem", loops[0]), h[2])
                found = {"iterates": fmt(it, I)}
        rep.ob(rid, f"{scenario} yields only parseError envelopes {{source: {{uri, location: error.location}}, message: str(error)}}, one per error in order", ok, **kw,
               expected="for error in errors: yield {'parseError': {'source': {'uri', 'location'}, 'message'}}", found=found)
    # the stream shares one id generator between builder and compiler and one parser/compiler across sources
    I3, fi3, tree3, rv3, st3 = _run("gherkin.stream.gherkin_events.GherkinEvents.__init__")
    rep.used_function(fi3.qualname)
    s3 = ("param", fi3.params()[0])
    rep.ob(rid, "the stream keeps the options it was given (each envelope kind is gated by its own option)",
           len(fi3.params()) > 1 and st3.ext.get((s3, N.GE_OPTIONS)) == ("param", fi3.params()[1]), file=fi3.file, line=fi3.node.lineno, function=fi3.qualname,
           expected="self.options = options", found=fmt(st3.ext.get((s3, N.GE_OPTIONS)), I3) if st3.ext.get((s3, N.GE_OPTIONS)) else "never stored")
    gen = next((v_ for (b_, a_), v_ in st3.ext.items() if b_ == s3 and isinstance(I3.obj(v_), HInst) and I3.obj(v_).cls.name == "IdGenerator"), None)
    par = st3.ext.get((s3, N.GE_PARSER))
    comp = st3.ext.get((s3, N.GE_COMPILER))
    ok = gen is not None and isinstance(I3.obj(gen), HInst) and I3.obj(gen).cls.name == "IdGenerator"
    b = st3.ext.get((par, N.PARSER_BUILDER)) if par else None
    ok = ok and b is not None and st3.ext.get((b, N.idgen_attr("gherkin.ast_builder.AstBuilder"))) == gen and comp is not None and st3.ext.get((comp, N.idgen_attr("gherkin.pickles.compiler.Compiler"))) == gen
    rep.ob("C11.gen" if rid.startswith("C11") else rid, "the stream's builder and compiler draw from one and the same id generator object", ok,
           file=fi3.file, line=fi3.node.lineno, function=fi3.qualname, expected="Parser(AstBuilder(g)), Compiler(g) with the same g",
           found={"generator": fmt(gen, I3) if gen else None, "builder's": fmt(st3.ext.get((b, N.idgen_attr("gherkin.ast_builder.AstBuilder"))), I3) if b and st3.ext.get((b, N.idgen_attr("gherkin.ast_builder.AstBuilder"))) else None,
                  "compiler's": fmt(st3.ext.get((comp, N.idgen_attr("gherkin.pickles.compiler.Compiler"))), I3) if comp and st3.ext.get((comp, N.idgen_attr("gherkin.pickles.compiler.Compiler"))) else None})
