"""Rules on errors.py and the parser's error handling (C01.cap/exc, C04.err, C14.msg/faults/noast)."""
from __future__ import annotations

from ..common import Report


def rule_error_locations(rep: Report, rid: str) -> None:
    pass
