"""Rules on the dialect table and its loading (C05.data, C05.dialect, C05.header, C15.shared part)."""
from __future__ import annotations

import ast
import hashlib
import json
import re

from ..absint import new_interp, NONE, const, is_const, fmt, HInst
from ..astutil import unparse, dotted, xdotted, call_name
from ..names import N
from ..common import AnalysisError, Report, read_text, repo_path
from ..facts import facts
from ..ptable import ptable, PARSER_FILE
from .. import nf, regexnf
from . import matcher_rules as mr

MASTER = "gherkin-languages.json"
PACKAGED = "python/gherkin/gherkin-languages.json"
DFILE = "python/gherkin/dialect.py"
KEYS = ["and", "background", "but", "examples", "feature", "given", "rule", "scenario", "scenarioOutline", "then", "when"]
PROP_KEY = {"feature_keywords": "feature", "rule_keywords": "rule", "scenario_keywords": "scenario",
            "scenario_outline_keywords": "scenarioOutline", "background_keywords": "background", "examples_keywords": "examples",
            "given_keywords": "given", "when_keywords": "when", "then_keywords": "then", "and_keywords": "and", "but_keywords": "but"}
TITLE_KEYS = ["feature", "rule", "background", "scenario", "scenarioOutline", "examples"]
STEP_KEYS = ["given", "when", "then", "and", "but"]


def rule_data(rep: Report, rid="C05.data") -> None:
    rep.used_file(MASTER)
    rep.used_file(PACKAGED)
    with open(repo_path(MASTER), "rb") as f:
        a = f.read()
    with open(repo_path(PACKAGED), "rb") as f:
        b = f.read()
    rep.ob(rid, "the packaged language table is byte-identical to the repository's master table", a == b, file=PACKAGED,
           expected=hashlib.sha256(a).hexdigest()[:16], found=hashlib.sha256(b).hexdigest()[:16])
    try:
        data = json.loads(b.decode("utf-8"))
    except Exception as e:
        raise AnalysisError(f"{PACKAGED} is not valid JSON: {e}")
    rep.floor("dialects", len(data), 70)
    nkw = 0
    prefix_pairs = []
    for name, d in sorted(data.items()):
        missing = [k for k in KEYS if k not in d or not isinstance(d[k], list) or not d[k] or not all(isinstance(x, str) and x for x in d[k])]
        rep.ob(rid, f"dialect {name}: has the 11 non-empty keyword lists", not missing, file=PACKAGED, expected=KEYS, found=missing or "complete")
        if missing:
            continue
        nkw += sum(len(d[k]) for k in KEYS)
        # a title keyword of one role must not be claimed by another role tested before it in some state
        title_owner = {}
        clash = []
        for k in TITLE_KEYS:
            for w in d[k]:
                role = "scenario" if k == "scenarioOutline" else k
                if w in title_owner and title_owner[w] != role:
                    clash.append((w, title_owner[w], role))
                title_owner.setdefault(w, role)
        rep.ob(rid, f"dialect {name}: no title keyword is listed for two different roles", not clash, file=PACKAGED, expected="disjoint roles", found=clash or "disjoint")
        # a step keyword must not swallow a title line: no step keyword is a prefix of title keyword + ':'
        steps = []
        for k in STEP_KEYS:
            steps += d[k]
        # order of tests in every state: title lines are tested before step lines only where both are expected; the safe
        # condition is that no step keyword prefixes a title keyword + ':'
        sw = [(s, t) for s in steps for t in title_owner if (t + ":").startswith(s)]
        rep.ob(rid, f"dialect {name}: no step keyword is a prefix of a title keyword + ':'", not sw, file=PACKAGED, expected="none", found=sw or "none")
        seq = steps
        for i, s1 in enumerate(seq):
            for s2 in seq[i + 1:]:
                if s1 != s2 and s2.startswith(s1):
                    prefix_pairs.append((name, s1, s2))
    rep.counts["keywords"] = nkw
    rep.extra["step_keyword_prefix_pairs"] = [list(p) for p in prefix_pairs][:40]
    rep.floor("keywords", nkw, 1500)
    rep.note(f"{len(prefix_pairs)} (earlier, later) step keyword pairs where the earlier listed keyword prefixes the later: first listed wins by the first-match scan (C05.roles)")


def rule_dialect(rep: Report, rid="C05.dialect") -> None:
    f = facts()
    mod = f.modules.get("gherkin.dialect")
    if mod is None:
        raise AnalysisError("anchor vanished: gherkin.dialect")
    rep.used_file(DFILE)
    cls = f.cls("gherkin.dialect.Dialect")
    for prop, key in PROP_KEY.items():
        I = new_interp()
        try:
            rv, tree = I.eval_attr(cls, prop)
        except Exception as e:
            rv, tree = ("opaque", f"{type(e).__name__}: {e}"), []
        selft = ("param", "self")
        want = ("item", ("attr", selft, N.DIALECT_SPEC), const(key))
        muts = [n for n, _ in nf.iter_nodes(tree) if n[0] in ("mutate", "setitem", "setattr")]
        fi = cls.find_method(prop)
        if fi is not None:
            rep.used_function(fi.qualname)
        rep.ob(rid, f"Dialect.{prop} is the table's '{key}' list, as listed (same order, no copy tricks)", rv == want and not muts,
               file=DFILE, line=fi.node.lineno if fi else cls.node.lineno, function=fi.qualname if fi else cls.qualname, expected=f"self.spec['{key}']",
               found=fmt(rv, I) + (f" with {len(muts)} mutation(s)" if muts else ""))
    # for_name
    fi = cls.find_method("for_name")
    I = new_interp()
    tree, rv, st = I.run(fi.qualname)
    rep.used_function(fi.qualname)
    name = ("param", fi.params()[1])
    D = ("global", "gherkin.dialect", "DIALECTS")
    ok = rv[0] == "cond" and rv[1] == ("cmp", "In", name, D) and is_const(rv[3], None) and isinstance(I.obj(rv[2]), HInst) \
        and st.ext.get((rv[2], N.DIALECT_SPEC)) in (("item", D, name), ("cond", rv[1], ("item", D, name), ("attr", rv[2], N.DIALECT_SPEC)))
    rep.ob(rid, "Dialect.for_name(n) wraps DIALECTS[n] when n is listed and is None otherwise", ok, file=DFILE, line=fi.node.lineno, function=fi.qualname,
           expected="cls(DIALECTS[name]) if name in DIALECTS else None", found=fmt(rv, I))
    # the table is the package-local file, loaded as UTF-8 JSON
    g = mod.globals.get("DIALECT_FILE_PATH")
    ok = g is not None and isinstance(g, ast.Call) and xdotted(g.func, mod) == "os.path.join" and len(g.args) == 2 \
        and isinstance(g.args[0], ast.Call) and xdotted(g.args[0].func, mod) == "os.path.dirname" and len(g.args[0].args) == 1 \
        and isinstance(g.args[0].args[0], ast.Name) and g.args[0].args[0].id == "__file__" \
        and isinstance(g.args[1], ast.Constant) and g.args[1].value == "gherkin-languages.json"
    rep.ob(rid, "the table loaded is the file shipped next to the module", ok, file=DFILE, function="gherkin.dialect",
           expected="os.path.join(os.path.dirname(__file__), 'gherkin-languages.json')", found=unparse(g) if g is not None else None)
    d = mod.globals.get("DIALECTS")
    ok = d is not None and isinstance(d, ast.Call) and xdotted(d.func, mod) == "json.load"
    with_ok = False
    for stt in mod.tree.body:
        if isinstance(stt, ast.With) and len(stt.items) == 1 and isinstance(stt.items[0].context_expr, ast.Call):
            c = stt.items[0].context_expr
            kws = {k.arg: k.value for k in c.keywords}
            enc = kws.get("encoding")
            if xdotted(c.func, mod) in ("open", "io.open") and c.args and unparse(c.args[0]) == "DIALECT_FILE_PATH" and isinstance(enc, ast.Constant) \
                    and str(enc.value).lower().replace("-", "") == "utf8":
                with_ok = True
    rep.ob(rid, "DIALECTS is the JSON content of that file read as UTF-8, loaded once at import", ok and with_ok, file=DFILE, function="gherkin.dialect",
           expected="with open(DIALECT_FILE_PATH, encoding='utf-8') as file: DIALECTS = json.load(file)", found=unparse(d) if d is not None else None)


def rule_shared_table(rep: Report, rid="C15.shared") -> None:
    """No code path mutates the module-level DIALECTS table or the lists inside it."""
    f = facts()
    n = 0
    for fi in f.all_functions():
        if fi.module.name == "gherkin.inout":
            continue
        src_names = set()
        for node in ast.walk(fi.node):
            if isinstance(node, ast.Name) and node.id == "DIALECTS":
                n += 1
        for node in ast.walk(fi.node):
            bad = None
            if isinstance(node, (ast.Subscript, ast.Attribute)) and isinstance(node.ctx, (ast.Store, ast.Del)):
                base = node
                while isinstance(base, (ast.Subscript, ast.Attribute)):
                    base = base.value
                if isinstance(base, ast.Name) and base.id == "DIALECTS":
                    bad = unparse(node)
            if isinstance(node, ast.Call) and isinstance(node.func, ast.Attribute) and node.func.attr in ("append", "extend", "insert", "pop", "remove", "clear", "sort", "reverse", "update", "setdefault"):
                base = node.func.value
                while isinstance(base, (ast.Subscript, ast.Attribute)):
                    base = base.value
                if isinstance(base, ast.Name) and base.id == "DIALECTS":
                    bad = unparse(node)
            if isinstance(node, ast.Global) and "DIALECTS" in node.names:
                bad = "global DIALECTS"
            if bad:
                rep.ob(rid, "the shared dialect table is never modified", False, file=fi.file, line=node.lineno, function=fi.qualname, expected="read-only", found=bad)
    rep.ob(rid, "the shared dialect table is only read", True, file=DFILE, function="gherkin.dialect", expected="no store/mutator on DIALECTS", found=f"{n} read site(s) inspected")
    # ... nor through a value read out of it: on the normal forms of the Dialect members and of every match_<Kind>, no in-place
    # change (append/extend/+=/item store ...) has a target that is part of the table (the spec of a Dialect, a keyword list)
    def rooted(t, depth=0):
        if not isinstance(t, tuple) or not t or depth > 12:
            return False
        if t[0] == "global" and len(t) > 2 and t[2] == "DIALECTS":
            return True
        if t[0] == "attr" and (t[2] == N.DIALECT_SPEC or t[2].endswith("_keywords")):
            return True
        if t[0] in ("item", "attr", "slice", "dropnone") and isinstance(t[1], tuple):
            return rooted(t[1], depth + 1)
        if t[0] == "cond":
            return rooted(t[2], depth + 1) or rooted(t[3], depth + 1)
        return False
    inspected = 0
    dcls = f.cls("gherkin.dialect.Dialect")
    trees = []
    for fi in dcls.all_methods():
        if fi.name == "__init__":
            continue
        I = new_interp()
        try:
            tree, rv, st = I.run(fi.qualname)
        except AnalysisError:
            continue
        trees.append((I, fi, tree))
    for cq in (mr.MQ, "gherkin.token_matcher_markdown.GherkinInMarkdownTokenMatcher"):
        M = mr.mnf(cq)
        for m in M.methods.values():
            trees.append((m.I, m.fi, m.tree))
    for I, fi, tree in trees:
        for node, ctx in nf.iter_nodes(tree):
            if node[0] in ("mutate", "setitem"):
                inspected += 1
                if rooted(node[1]):
                    line = next((x for x in reversed(node) if isinstance(x, int) and not isinstance(x, bool)), fi.node.lineno)
                    rep.ob(rid, "a value read out of the dialect table is never changed in place", False, file=fi.file, line=line, function=fi.qualname,
                           expected="copy before extending (a + b, list(a))", found=f"{node[0]} {node[2] if node[0] == 'mutate' else ''} on {fmt(node[1], I)[:100]}")
    rep.ob(rid, "values read out of the dialect table are only read", True, file=DFILE, function="gherkin.dialect", expected="no in-place change",
           found=f"{inspected} in-place change(s) on other objects inspected in {len(trees)} normal forms")


def rule_header(rep: Report, rid="C05.header", snapshot=False) -> None:
    rep.used_file(mr.MFILE)
    kw = dict(file=mr.MFILE, function=mr.MQ)
    want = r"^\s*#\s*language\s*:\s*([a-zA-Z\-_]+)\s*$"
    # match_Language: the header pattern on the trimmed line (anchored match, however the pattern is held: class-level or
    # module-level compiled pattern, or an inline re.match), text = group 1, then switch dialect with the token's location
    m = mr.mnf().methods["Language"]
    I = m.I
    rep.used_function(m.fi.qualname)
    line, trimmed, raw = mr.line_terms(m)
    rep.ob(rid, "match_Language reports matches through the single sink", bool(m.sinks), **mr._kw(m), expected=">= 1 sink call", found=len(m.sinks))
    for sn, ctx in m.sinks:
        gs = nf.guards_in_ctx(ctx)
        match = None
        if len(gs) == 1 and gs[0][1]:
            g = gs[0][0]
            if g[0] == "call" and g[1] in ("re.match", "re.fullmatch", "re.search") and len(g[2]) == 2 and is_const(g[2][0]) and g[2][1] == trimmed:
                match = g
        pat = match[2][0][1] if match else None
        from .line_rules import _re_flags
        import re as _re_mod
        fl = _re_flags(match[3]) if match else 0
        # as a test: re.match anchors at the start, fullmatch at both ends; VERBOSE only changes how the pattern is written
        ok = pat is not None and not (fl & ~(_re_mod.VERBOSE | _re_mod.UNICODE)) and regexnf.same_test(pat, fl, match[1].split(".", 1)[1], want, 0, "search")
        rep.ob(rid, "a language header is recognised on the left-trimmed line by the pattern: blanks, '#', blanks, 'language', blanks, ':', blanks, "
                    "one name of letters/'-'/'_', blanks, end", ok, **mr._kw(m, sn[2]),
               expected=regexnf.describe(want), found=(regexnf.describe(pat, fl) if pat is not None else [(fmt(c, I), p) for c, p in gs]))
        rep.eq(rid, "the Language token's text is the captured name", fmt(("call", ".group", (match, const(1)), ()), I) if match else "group(1) of the header match",
               fmt(sn[1].get("text"), I) if sn[1].get("text") else None, **mr._kw(m, sn[2]))
    # order: sink (sets the column) precedes the dialect switch, which gets the token location
    order = [n for n, _ in nf.iter_nodes(m.tree) if n[0] == "sink" or (n[0] == "call" and n[1].endswith("." + N.CHANGE_DIALECT))]
    ok = [n[0] for n in order] == ["sink", "call"]
    rep.ob(rid, "the header token is matched (column set) before the dialect is switched", ok, **mr._kw(m), expected="sink, then _change_dialect", found=[n[0] for n in order])
    raises = [(n, ctx) for n, ctx in nf.iter_nodes(m.tree) if n[0] == "raise"]
    good = 0
    for n, ctx in raises:
        o = I.obj(n[1])
        loc = None
        for m2, _ in nf.iter_nodes(m.tree):
            if m2[0] == "setattr" and m2[1] == n[1] and m2[2] == "location":
                loc = m2[3]
        # the message names the dialect asked for: '...Language not supported: ' + <captured name>
        msg = None
        for m2, _ in nf.iter_nodes(m.tree):
            if m2[0] == "mcall" and m2[1] == "__init__" and m2[2][0] == "super" and m2[3]:
                msg = m2[3][0]
        names_it = False
        if msg is not None:
            parts = nf.str_nf(I, msg, m.tree)
            seq = list(parts[1]) if parts[0] == "cat" else [parts]
            names_it = bool(seq) and seq[-1][0] == "call" and seq[-1][1] == ".group" and len(seq) >= 2 and is_const(seq[-2]) \
                and str(seq[-2][1]).endswith("Language not supported: ")
        tokloc = ("attr", m.tok, "location")
        lo = I.obj(loc) if loc is not None else None
        # a shallow copy (dict(x) / x.copy() / {**x}): a new object holding exactly x's content
        is_copy = lo is not None and ((hasattr(lo, "entries") and list(lo.entries) == [("**", tokloc)]) or
                                      (hasattr(lo, "segs") and list(lo.segs) == [("s", tokloc)]))
        if isinstance(o, HInst) and o.cls.name == "NoSuchLanguageException" and (loc == tokloc or is_copy) and names_it:
            good += 1
            # the header line is matched again right after the failed language match (it is also a comment), and a successful
            # match rewrites the token's location dictionary in place (column 1 for comments): an error that merely refers to
            # that dictionary changes position after it was reported
            if snapshot:
              rep.ob(rid, "the unknown-dialect error keeps its own snapshot of the header's location (the token is re-matched as a comment, which rewrites "
                          "the token's location in place)", is_copy, **mr._kw(m, n[-1] if isinstance(n[-1], int) else None),
                     expected="a copy of token.location taken after the column was set", found="the token's own location dictionary (alias)" if loc == tokloc else fmt(loc, I))
    rep.ob(rid, "an unknown dialect is reported as NoSuchLanguageException naming it, at the header token's location", good == 1 and len(raises) == 1, **mr._kw(m),
           expected="raise NoSuchLanguageException(name, <the header token's location>)", found=f"{len(raises)} raise(s), {good} as specified")
    # grammar position: #Language only at the very top
    pt = ptable()
    rep.used_file(PARSER_FILE)
    states = sorted({s for s, st in pt.states.items() for t in st.transitions if t.token == "Language"})
    rep.eq(rid, "a language header is only read as such at the top of the document (state 0); elsewhere it is a comment", [0], states,
           file=PARSER_FILE, function="gherkin.parser.Parser")
    back = [(s, t.token) for s, st in pt.states.items() for t in st.transitions if t.target == 0 and s != 0]
    z = pt.states[0]
    self_loops = [t.token for t in z.transitions if t.target == 0]
    rep.ob(rid, "state 0 is only re-entered by comments and blank lines (before any tag or feature line)", not back and set(self_loops) <= {"Comment", "Empty"},
           file=PARSER_FILE, function=z.fi.qualname, line=z.fi.node.lineno, expected="self-loops on Comment/Empty only", found={"self": self_loops, "back": back})
