"""C06 - one pickle per scenario / example row, in document order."""
from . import compiler_rules as cr
from . import misc_rules as ms
from . import shape_rules as sh

META = {
    "level": "other",
    "explanation": "Compiler.compile is abstractly interpreted with every helper inlined; the pickles accumulator's append history is "
                   "projected to an emission skeleton (loops, kind case analysis, guards) and matched against the skeleton the property "
                   "states: feature children in order; background -> nothing; rule -> its children in order; scenario -> one pickle if no "
                   "examples else one per body row of each examples block that has a header; no early loop exit. The fields uri, language, "
                   "name and astNodeIds of each emission are checked by provenance.",
    "assumptions": ["AST dictionaries have the shape the builder produces (C03/C17)", "list/dict/str builtins behave as documented"],
}


def run(rep):
    sh.rule_key_reads(rep, "C06.reads")
    cr.rule_skel(rep)
    cr.rule_fields(rep)
    cr.rule_input(rep, "C06.isolation")
    # "scenarios without steps still yield a pickle with no steps"
    cr.rule_steps(rep, rid_order="C06.steps", rid_guard="C06.nosteps", want=("guard",))
    # the case analysis above reads the document by key presence ("examples", "tableHeader" ...): it relies on the builder
    # leaving optional members out rather than setting them to None
    sh.rule_shape(rep, "C06.shape", "C06.none")
    # no hidden state: what the property promises for one use must hold for every later use as well
    ms.rule_stateless(rep, "C06")
