"""Types of normal-form terms read off the repository's own annotations (TypedDict declarations, list[...] element
types, parameter annotations of the analysed entry point), and the key-validity rule built on them: every constant key
read from (or tested on) a value of TypedDict type is a key that type - or one of its declared sub-shapes - has.

Type descriptors:  ('td', ClassInfo) | ('list', T) | ('tuple', (T, ...)) | ('union', (T, ...)) | ('prim', name) | None (unknown)
"""
from __future__ import annotations

import ast

from .absint import Interp, HList, HDict, HInst, is_const
from .facts import facts, ClassInfo
from . import nf

SEQ_NAMES = {"list", "List", "Sequence", "Iterable", "Iterator", "Generator", "Collection", "MutableSequence", "tuple", "Tuple", "deque", "set", "frozenset"}
WRAPPERS = {"NotRequired", "Required", "Optional", "Final", "ClassVar", "TypeIs", "TypeGuard"}


def union(ts):
    flat = []
    for t in ts:
        if t is None:
            continue
        if t[0] == "union":
            for x in t[1]:
                if x not in flat:
                    flat.append(x)
        elif t not in flat:
            flat.append(t)
    if not flat:
        return None
    if len(flat) == 1:
        return flat[0]
    return ("union", tuple(flat))


class Typer:
    def __init__(self, I: Interp, tree, root_fi):
        self.I = I
        self.tree = tree
        self.root = root_fi
        self.F = I.facts
        self.memo: dict = {}
        self._subs = None

    # -- annotations ------------------------------------------------------------------------
    def ann(self, mod, e, depth=0):
        if e is None or depth > 8:
            return None
        if isinstance(e, ast.Constant):
            if isinstance(e.value, str):
                try:
                    return self.ann(mod, ast.parse(e.value, mode="eval").body, depth + 1)
                except SyntaxError:
                    return None
            return None
        if isinstance(e, ast.Name):
            if e.id in ("str", "int", "bool", "float"):
                return ("prim", e.id)
            r = self.F.resolve_name(mod, e.id)
            if r is not None and r[0] == "class":
                c = r[1]
                if any(x.is_typeddict for x in c.mro()):
                    return ("td", c)
                return ("inst", c)
            if r is not None and r[0] == "global":
                v = r[1].globals.get(r[2])
                if isinstance(v, (ast.Subscript, ast.BinOp, ast.Name)):
                    return self.ann(r[1], v, depth + 1)       # type alias
            return None
        if isinstance(e, ast.Attribute):
            return self.ann(mod, ast.Name(id=e.attr, ctx=ast.Load()), depth + 1)
        if isinstance(e, ast.BinOp) and isinstance(e.op, ast.BitOr):
            return union([self.ann(mod, e.left, depth + 1), self.ann(mod, e.right, depth + 1)])
        if isinstance(e, ast.Subscript):
            head = e.value.id if isinstance(e.value, ast.Name) else (e.value.attr if isinstance(e.value, ast.Attribute) else None)
            args = list(e.slice.elts) if isinstance(e.slice, ast.Tuple) else [e.slice]
            if head in WRAPPERS:
                return self.ann(mod, args[0], depth + 1)
            if head == "Union":
                return union([self.ann(mod, a, depth + 1) for a in args])
            if head in ("tuple", "Tuple") and len(args) > 1 and not (isinstance(args[-1], ast.Constant) and args[-1].value is Ellipsis):
                return ("tuple", tuple(self.ann(mod, a, depth + 1) for a in args))
            if head in SEQ_NAMES:
                return ("list", self.ann(mod, args[0], depth + 1))
            return None
        return None

    # -- declared keys ----------------------------------------------------------------------
    def subclasses(self, c: ClassInfo):
        if self._subs is None:
            self._subs = {}
            for x in self.F.all_classes():
                for b in x.mro()[1:]:
                    self._subs.setdefault(b, []).append(x)
        return self._subs.get(c, [])

    def field(self, c: ClassInfo, key: str):
        """(found?, type) of key on TypedDict c: its own / inherited fields, or a field of a declared sub-shape."""
        for x in c.mro():
            if key in x.annotations:
                return True, self.ann(x.module, x.annotations[key])
        ts = []
        found = False
        for s in self.subclasses(c):
            if key in s.annotations:
                found = True
                ts.append(self.ann(s.module, s.annotations[key]))
        return found, union(ts)

    def keys_of(self, c: ClassInfo):
        ks = set()
        for x in c.mro():
            ks |= set(x.annotations)
        for s in self.subclasses(c):
            ks |= set(s.annotations)
        return ks

    # -- terms ---------------------------------------------------------------------------------
    def elem_of(self, t):
        if t is None:
            return None
        if t[0] == "list":
            return t[1]
        if t[0] == "union":
            return union([self.elem_of(x) for x in t[1]])
        if t[0] == "tuple":
            return union(list(t[1]))
        return None

    def ty(self, t, depth=0):
        if not isinstance(t, tuple) or not t or depth > 24:
            return None
        if t in self.memo:
            return self.memo[t]
        self.memo[t] = None      # cycle guard
        r = self._ty(t, depth)
        self.memo[t] = r
        return r

    def _ty(self, t, depth):
        I = self.I
        k = t[0]
        if k == "param":
            a = self.root.node.args
            for p in a.posonlyargs + a.args + a.kwonlyargs:
                if p.arg == t[1]:
                    return self.ann(self.root.module, p.annotation)
            return None
        if k == "const":
            return ("prim", type(t[1]).__name__)
        if k == "dropnone":
            return self.ty(t[1], depth + 1)
        if k == "cond":
            return union([self.ty(t[2], depth + 1), self.ty(t[3], depth + 1)])
        if k == "item":
            bt = self.ty(t[1], depth + 1)
            return self.item_type(bt, t[2])
        if k == "slice":
            return self.ty(t[1], depth + 1)
        if k == "elem":
            it = I.loops.get(t[1], {}).get("iter")
            return self.iter_elem(it, depth + 1) if it is not None else None
        if k in ("phi", "loopout"):
            info = I.loops.get(t[1], {})
            return union([self.ty(info.get("carried_init", {}).get(t[2]), depth + 1), self.ty(info.get("carried", {}).get(t[2]), depth + 1)])
        if k == "binop" and t[1] == "Add":
            return union([self.ty(t[2], depth + 1), self.ty(t[3], depth + 1)])
        if k == "tuple":
            return ("tuple", tuple(self.ty(x, depth + 1) for x in t[1]))
        if k == "firstof":
            return union([self.ty(t[2], depth + 1), self.ty(t[3], depth + 1)])
        if k == "ref":
            o = I.obj(t)
            if isinstance(o, HList):
                ets = []
                for kind, term, _loops, _gs in nf.seg_elems(nf.flatten_segs(I, nf.list_content(I, t, self.tree), self.tree)):
                    if kind == "e":
                        ets.append(self.ty(term, depth + 1))
                    elif kind == "s":
                        ets.append(self.elem_of(self.ty(term, depth + 1)))
                return ("list", union(ets))
            return None
        if k == "call":
            if t[1] in ("list", "tuple", "reversed", "sorted", "iter") and len(t[2]) == 1:
                return self.ty(t[2][0], depth + 1)
            if t[1] == "zip":
                return ("list", ("tuple", tuple(self.elem_of(self.ty(a, depth + 1)) for a in t[2])))
            if t[1] == "enumerate" and t[2]:
                return ("list", ("tuple", (("prim", "int"), self.elem_of(self.ty(t[2][0], depth + 1)))))
            if t[1] in (".get",) and len(t[2]) >= 2:
                return self.item_type(self.ty(t[2][0], depth + 1), t[2][1])
            return None
        return None

    def iter_elem(self, it, depth):
        return self.elem_of(self.ty(it, depth))

    def item_type(self, bt, key):
        if bt is None:
            return None
        if bt[0] == "union":
            return union([self.item_type(x, key) for x in bt[1]])
        if bt[0] == "td" and is_const(key) and isinstance(key[1], str):
            return self.field(bt[1], key[1])[1]
        if bt[0] == "list":
            return bt[1]
        if bt[0] == "tuple":
            if is_const(key) and isinstance(key[1], int) and -len(bt[1]) <= key[1] < len(bt[1]):
                return bt[1][key[1]]
            return union(list(bt[1]))
        return None

    def tds(self, bt):
        """TypedDict classes a value of type bt may be (None when not (only) TypedDicts)."""
        if bt is None:
            return None
        if bt[0] == "td":
            return [bt[1]]
        if bt[0] == "union":
            out = []
            for x in bt[1]:
                if x == ("prim", "NoneType"):
                    continue
                r = self.tds(x)
                if r is None:
                    return None
                out += r
            return out or None
        return None


def all_terms(I: Interp, tree):
    """Root terms evaluated anywhere in an effect tree (tests, iterables, arguments, stored and returned values, object contents)."""
    roots = []
    for n, ctx in nf.iter_nodes(tree):
        k = n[0]
        line = None
        for x in reversed(n):
            if isinstance(x, int):
                line = x
                break
        if k == "if":
            roots.append((n[1], line))
        elif k == "loop":
            info = I.loops.get(n[1], {})
            for key in ("iter", "test"):
                if key in info:
                    roots.append((info[key], info.get("line")))
            for c in info.get("conds") or ():
                roots.append((c, info.get("line")))
        elif k == "mutate":
            roots.append((n[1], line))
            for a in n[3]:
                roots.append((a, line))
        elif k in ("return", "raise", "yield", "yieldfrom"):
            roots.append((n[1], line))
        elif k == "setitem":
            roots += [(n[1], line), (n[2], line), (n[3], line)]
        elif k == "setattr":
            roots.append((n[3], line))
        elif k in ("extcall", "mcall", "dyncall", "ev"):
            for a in n[2] if k != "mcall" else (n[2],) + tuple(n[3]):
                if isinstance(a, tuple):
                    roots.append((a, line))
        elif k == "alloc":
            o = I.obj(n[1])
            if isinstance(o, HDict):
                for e in o.entries:
                    for x in e:
                        if isinstance(x, tuple):
                            roots.append((x, n[2]))
            elif isinstance(o, HList):
                for kind, term, _l, _g in nf.seg_elems(o.segs):
                    if isinstance(term, tuple) and kind in ("e", "s"):
                        roots.append((term, n[2]))
    for lid, info in I.loops.items():
        if info.get("kind") == "comp":
            for key in ("iter",):
                if key in info:
                    roots.append((info[key], info.get("line")))
            for c in info.get("conds") or ():
                roots.append((c, info.get("line")))
    return roots


def key_reads(I: Interp, tree, root_fi):
    """[(line, key, base term, [TypedDict classes], ok)] for every constant-key read / membership test on a typed value."""
    T = Typer(I, tree, root_fi)
    out = []
    seen = set()
    for root, line in all_terms(I, tree):
        for s in nf.subterms(root):
            base = key = None
            if s[0] == "item" and is_const(s[2]) and isinstance(s[2][1], str):
                base, key = s[1], s[2][1]
            elif s[0] == "cmp" and s[1] in ("In", "NotIn") and is_const(s[2]) and isinstance(s[2][1], str):
                base, key = s[3], s[2][1]
            elif s[0] == "call" and s[1] == ".get" and len(s[2]) >= 2 and is_const(s[2][1]) and isinstance(s[2][1][1], str):
                base, key = s[2][0], s[2][1][1]
            if base is None or (base, key) in seen:
                continue
            seen.add((base, key))
            cls = T.tds(T.ty(base))
            if not cls:
                out.append((line, key, base, None, None))
                continue
            ok = any(key in T.keys_of(c) for c in cls)
            out.append((line, key, base, cls, ok))
    return out
