"""Regex normal forms: constant patterns are parsed with re._parser and reduced to a structure of
anchors / repeated character classes / groups / branches, with character classes evaluated over a probe
alphabet, so that equivalent spellings ([ \\t] vs [\\t ], {0,} vs *, \\s vs [\\s]) compare equal."""
from __future__ import annotations

import re
import re._parser as sp
import re._constants as sc

PROBE = [chr(i) for i in range(128)] + ["\x85", "\xa0", " ", " ", " ", " ", "　", "﻿", "é", "ß", "中", "😀"]


def _cat(cat, ch: str) -> bool:
    name = str(cat)
    neg = "NOT_" in name
    if "SPACE" in name:
        r = ch.isspace()
    elif "DIGIT" in name:
        r = ch.isdigit()
    elif "WORD" in name:
        r = ch.isalnum() or ch == "_"
    elif "LINEBREAK" in name:
        r = ch == "\n"
    else:
        raise ValueError(f"unsupported category {name}")
    return (not r) if neg else r


def _in_set(items, ch: str, ignorecase: bool) -> bool:
    neg = False
    hit = False
    for op, av in items:
        if op is sc.NEGATE:
            neg = True
        elif op is sc.LITERAL:
            hit = hit or ord(ch) == av or (ignorecase and ch.lower() == chr(av).lower())
        elif op is sc.RANGE:
            hit = hit or av[0] <= ord(ch) <= av[1]
        elif op is sc.CATEGORY:
            hit = hit or _cat(av, ch)
        else:
            raise ValueError(f"unsupported set item {op}")
    return (not hit) if neg else hit


def _klass(op, av, flags) -> frozenset:
    ic = bool(flags & re.IGNORECASE)
    if op is sc.LITERAL:
        return frozenset(c for c in PROBE if ord(c) == av or (ic and c.lower() == chr(av).lower()))
    if op is sc.NOT_LITERAL:
        return frozenset(c for c in PROBE if ord(c) != av)
    if op is sc.ANY:
        return frozenset(c for c in PROBE if (flags & re.DOTALL) or c != "\n")
    if op is sc.IN:
        return frozenset(c for c in PROBE if _in_set(av, c, ic))
    if op is sc.CATEGORY:
        return frozenset(c for c in PROBE if _cat(av, c))
    raise ValueError(op)


def _nf_seq(seq, flags):
    out = []
    for op, av in seq:
        if op is sc.AT:
            nm = str(av)
            if "BEGINNING" in nm and "STRING" in nm:
                out.append(("at", "begin"))          # \A: the start of the text, which is what ^ is without MULTILINE
            elif "BEGINNING" in nm and "STRING" not in nm:
                out.append(("at", "begin_line" if flags & re.MULTILINE else "begin"))
            elif "END" in nm and "STRING" not in nm:
                out.append(("at", "end_line" if flags & re.MULTILINE else "end"))
            else:
                out.append(("at", nm))
        elif op in (sc.LITERAL, sc.NOT_LITERAL, sc.ANY, sc.IN, sc.CATEGORY):
            out.append(("rep", 1, 1, _klass(op, av, flags), True))
        elif op in (sc.MAX_REPEAT, sc.MIN_REPEAT):
            lo, hi, sub = av
            hi = None if hi == sc.MAXREPEAT else hi
            inner = _nf_seq(sub, flags)
            if len(inner) == 1 and inner[0][0] == "rep" and inner[0][1] == 1 and inner[0][2] == 1:
                out.append(("rep", lo, hi, inner[0][3], op is sc.MAX_REPEAT))
            else:
                out.append(("repseq", lo, hi, tuple(inner), op is sc.MAX_REPEAT))
        elif op is sc.SUBPATTERN:
            gid, add, dele, sub = av
            out.append(("group", gid, tuple(_nf_seq(sub, flags))))
        elif op is sc.BRANCH:
            out.append(("branch", tuple(tuple(_nf_seq(b, flags)) for b in av[1])))
        else:
            out.append(("other", str(op), repr(av)))
    # merge adjacent single repetitions of the same class: xx?x? -> x{1,3}
    merged = []
    for it in out:
        if merged and it[0] == "rep" and merged[-1][0] == "rep" and merged[-1][3] == it[3] and it[4] and merged[-1][4]:
            a = merged.pop()
            hi = None if (a[2] is None or it[2] is None) else a[2] + it[2]
            merged.append(("rep", a[1] + it[1], hi, it[3], True))
        else:
            merged.append(it)
    return merged


def nf(pattern: str, flags: int = 0):
    p = sp.parse(pattern, flags)
    fl = p.state.flags | flags
    return tuple(_nf_seq(p, fl))


def test_nf(pattern: str, flags: int = 0, method: str = "search"):
    """Normal form of a pattern used as a *test* (does the text match?) through ``re.<method>``: ``match`` and ``fullmatch``
    anchor at the start, ``fullmatch`` also at the very end; ``$`` is ``\\n?\\Z`` (as a test - not for what a match spans)."""
    seq = list(nf(pattern, flags))
    if method in ("match", "fullmatch") and not (seq and seq[0] == ("at", "begin")):
        seq.insert(0, ("at", "begin"))
    if method == "fullmatch":
        seq.append(("at", "AT_END_STRING"))
    out = []
    nl = frozenset("\n")
    for it in seq:
        if it == ("at", "end"):
            absorbed = bool(out) and out[-1][0] == "rep" and out[-1][2] is None and "\n" in out[-1][3]
            if not absorbed:        # (an unbounded run that may take the line feed already covers the optional one)
                out.append(("rep", 0, 1, nl, True))
            out.append(("at", "AT_END_STRING"))
        else:
            out.append(it)
    # ... \n? \Z \Z  ->  ... \n? \Z
    while len(out) >= 2 and out[-1] == ("at", "AT_END_STRING") and out[-2] == ("at", "AT_END_STRING"):
        out.pop()
    return tuple(out)


def same_test(pattern: str, flags: int, method: str, expected: str, eflags: int = 0, emethod: str = "search") -> bool:
    try:
        return test_nf(pattern, flags, method) == test_nf(expected, eflags, emethod)
    except Exception:
        return False


def same(pattern: str, flags: int, expected: str, eflags: int = 0) -> bool:
    try:
        return nf(pattern, flags) == nf(expected, eflags)
    except Exception:
        return False


def describe(pattern: str, flags: int = 0) -> str:
    def d(seq):
        parts = []
        for it in seq:
            if it[0] == "at":
                parts.append("<" + it[1] + ">")
            elif it[0] == "rep":
                cls = it[3]
                show = "".join(sorted(c for c in cls if 32 < ord(c) < 127))[:12]
                ws = sum(1 for c in cls if c.isspace())
                parts.append(f"[{len(cls)} chars:{show!r},ws={ws}]{{{it[1]},{it[2]}}}")
            elif it[0] == "group":
                parts.append(f"(g{it[1]}: " + d(it[2]) + ")")
            elif it[0] == "branch":
                parts.append("(" + " | ".join(d(b) for b in it[1]) + ")")
            elif it[0] == "repseq":
                parts.append("(" + d(it[3]) + f"){{{it[1]},{it[2]}}}")
            else:
                parts.append(str(it))
        return " ".join(parts)
    try:
        return d(nf(pattern, flags))
    except Exception as e:
        return f"<unparsable: {e}>"
