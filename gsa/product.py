"""Product of the extracted parser table with the reference machine built from gherkin.berp."""
from __future__ import annotations

from collections import deque

from .berp import Grammar, fmt_cont, ref_step, testers
from .ptable import ParserTable

LINE_KINDS = ["Empty", "Comment", "TagLine", "FeatureLine", "RuleLine", "BackgroundLine", "ScenarioLine",
              "ExamplesLine", "StepLine", "DocStringSeparator", "TableRow", "Language", "Other", "EOF"]


def lookahead_expected(pt: ParserTable) -> dict[str, str | None]:
    out = {}
    for name, info in pt.lookaheads.items():
        out[name] = info["expected"][0] if len(info["expected"]) == 1 else None
    return out


def py_step(pt: ParserTable, state: int, kind: str, outcome: str | None, la_exp: dict):
    """First transition, in source order, whose tester the line satisfies (Appendix A)."""
    sat = set(testers(kind))
    if kind != "EOF":
        sat.add("Other")
    st = pt.states[state]
    for t in st.transitions:
        if t.token not in sat:
            continue
        if t.lookahead is not None:
            exp = la_exp.get(t.lookahead)
            if exp is None or exp != outcome:
                continue
        return t
    return None


def run_product(pt: ParserTable, g: Grammar):
    """BFS over (python state, continuation).  Returns (mismatches, stats)."""
    la_exp = lookahead_expected(pt)
    outcomes = [None] + sorted({v for v in la_exp.values() if v})
    hinted = sorted({r.hint[1] for r in g.rules.values() if r.hint})
    for h in hinted:
        if h not in outcomes:
            outcomes.append(h)
    start = (0, g.initial())
    seen = {start}
    dq = deque([start])
    mismatches = []
    triples = 0
    reached_states = {0}
    state_conts: dict[int, set] = {}
    samples = []
    end_states = pt.end_states()
    while dq:
        s, cont = dq.popleft()
        state_conts.setdefault(s, set()).add(cont)
        if s not in pt.states:
            continue
        for kind in LINE_KINDS:
            for outcome in (outcomes if kind == "TagLine" else [None]):
                triples += 1
                ref = ref_step(g, cont, kind, outcome)
                t = py_step(pt, s, kind, outcome, la_exp)
                where = {"state": s, "line_kind": kind, "lookahead_outcome": outcome,
                         "continuation": fmt_cont(cont)}
                if t is None:
                    if ref.verdict != "error":
                        mismatches.append({**where, "what": "python rejects, grammar accepts",
                                           "expected": f"{ref.verdict} as #{ref.as_kind} {list(ref.events)}",
                                           "found": "no transition (error tail)",
                                           "line": pt.states[s].fi.node.lineno})
                    continue
                if ref.verdict == "error":
                    mismatches.append({**where, "what": "python accepts, grammar rejects",
                                       "expected": "error, position unchanged",
                                       "found": repr(t), "line": t.line})
                    continue
                prods = [p for p in t.productions if p[0] != "build"]
                if ref.as_kind != t.token:
                    mismatches.append({**where, "what": "line consumed as a different token kind",
                                       "expected": f"#{ref.as_kind}", "found": f"#{t.token}", "line": t.line})
                    continue
                if tuple(prods) != tuple(ref.events):
                    mismatches.append({**where, "what": "productions differ (nesting is not a derivation)",
                                       "expected": list(ref.events), "found": prods, "line": t.line})
                    continue
                if t.target is None:
                    mismatches.append({**where, "what": "transition has no constant target",
                                       "expected": "return <state>", "found": repr(t), "line": t.line})
                    continue
                if ref.verdict == "skip" and t.target != s:
                    mismatches.append({**where, "what": "ignored token changes the position",
                                       "expected": s, "found": t.target, "line": t.line})
                    continue
                if kind == "EOF":
                    if ref.cont != () or t.target not in end_states:
                        mismatches.append({**where, "what": "EOF does not lead to the end state with everything closed",
                                           "expected": "end state, empty continuation",
                                           "found": f"{t.target}, {fmt_cont(ref.cont)}", "line": t.line})
                    continue
                if t.target in end_states:
                    mismatches.append({**where, "what": "end state entered without EOF",
                                       "expected": "a parsing state", "found": t.target, "line": t.line})
                    continue
                nxt = (t.target, ref.cont)
                reached_states.add(t.target)
                if len(samples) < 12 and ref.events:
                    samples.append({**where, "consumed_as": t.token, "productions": prods, "target": t.target})
                if nxt not in seen:
                    seen.add(nxt)
                    dq.append(nxt)
    stats = {"product_states": len(seen), "triples": triples, "reached_python_states": sorted(reached_states),
             "state_conts": state_conts, "samples": samples}
    return mismatches, stats
