"""Self-test of the checkers on seeded variants: breaking changes (must be reported for their property) and
behaviour-preserving refactorings (every check must stay silent).  Variants are applied to scratch copies of
/repo's HEAD (git archive) under a temporary directory outside /repo and /verif, removed afterwards.
Nothing of gherkin is executed: the checks are the same static checks, pointed at the copy through GSA_REPO."""
from __future__ import annotations

import json
import os
import shutil
import subprocess
import sys
import tempfile
from concurrent.futures import ThreadPoolExecutor

VERIF = os.path.dirname(os.path.dirname(os.path.abspath(__file__)))
REPO = "/repo"
PY = sys.executable


def _export(dst: str) -> bool:
    """Pristine copy of the python package, grammar, tables and sibling parsers at HEAD."""
    os.makedirs(dst, exist_ok=True)
    paths = ["python", "gherkin.berp", "gherkin-languages.json", "README.md", "MARKDOWN_WITH_GHERKIN.md", "java/src/main/java/io/cucumber/gherkin/Parser.java",
             "go/parser.go", "ruby/lib/gherkin/parser.rb", "c/src/parser.c", "javascript/src/Parser.ts", "dotnet/Gherkin/Parser.cs",
             "php/src-generated/Parser.php", "perl/lib/Gherkin/Generated/Parser.pm"]
    p1 = subprocess.Popen(["git", "-C", REPO, "archive", "HEAD", "--"] + paths, stdout=subprocess.PIPE, stderr=subprocess.DEVNULL)
    p2 = subprocess.run(["tar", "-x", "-C", dst], stdin=p1.stdout, stderr=subprocess.DEVNULL)
    p1.wait()
    return p1.returncode == 0 and p2.returncode == 0


def _run_check(root: str, prop: str) -> tuple[int, str]:
    env = dict(os.environ, GSA_REPO=root, GSA_NO_EVIDENCE="1")
    r = subprocess.run([PY, "-B", "-m", "gsa.main", prop, "--tier", "quick"], cwd=VERIF, env=env, capture_output=True, text=True)
    first = ""
    for ln in r.stdout.splitlines():
        if "REFUTED" in ln or "ANALYSIS-ERROR" in ln:
            first = ln.strip()[:200]
            break
    return r.returncode, first


def _one(kind: str, name: str, patch: str, props: list[str], base: str) -> dict:
    root = tempfile.mkdtemp(prefix="gsa-selftest-")
    try:
        shutil.copytree(base, root, dirs_exist_ok=True)
        a = subprocess.run(["git", "apply", "--unsafe-paths", "--directory", root, patch], cwd="/", capture_output=True, text=True)
        if a.returncode != 0:
            # fall back to patch -p1
            a = subprocess.run(["patch", "-p1", "-s", "-d", root, "-i", patch], capture_output=True, text=True)
            if a.returncode != 0:
                return {"variant": name, "kind": kind, "status": "skipped", "why": "does not apply to HEAD"}
        res = {}
        for p in props:
            rc, first = _run_check(root, p)
            res[p] = {"exit": rc, "first": first}
        if kind == "breaking":
            ok = all(v["exit"] == 1 for v in res.values())
        else:
            ok = all(v["exit"] == 0 for v in res.values())
        return {"variant": name, "kind": kind, "status": "ok" if ok else "FAILED", "results": res}
    finally:
        shutil.rmtree(root, ignore_errors=True)


def run(props: list[str] | None = None, jobs: int = 16) -> dict:
    """Run the corpus.  ``props``: restrict to these properties (breaking variants of those properties; neutral variants
    are checked against those properties only)."""
    base = tempfile.mkdtemp(prefix="gsa-selftest-base-")
    try:
        if not _export(base):
            return {"status": "skipped", "why": "could not export /repo HEAD"}
        tasks = []
        sd = os.path.join(VERIF, "seeded")
        for d in sorted(os.listdir(sd)) if os.path.isdir(sd) else []:
            mp = os.path.join(sd, d, "meta.json")
            pp = os.path.join(sd, d, "patch.diff")
            if not (os.path.exists(mp) and os.path.exists(pp)):
                continue
            prop = json.load(open(mp))["property"]
            if props and prop not in props:
                continue
            tasks.append(("breaking", d, pp, [prop]))
        nd = os.path.join(VERIF, "selftest", "neutral")
        allp = props or [f"C{i:02d}" for i in range(1, 20)]
        for d in sorted(os.listdir(nd)) if os.path.isdir(nd) else []:
            pp = os.path.join(nd, d, "patch.diff")
            if os.path.exists(pp):
                tasks.append(("neutral", d, pp, list(allp)))
        with ThreadPoolExecutor(max_workers=jobs) as ex:
            results = list(ex.map(lambda t: _one(t[0], t[1], t[2], t[3], base), tasks))
    finally:
        shutil.rmtree(base, ignore_errors=True)
    summary = {
        "breaking_total": sum(1 for r in results if r["kind"] == "breaking" and r["status"] != "skipped"),
        "breaking_reported": sum(1 for r in results if r["kind"] == "breaking" and r["status"] == "ok"),
        "neutral_total": sum(1 for r in results if r["kind"] == "neutral" and r["status"] != "skipped"),
        "neutral_silent": sum(1 for r in results if r["kind"] == "neutral" and r["status"] == "ok"),
        "skipped": sum(1 for r in results if r["status"] == "skipped"),
        "failed": [r for r in results if r["status"] == "FAILED"],
    }
    return {"status": "ok" if not summary["failed"] else "FAILED", "summary": summary,
            "variants": [{k: v for k, v in r.items() if k != "results"} | {"rules": {p: x.get("first", "")[:120] for p, x in r.get("results", {}).items()}}
                         for r in results]}


if __name__ == "__main__":
    props = [a for a in sys.argv[1:] if a.startswith("C")] or None
    out = run(props)
    s = out.get("summary", {})
    print(json.dumps({k: v for k, v in s.items() if k != "failed"}, indent=1))
    for r in s.get("failed", []):
        print("FAILED", r["variant"], r["kind"], {p: (v["exit"], v["first"][:100]) for p, v in r["results"].items() if (v["exit"] != 1 if r["kind"] == "breaking" else v["exit"] != 0)})
    sys.exit(0 if out.get("status") == "ok" else 2)
