"""Queries over the normal forms produced by gsa.absint: projections, list/dict contents, term rewriting."""
from __future__ import annotations

from .absint import Interp, HList, HDict, HInst, HGen, NONE, const, is_const, mk_not, fmt, fmt_seg


# ---- traversal ----------------------------------------------------------------------------
def iter_nodes(tree, ctx=()):
    """Depth-first, program order.  ctx: tuple of ('if', cond, polarity) / ('loop', id) / ('call', q, act) /
    ('try', line) / ('except', type, line)."""
    for n in tree:
        k = n[0]
        if k == "if":
            yield n, ctx
            yield from iter_nodes(n[2], ctx + (("if", n[1], True),))
            yield from iter_nodes(n[3], ctx + (("if", n[1], False),))
        elif k == "loop":
            yield n, ctx
            yield from iter_nodes(n[2], ctx + (("loop", n[1]),))
        elif k == "call":
            yield n, ctx
            yield from iter_nodes(n[2], ctx + (("call", n[1], n[4]),))
        elif k == "try":
            yield n, ctx
            yield from iter_nodes(n[1], ctx + (("try", n[3], tuple(h[0] for h in n[2])),))
            for h in n[2]:
                yield from iter_nodes(h[2], ctx + (("except", h[0], h[3]),))
        else:
            yield n, ctx


def project(tree, pred):
    """Sub-tree keeping leaves with pred(leaf) and the if/loop structure around them; calls are transparent."""
    out = []
    for n in tree:
        k = n[0]
        if k == "if":
            t, e = project(n[2], pred), project(n[3], pred)
            if t or e:
                out.append(("if", n[1], t, e))
        elif k == "loop":
            b = project(n[2], pred)
            if b:
                out.append(("loop", n[1], b))
        elif k == "call":
            out.extend(project(n[2], pred))
        elif k == "try":
            b = project(n[1], pred)
            out.extend(b)
            for h in n[2]:
                hb = project(h[2], pred)
                if hb:
                    out.append(("if", ("except", h[0]), hb, []))
        elif pred(n):
            out.append(("leaf", n))
    return out


def norm_if(ptree):
    """Normalise projected trees: 'not' conditions swap branches; empty ifs vanish; constant conditions fold."""
    out = []
    for n in ptree:
        if n[0] == "if":
            c, t, e = n[1], norm_if(n[2]), norm_if(n[3])
            while isinstance(c, tuple) and c[0] == "not":
                c, t, e = c[1], e, t
            if is_const(c):
                out.extend(t if c[1] else e)
                continue
            if not t and not e:
                continue
            out.append(("if", c, t, e))
        elif n[0] == "loop":
            b = norm_if(n[2])
            if b:
                out.append(("loop", n[1], b))
        else:
            out.append(n)
    return out


def _has_alloc(pt, ref) -> bool:
    for n in pt:
        if n[0] == "leaf" and n[1][0] == "alloc" and n[1][1] == ref:
            return True
        if n[0] == "if" and (_has_alloc(n[2], ref) or _has_alloc(n[3], ref)):
            return True
        if n[0] == "loop" and _has_alloc(n[2], ref):
            return True
    return False


def _strip_to_alloc(pt, ref):
    """Re-root a projected tree at the block in which ``ref`` is allocated: structure *around* the allocation
    is context, not part of the object's history."""
    while True:
        holders = [n for n in pt if n[0] in ("if", "loop") and (_has_alloc(n[2], ref) or (n[0] == "if" and _has_alloc(n[3], ref)))]
        if len(holders) != 1 or len(pt) != 1:
            # allocation is in this block (or history spans several blocks): stop here
            break
        n = holders[0]
        if n[0] == "loop":
            pt = n[2]
        else:
            pt = n[2] if _has_alloc(n[2], ref) else n[3]
    return [n for n in pt if not (n[0] == "leaf" and n[1][0] == "alloc")]


# ---- heap object contents ------------------------------------------------------------------
def list_leaves(I: Interp, t):
    """The list objects a term may denote when it is a list object or a conditional choice between list objects; else None."""
    if isinstance(t, tuple) and t and t[0] == "cond":
        a, b = list_leaves(I, t[2]), list_leaves(I, t[3])
        return None if a is None or b is None else a + b
    if isinstance(t, tuple) and t and t[0] == "ref" and isinstance(I.obj(t), HList):
        return [t]
    return None


def list_content(I: Interp, ref, tree):
    """Segments of list object ``ref`` after all effects of ``tree``: initial segments followed by the projected
    in-place mutations, nested in the if/loop structure they occur in.
    Segment kinds: ('e', t) ('s', t) ('loop', id, segs) ('if', c, segsT, segsE) ('op', name, args, line)."""
    if isinstance(ref, tuple) and ref and ref[0] == "cond" and list_leaves(I, ref) is not None:
        # one of two list objects, chosen by a condition: the content is conditional
        return [("if", ref[1], list_content(I, ref[2], tree), list_content(I, ref[3], tree))]
    o = I.obj(ref)
    segs = list(o.segs) if isinstance(o, HList) else [("s", ref)]
    pt = project(tree, lambda n: (n[0] == "mutate" and n[1] == ref) or (n[0] == "alloc" and n[1] == ref))
    pt = _strip_to_alloc(pt, ref)
    pt = norm_if(pt)

    def conv(pt):
        out = []
        for n in pt:
            if n[0] == "if":
                out.append(("if", n[1], conv(n[2]), conv(n[3])))
            elif n[0] == "loop":
                out.append(("loop", n[1], conv(n[2])))
            else:
                m = n[1]
                if m[0] == "alloc":
                    continue
                if m[2] == "append" and len(m[3]) == 1:
                    out.append(("e", m[3][0]))
                elif m[2] == "extend" and len(m[3]) == 1:
                    out.append(("s", m[3][0]))
                else:
                    out.append(("op", m[2], m[3], m[4]))
        return out

    return segs + conv(pt)


def flatten_segs(I: Interp, segs, tree=None, depth=0, max_depth=12):
    """Inline splats of list objects (and '+' concatenations) recursively; with ``tree`` the mutation history of the
    splatted objects is included (content at end of analysis)."""
    out = []
    for s in segs:
        if s[0] == "s":
            t = s[1]
            o = I.obj(t)
            if isinstance(o, HList) and depth < max_depth:
                inner = list_content(I, t, tree) if tree is not None else list(o.segs)
                out.extend(flatten_segs(I, inner, tree, depth + 1, max_depth))
            elif t[0] == "binop" and t[1] == "Add":
                out.extend(flatten_segs(I, [("s", t[2]), ("s", t[3])], tree, depth, max_depth))
            elif t[0] == "cond" and depth < max_depth:
                # a choice between lists: its elements under that condition
                out.append(("if", t[1], flatten_segs(I, [("s", t[2])], tree, depth + 1, max_depth), flatten_segs(I, [("s", t[3])], tree, depth + 1, max_depth)))
            else:
                out.append(s)
        elif s[0] == "loop":
            body = flatten_segs(I, s[2], tree, depth + 1, max_depth)
            info = I.loops.get(s[1], {})
            if body == [("e", ("elem", s[1]))] and not info.get("conds") and info.get("iter") is not None and info.get("kind") in ("comp", "for") \
                    and "break_env" not in info and depth < max_depth:
                # every element of the iterable, as it is, in order: the iterable's own elements (``[x for x in xs]``,
                # ``for x in xs: yield x``)
                out.extend(flatten_segs(I, [("s", info["iter"])], tree, depth + 1, max_depth))
            else:
                out.append(("loop", s[1], body))
        elif s[0] == "if":
            out.append(("if", s[1], flatten_segs(I, s[2], tree, depth + 1, max_depth), flatten_segs(I, s[3], tree, depth + 1, max_depth)))
        else:
            out.append(s)
    return out


def dict_content(I: Interp, ref, tree):
    """Entries of dict object ``ref``: [(key_term, value_term, guard)] where guard is None (always) or a condition
    list under which a later ``d[k] = v`` happens."""
    ref = strip_dropnone(ref)
    if isinstance(ref, tuple) and ref and ref[0] == "cond":
        # ``a if c else b`` of two dictionaries: shared entries stay unconditional, the others are guarded by c
        a, b = dict_content(I, ref[2], tree), dict_content(I, ref[3], tree)
        if a is None or b is None:
            return None
        fa, fb = {}, {}
        for m, ents in ((fa, a), (fb, b)):
            for k, v, g in ents:
                if not g:
                    m[k] = [(v, g)]
                else:
                    m.setdefault(k, []).append((v, g))
        out = []
        for k in list(fa) + [k for k in fb if k not in fa]:
            xa, xb = fa.get(k), fb.get(k)
            from .absint import mk_cond, mk_not, TRUE, FALSE
            if xa == xb:
                out += [(k, v, g) for v, g in xa]
            elif xa and xb and len(xa) == 1 and len(xb) == 1 and not xa[0][1] and not xb[0][1]:
                out.append((k, mk_cond(ref[1], xa[0][0], xb[0][0]), None))
            elif xa and xb and len(xa) == 1 and len(xb) == 1 and xa[0][0] == xb[0][0]:
                # the same value on both sides, under different conditions: present when either side has it
                def conj(g):
                    ts = [t if pol else mk_not(t) for t, pol in g or ()]
                    return TRUE if not ts else (ts[0] if len(ts) == 1 else ("bool", "and", tuple(ts)))
                gt = mk_cond(ref[1], conj(xa[0][1]), conj(xb[0][1]))
                out.append((k, xa[0][0], None if gt == TRUE else (norm_guard(gt, True),)))
            else:
                out += [(k, v, (norm_guard(ref[1], True),) + tuple(g or ())) for v, g in xa or ()]
                out += [(k, v, (norm_guard(ref[1], False),) + tuple(g or ())) for v, g in xb or ()]
        return out
    o = I.obj(ref)
    if not isinstance(o, HDict):
        return None
    out = []
    for e in o.entries:
        sub = dict_content(I, e[1], tree) if e[0] == "**" else None
        if sub is not None:
            # ``{**d, ...}`` / ``d | {...}``: the entries of d as they are at that point, later keys win
            if getattr(o, "dropnone_all", False):
                sub = [(k, v if (isinstance(v, tuple) and v and v[0] == "dropnone") else ("dropnone", v), g) for k, v, g in sub]
            for k, v, g in sub:
                if not g:
                    out = [x for x in out if x[0] != k]
                out.append((k, v, g))
        else:
            if e[0] != "**":
                out = [x for x in out if x[0] != e[0]]
            out.append((e[0], e[1], None))
    actx = None
    sets = []
    for n, ctx in iter_nodes(tree):
        if n[0] == "alloc" and n[1] == ref:
            actx = ctx
        elif n[0] == "setitem" and n[1] == ref:
            sets.append((n, ctx))
        elif n[0] == "mutate" and n[1] == ref:
            out.append((("op", n[2]), n[3], ()))
    for n, ctx in sets:
        rel = ctx
        if actx is not None:
            i = 0
            while i < len(actx) and i < len(ctx) and actx[i] == ctx[i]:
                i += 1
            rel = ctx[i:]
        guards = tuple(norm_guard(c[1], c[2]) for c in rel if c[0] == "if")
        out.append((n[2], n[3], guards))
    return out


# ---- term rewriting -----------------------------------------------------------------------
def subst(t, mapping: dict):
    """Replace sub-terms by mapping (exact match), bottom-up."""
    if not isinstance(t, tuple):
        return t
    if t in mapping:
        return mapping[t]
    new = tuple(subst(x, mapping) if isinstance(x, tuple) else x for x in t)
    return mapping.get(new, new)


def push_cond_in(t):
    """``(f(a) if c else f(b))`` -> ``f(a if c else b)``: a choice between two terms of the same shape that differ in one
    place is the choice made at that place (the inverse of the interpreter's outward distribution of conditionals)."""
    if not (isinstance(t, tuple) and len(t) == 4 and t[0] == "cond"):
        return t
    c, x, y = t[1], t[2], t[3]
    if not (isinstance(x, tuple) and isinstance(y, tuple) and x and y and x[0] == y[0] and len(x) == len(y)) or x[0] in ("const", "ref", "cond"):
        return t
    diff = [i for i in range(len(x)) if x[i] != y[i]]
    if len(diff) != 1:
        return t
    i = diff[0]
    if not (isinstance(x[i], tuple) and isinstance(y[i], tuple)):
        return t
    if x[i] and y[i] and isinstance(x[i][0], tuple) and len(x[i]) == len(y[i]):
        # a tuple of argument terms: descend into the one argument that differs
        d2 = [j for j in range(len(x[i])) if x[i][j] != y[i][j]]
        if len(d2) != 1:
            return t
        j = d2[0]
        inner = x[i][:j] + (push_cond_in(("cond", c, x[i][j], y[i][j])),) + x[i][j + 1:]
    else:
        inner = push_cond_in(("cond", c, x[i], y[i]))
    return x[:i] + (inner,) + x[i + 1:]


def contains(t, pred) -> bool:
    if not isinstance(t, tuple):
        return False
    if pred(t):
        return True
    return any(contains(x, pred) for x in t if isinstance(x, tuple))


def subterms(t):
    if isinstance(t, tuple) and t:
        yield t
        for x in t:
            if isinstance(x, tuple):
                yield from subterms(x)


def strip_dropnone(t):
    return t[1] if isinstance(t, tuple) and t and t[0] == "dropnone" else t


def loops_in_ctx(ctx):
    return [c[1] for c in ctx if c[0] == "loop"]


def isnone(t):
    """The interpreter's folding of ``t is None`` (distributed over cond-terms)."""
    from .absint import mk_cond, FALSE
    if t[0] == "cond":
        return mk_cond(t[1], isnone(t[2]), isnone(t[3]))
    if is_const(t):
        return const(t[1] is None)
    if t[0] in ("ref", "tuple", "drawn", "fstr", "bound", "func", "class", "lambda", "closure"):
        return FALSE
    return ("cmp", "Is", t, NONE)


def norm_guard(c, p):
    while isinstance(c, tuple) and c and c[0] == "not":
        c, p = c[1], not p
    # a regular-expression match result is None or a (truthy) match object: ``m is None`` is ``not m``
    if isinstance(c, tuple) and c and c[0] == "cmp" and c[1] == "Is" and is_const(c[3], None) and isinstance(c[2], tuple) and c[2] \
            and c[2][0] == "call" and c[2][1] in ("re.match", "re.search", "re.fullmatch"):
        c, p = c[2], not p
    return (c, p)


def guards_in_ctx(ctx):
    return [norm_guard(c[1], c[2]) for c in ctx if c[0] == "if"]


def resolve_ref_dict(I: Interp, t, tree):
    """{const key: (value, guard)} for a dict object term, or None."""
    t = strip_dropnone(t)
    ents = dict_content(I, t, tree) if isinstance(t, tuple) and t and t[0] in ("ref", "cond") else None
    if ents is None:
        return None
    out = {}
    for k, v, g in ents:
        if is_const(k):
            out[k[1]] = (v, g)
        else:
            out[("dyn", k)] = (v, g)
    return out


# ---- decision-tree comparison of cond terms ------------------------------------------------------
def _test_atoms(c, acc):
    """Atomic tests of a condition (cond / not / and-or structure is decomposed)."""
    if not isinstance(c, tuple) or not c or is_const(c):
        return
    if c[0] == "not":
        _test_atoms(c[1], acc)
    elif c[0] == "bool":
        for x in c[2]:
            _test_atoms(x, acc)
    elif c[0] == "cond":
        _test_atoms(c[1], acc)
        _test_atoms(c[2], acc)
        _test_atoms(c[3], acc)
    elif c not in acc:
        acc.append(c)


def cond_atoms(t, acc=None):
    if acc is None:
        acc = []
    if isinstance(t, tuple) and t:
        if t[0] == "cond":
            _test_atoms(t[1], acc)
        for x in t:
            if isinstance(x, tuple):
                cond_atoms(x, acc)
    return acc


def eval_test(c, assign):
    if is_const(c):
        return bool(c[1])
    if c in assign:
        return assign[c]
    if c[0] == "not":
        return not eval_test(c[1], assign)
    if c[0] == "bool":
        # short-circuit, as evaluated: later operands matter only if the earlier ones did not decide
        for x in c[2]:
            v = eval_test(x, assign)
            if v == (c[1] == "or"):
                return v
        return c[1] != "or"
    if c[0] == "cond":
        return eval_test(c[2], assign) if eval_test(c[1], assign) else eval_test(c[3], assign)
    raise KeyError(c)


def resolve_conds(t, assign: dict):
    if not isinstance(t, tuple) or not t:
        return t
    if t[0] == "cond":
        try:
            v = eval_test(t[1], assign)
        except KeyError:
            return tuple(resolve_conds(x, assign) if isinstance(x, tuple) else x for x in t)
        return resolve_conds(t[2] if v else t[3], assign)
    return tuple(resolve_conds(x, assign) if isinstance(x, tuple) else x for x in t)


def decisions(t, limit=12):
    """All (assignment, resolved term) pairs of a term over the truth assignments of the atomic tests on its cond spine;
    None when there are more than ``limit`` atoms."""
    import itertools
    atoms = cond_atoms(t)
    if len(atoms) > limit:
        return None
    out = []
    for bits in itertools.product((False, True), repeat=len(atoms)):
        a = dict(zip(atoms, bits))
        out.append((a, resolve_conds(t, a)))
    return out



def value_segs(I: Interp, t, tree):
    """Segments of a list-valued term: a list object, or a decision (cond) between list values."""
    t = strip_dropnone(t)
    if isinstance(t, tuple) and t and t[0] == "cond":
        return [("if", t[1], value_segs(I, t[2], tree), value_segs(I, t[3], tree))]
    if isinstance(t, tuple) and t and t[0] == "ref" and isinstance(I.obj(t), HList):
        return list_content(I, t, tree)
    if isinstance(t, tuple) and t and t[0] == "ref" and isinstance(I.obj(t), HGen) and I.obj(t).fi is not None:
        # a generator nobody consumed inside the analysed function: its elements, in production order
        from .absint import State
        lst = I.force(t, State(), tree)
        return list_content(I, lst, tree)
    return [("s", t)]


def map_seg_tests(segs, f):
    """Apply f to every test of the if-segments outside loops."""
    out = []
    for s in segs:
        if s[0] == "if":
            out.append(("if", f(s[1]), map_seg_tests(s[2], f), map_seg_tests(s[3], f)))
        else:
            out.append(s)
    return out


def seg_test_atoms(segs, acc=None):
    if acc is None:
        acc = []
    for s in segs:
        if s[0] == "if":
            _test_atoms(s[1], acc)
            seg_test_atoms(s[2], acc)
            seg_test_atoms(s[3], acc)
    return acc


def resolve_segs(segs, assign):
    """Segments with the if-segments outside loops decided by a truth assignment of their atomic tests."""
    out = []
    for s in segs:
        if s[0] == "if":
            try:
                v = eval_test(s[1], assign)
            except KeyError:
                out.append(("if", s[1], resolve_segs(s[2], assign), resolve_segs(s[3], assign)))
                continue
            out.extend(resolve_segs(s[2] if v else s[3], assign))
        else:
            out.append(s)
    return out


def seg_cases(segs, limit=8):
    """[(assignment, decided segments)] over all truth assignments of the top-level if tests; None beyond ``limit`` atoms."""
    import itertools
    atoms = seg_test_atoms(segs)
    if len(atoms) > limit:
        return None
    return [(dict(zip(atoms, bits)), resolve_segs(segs, dict(zip(atoms, bits)))) for bits in itertools.product((False, True), repeat=len(atoms))]



def seg_elems(segs, loops=(), guards=()):
    """(kind, term, enclosing loop ids, guards) for every element / splat leaf of a segment list."""
    for s in segs:
        if s[0] in ("e", "s"):
            yield s[0], s[1], loops, guards
        elif s[0] == "loop":
            yield from seg_elems(s[2], loops + (s[1],), guards)
        elif s[0] == "if":
            yield from seg_elems(s[2], loops, guards + (norm_guard(s[1], True),))
            yield from seg_elems(s[3], loops, guards + (norm_guard(s[1], False),))
        else:
            yield s[0], s, loops, guards



def exists_form(I: Interp, g, tree):
    """(iterated term, loop id, predicate on ('elem', id)) when condition ``g`` means "some element of the iterated
    collection satisfies the predicate": ``x in (f(e) for e in xs)`` / ``any(p(e) for e in xs)`` / a helper that scans
    ``for e in xs: if p(e): return True`` and returns False otherwise.  None when g has no such reading."""
    from .absint import TRUE, FALSE
    if g[0] == "cond" and g[2] == TRUE and g[3] == FALSE:
        g = g[1]
    if g[0] == "cmp" and g[1] == "In":
        coll = g[3]
        segs = list_content(I, coll, tree) if isinstance(I.obj(coll), HList) else []
        if len(segs) == 1 and segs[0][0] == "loop" and len(segs[0][2]) == 1 and segs[0][2][0][0] == "e":
            lid = segs[0][1]
            li = I.loops[lid]
            if not li.get("conds"):
                return li.get("iter"), lid, ("cmp", "Eq", segs[0][2][0][1], g[2])
        return None
    if g[0] == "call" and g[1] == "any" and len(g[2]) == 1:
        coll = g[2][0]
        segs = list_content(I, coll, tree) if isinstance(I.obj(coll), HList) else []
        if len(segs) == 1 and segs[0][0] == "loop" and len(segs[0][2]) == 1 and segs[0][2][0][0] == "e":
            lid = segs[0][1]
            li = I.loops[lid]
            if not li.get("conds"):
                return li.get("iter"), lid, segs[0][2][0][1]
        return None
    if g[0] == "loopret":
        lid = g[1]
        li = I.loops.get(lid, {})
        node = next((n for n, c in iter_nodes(tree) if n[0] == "loop" and n[1] == lid), None)
        if node is None or li.get("kind") != "for" or li.get("conds"):
            return None
        inner = list(iter_nodes(node[2]))
        rets = [(n, c) for n, c in inner if n[0] == "return" and not any(x[0] == "call" for x in c)]
        others = [n for n, c in inner if n[0] in ("mutate", "setattr", "setitem", "break", "raise", "yield", "extcall", "dyncall")
                  and not (n[0] == "extcall" and str(n[1]).startswith("re."))]       # (a pattern test changes nothing)
        if len(rets) != 1 or others or rets[0][0][1] != TRUE:
            return None
        gs = guards_in_ctx(rets[0][1])
        if len(gs) != 1:
            return None
        pred = gs[0][0] if gs[0][1] else mk_not(gs[0][0])
        it = li.get("iter")
        if pred == ("elem", lid) and isinstance(it, tuple) and it and it[0] == "ref":
            # a truth scan over a list of computed values (``any(p(e) for e in xs)`` through its definition): the values' own loop
            sg = flatten_segs(I, value_segs(I, it, tree), tree)
            if len(sg) == 1 and sg[0][0] == "loop" and len(sg[0][2]) == 1 and sg[0][2][0][0] == "e" and not I.loops[sg[0][1]].get("conds"):
                return I.loops[sg[0][1]].get("iter"), sg[0][1], sg[0][2][0][1]
        return it, lid, pred
    return None



def specialise(tree, assign):
    """The effect tree under a truth assignment of atomic tests: decided if-nodes are replaced by the taken branch."""
    out = []
    for n in tree:
        k = n[0]
        if k == "if":
            try:
                v = eval_test(n[1], assign)
            except KeyError:
                out.append(("if", n[1], specialise(n[2], assign), specialise(n[3], assign)) + tuple(n[4:]))
                continue
            out.extend(specialise(n[2] if v else n[3], assign))
        elif k == "loop":
            out.append(("loop", n[1], specialise(n[2], assign)) + tuple(n[3:]))
        elif k == "call":
            out.append(("call", n[1], specialise(n[2], assign)) + tuple(n[3:]))
        elif k == "try":
            out.append(("try", specialise(n[1], assign), [(h[0], h[1], specialise(h[2], assign)) + tuple(h[3:]) for h in n[2]]) + tuple(n[3:]))
        else:
            out.append(n)
    return out



def str_nf(I: Interp, t, tree, stringy=lambda x: False):
    """Normal form of a string-building term: ('cat', (parts...)) with adjacent constants merged; parts are constants,
    ('cond', c, nf, nf), ('join', sep, segments with normalised elements) for joins over loops, or opaque terms.
    Concatenation, ''.join over a list of known elements, f-strings and sep.join are all flattened, so any way of
    assembling the same text has the same normal form.  ``stringy(x)``: x is known to be a str (str(x) == x)."""
    stringy0 = stringy

    def stringy(x, depth=0):
        """known to be a str: said so by the caller, or a str by construction (result of a str method that returns str, an
        f-string, a concatenation with one)"""
        if stringy0(x):
            return True
        if not isinstance(x, tuple) or not x or depth > 6:
            return False
        if x[0] == "fstr" or (is_const(x) and isinstance(x[1], str)):
            return True
        if x[0] == "call" and x[1] in (".join", ".strip", ".rstrip", ".lstrip", ".replace", ".format", ".lower", ".upper", ".casefold", ".removeprefix",
                                       ".removesuffix", ".expandtabs", ".title", "str"):
            return True
        if x[0] == "binop" and x[1] == "Add":
            return stringy(x[2], depth + 1) or stringy(x[3], depth + 1)
        if x[0] == "cond":
            return stringy(x[2], depth + 1) and stringy(x[3], depth + 1)
        return False

    def parts(x):
        if not isinstance(x, tuple) or not x:
            return [x]
        k = x[0]
        if k == "binop" and x[1] == "Add":
            return parts(x[2]) + parts(x[3])
        if k == "fstr":
            out = []
            for p_ in x[1]:
                if is_const(p_) and isinstance(p_[1], str):
                    out.append(p_)
                elif stringy(p_):
                    out.extend(parts(p_))
                else:
                    out.extend(parts(("call", "str", (p_,), ())))
            return out
        if k == "call" and x[1] == "str" and len(x[2]) == 1 and (stringy(x[2][0]) or (is_const(x[2][0]) and isinstance(x[2][0][1], str))):
            return parts(x[2][0])
        if k == "call" and x[1] == ".join" and len(x[2]) == 2 and is_const(x[2][0]) and isinstance(x[2][0][1], str):
            sep, coll = x[2][0], x[2][1]
            if coll[0] == "tuple":
                segs = [("e", e) for e in coll[1]]
            elif isinstance(I.obj(coll), HList) or coll[0] == "cond":
                segs = flatten_segs(I, value_segs(I, coll, tree), tree)
            else:
                return [x]
            if all(sg[0] == "e" for sg in segs):
                out = []
                for i, sg in enumerate(segs):
                    if i and sep[1]:
                        out.append(sep)
                    out.extend(parts(sg[1]))
                return out
            return [("join", sep[1], norm_segs(segs))]
        if k == "cond":
            return [("cond", x[1], cat(parts(x[2])), cat(parts(x[3])))]
        return [x]

    def norm_segs(segs):
        out = []
        for sg in segs:
            if sg[0] == "e":
                out.append(("e", cat(parts(sg[1]))))
            elif sg[0] == "loop":
                out.append(("loop", sg[1], tuple(norm_segs(sg[2]))))
            elif sg[0] == "if":
                out.append(("if", sg[1], tuple(norm_segs(sg[2])), tuple(norm_segs(sg[3]))))
            else:
                out.append(sg)
        return tuple(out)

    def cat(ps):
        out = []
        for p_ in ps:
            if is_const(p_) and isinstance(p_[1], str):
                if p_[1] == "":
                    continue
                if out and is_const(out[-1]) and isinstance(out[-1][1], str):
                    out[-1] = const(out[-1][1] + p_[1])
                    continue
            out.append(p_)
        if not out:
            return const("")
        if len(out) == 1:
            return out[0]
        return ("cat", tuple(out))

    return cat(parts(t))



def guards_imply(guards, atom, value=True, limit=10) -> bool:
    """Every truth assignment (of the atomic tests) that satisfies all ``guards`` [(cond, polarity)] gives ``atom`` the
    truth value ``value``."""
    import itertools
    atoms = []
    for c, _p in guards:
        _test_atoms(c, atoms)
    if atom not in atoms:
        return False
    if len(atoms) > limit:
        return False
    some = False
    for bits in itertools.product((False, True), repeat=len(atoms)):
        a = dict(zip(atoms, bits))
        try:
            sat = all(eval_test(c, a) == p_ for c, p_ in guards)
        except KeyError:
            return False
        if sat:
            some = True
            if a[atom] != value:
                return False
    return some



def emptiness_test(c, pol: bool):
    """(collection term, True if the guard says it is empty / False if non-empty) for a guard (c, pol) that tests the
    emptiness of a collection in any usual spelling (truthiness, len() truthiness, len() == 0, len() < 1, len() > 0 ...)."""
    c, pol = norm_guard(c, pol)
    if c[0] == "call" and c[1] == "len" and len(c[2]) == 1:
        return c[2][0], not pol
    if c[0] == "cmp" and c[2][0] == "call" and c[2][1] == "len" and len(c[2][2]) == 1 and is_const(c[3]) and isinstance(c[3][1], int):
        x, k = c[2][2][0], c[3][1]
        if c[1] == "Eq" and k == 0:
            return x, pol
        if c[1] == "Lt" and k == 1:
            return x, pol
        return None
    if c[0] == "call" and c[1] == "bool" and len(c[2]) == 1:
        return c[2][0], not pol
    if c[0] in ("ref", "attr", "param", "item", "call", "phi", "loopout"):
        return c, not pol
    return None



class NotConstant(Exception):
    pass


def const_eval(t):
    """Python value of a term built from constants with comparisons, truth tests, and/or/not and conditionals."""
    if not isinstance(t, tuple) or not t:
        raise NotConstant
    k = t[0]
    if k == "const":
        return t[1]
    if k == "not":
        return not const_eval(t[1])
    if k == "bool":
        vals = t[2]
        r = None
        for x in vals:
            r = const_eval(x)
            if bool(r) == (t[1] == "or"):
                return r
        return r
    if k == "cond":
        return const_eval(t[2]) if const_eval(t[1]) else const_eval(t[3])
    if k == "cmp":
        a, b_ = const_eval(t[2]), const_eval(t[3])
        try:
            if t[1] == "Eq":
                return a == b_
            if t[1] == "Is":
                return a is b_ or (a is None and b_ is None)
            if t[1] == "Lt":
                return a < b_
            if t[1] == "In":
                return a in b_
        except TypeError:
            raise NotConstant
    if k == "tuple":
        return tuple(const_eval(x) for x in t[1])
    if k == "call" and t[1] == "len" and len(t[2]) == 1:
        return len(const_eval(t[2][0]))
    if k == "call" and t[1] == "bool" and len(t[2]) == 1:
        return bool(const_eval(t[2][0]))
    raise NotConstant


def simplify(I: Interp, t, mapping=None):
    """Re-evaluate a term bottom-up after a substitution made parts of it constant: decided conditionals, comparisons and
    truth tests of constants, look-ups of constant keys in tables that are never written (module / class level), and a
    string joined from a comprehension over what has become a constant sequence.  ``mapping``: the substitution, applied
    here (to the term, and to the comprehensions it refers to)."""
    from .absint import mk_cond, mk_not
    if mapping:
        t = subst(t, mapping)
    if not isinstance(t, tuple) or not t or t[0] in ("const", "ref"):
        return t
    new = tuple(simplify(I, x, mapping) if isinstance(x, tuple) else x for x in t)
    k = new[0]
    if k == "call" and new[1] == ".join" and len(new[2]) == 2 and is_const(new[2][0]) and isinstance(new[2][0][1], str) and new[2][1][0] == "ref":
        o = I.obj(new[2][1])
        if isinstance(o, HList) and len(o.segs) == 1 and o.segs[0][0] == "loop" and len(o.segs[0][2]) == 1 and o.segs[0][2][0][0] == "e":
            lid = o.segs[0][1]
            info = I.loops.get(lid, {})
            it = simplify(I, info.get("iter"), mapping) if info.get("iter") is not None else None
            seq = None
            if it is not None and is_const(it) and isinstance(it[1], (str, tuple)):
                seq = list(it[1])
            elif it is not None and it[0] == "tuple" and all(is_const(x) for x in it[1]):
                seq = [x[1] for x in it[1]]
            if seq is not None and len(seq) <= 64 and not info.get("conds"):
                parts = []
                for c in seq:
                    m2 = dict(mapping or {})
                    m2[("elem", lid)] = const(c)
                    parts.append(simplify(I, o.segs[0][2][0][1], m2))
                if all(is_const(x) and isinstance(x[1], str) for x in parts):
                    return const(new[2][0][1].join(x[1] for x in parts))
    if k == "binop" and new[1] == "Add" and is_const(new[2]) and is_const(new[3]) and type(new[2][1]) is type(new[3][1]) and isinstance(new[2][1], (str, int)) \
            and not isinstance(new[2][1], bool):
        return const(new[2][1] + new[3][1])

    def table(ref):
        o = I.obj(ref)
        if isinstance(o, HDict) and o.origin[2] == 0 and o.entries and all(e[0] != "**" and is_const(e[0]) for e in o.entries):
            return o
        return None
    if k == "cond":
        try:
            return new[2] if const_eval(new[1]) else new[3]
        except NotConstant:
            return mk_cond(new[1], new[2], new[3])
    if k in ("cmp", "not", "bool"):
        try:
            return const(const_eval(new))
        except NotConstant:
            return new
    if k == "call" and new[1] == ".get" and len(new[2]) in (2, 3) and is_const(new[2][1]) and table(new[2][0]) is not None:
        for e in table(new[2][0]).entries:
            if e[0] == new[2][1]:
                return e[1]
        return new[2][2] if len(new[2]) == 3 else NONE
    if k == "item" and is_const(new[2]) and table(new[1]) is not None:
        for e in table(new[1]).entries:
            if e[0] == new[2]:
                return e[1]
    if k == "dropnone":
        return new
    return new


def guard_states(guards, var, domain):
    """The values v of ``domain`` for which every guard that mentions ``var`` holds when var == v; None when some such guard
    cannot be decided from the value alone."""
    rel = [(c, p) for c, p in guards if contains(c, lambda x: x == var)]
    if not rel:
        return None
    out = []
    for v in domain:
        ok = True
        for c, p in rel:
            try:
                val = const_eval(subst(c, {var: const(v)}))
            except NotConstant:
                return None
            if bool(val) != p:
                ok = False
        if ok:
            out.append(v)
    return out
