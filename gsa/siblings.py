"""SiblingTables: the same state table read lexically from the sibling implementations'
generated parsers (template-generated, regular text)."""
from __future__ import annotations

import os
import re

from .common import repo_path

KINDS = ["EOF", "Empty", "Comment", "TagLine", "FeatureLine", "RuleLine", "BackgroundLine", "ScenarioLine",
         "ExamplesLine", "StepLine", "DocStringSeparator", "TableRow", "Language", "Other"]
_KIND_ALT = "|".join(KINDS)

# name -> (relative path, regex matching the *definition* line of state function N)
SIBLINGS = {
    "java": ("java/src/main/java/io/cucumber/gherkin/Parser.java", r"^\s*private\s+int\s+matchTokenAt_(\d+)\s*\("),
    "go": ("go/parser.go", r"^func\s+\(ctxt \*parseContext\)\s+matchAt(\d+)\s*\("),
    "ruby": ("ruby/lib/gherkin/parser.rb", r"^\s*def\s+match_token_at_state(\d+)\s*\("),
    "c": ("c/src/parser.c", r"^static\s+int\s+match_token_at_(\d+)\s*\("),
    "javascript": ("javascript/src/Parser.ts", r"^\s*private\s+matchTokenAt_(\d+)\s*\("),
    "dotnet": ("dotnet/Gherkin/Parser.cs", r"^\s*(?:protected\s+|private\s+|public\s+)?(?:virtual\s+)?int\s+MatchTokenAt_(\d+)\s*\("),
    "php": ("php/src-generated/Parser.php", r"^\s*private\s+function\s+matchTokenAt_(\d+)\s*\("),
    "perl": ("perl/lib/Gherkin/Generated/Parser.pm", r"^sub\s+match_token_at_(\d+)\b"),
    "dart": ("dart/lib/src/parser/Parser.dart", r"^\s*int\s+matchTokenAt_(\d+)\s*\("),
    "cpp": ("cpp/include/gherkin/cucumber/gherkin/parser.hpp", r"^\s*std::size_t\s+match_token_at_(\d+)\s*\("),
    "objective-c": ("objective-c/Gherkin/GHParser.m", r"^-\s*\(int\)matchTokenAt_(\d+)\s*:"),
    "elixir": ("elixir/lib/gherkin/parser/parser.ex", r"^\s*defp?\s+match_token_at_(\d+)\b"),
}
QUICK = ["java", "go", "ruby", "c", "javascript"]

_RE_MATCH = re.compile(r"\b[mM]atch_?(%s)\b\s*[:(]" % _KIND_ALT)
_RE_LOOK = re.compile(r"\b[lL]ook[aA]head_?(\d+)\b")
_RE_START = re.compile(r"\b_?[sS]tart_?[rR]ule\b[^;\n]*?(?:RuleType(?:::|\.)?|Rule_|GHRuleType|:|')\s*_?([A-Za-z]+)'?\s*[\])]")
_RE_END = re.compile(r"\b_?[eE]nd_?[rR]ule\b")
_RE_END_NAMED = re.compile(r"\b_?[eE]nd_?[rR]ule\b[^;\n]*?(?:RuleType(?:::|\.)?|Rule_|GHRuleType|:|')\s*_?([A-Za-z]+)'?\s*[\])]")
_RE_BUILD = re.compile(r"\b_?[bB]uild\b\s*[:(]")
_RE_RETURN = re.compile(r"\breturn\s+(\d+)\b")
_RE_EXPECTED = re.compile(r"#(%s)\b" % _KIND_ALT)


class SibTable:
    def __init__(self, name: str, rel: str):
        self.name = name
        self.rel = rel
        self.states: dict[int, dict] = {}
        self.problem: str | None = None
        self.named_end = True

    def n_transitions(self) -> int:
        return sum(len(s["transitions"]) for s in self.states.values())


def extract(name: str) -> SibTable:
    rel, hdr = SIBLINGS[name]
    tab = SibTable(name, rel)
    p = repo_path(rel)
    if not os.path.exists(p):
        tab.problem = "file not found"
        return tab
    with open(p, encoding="utf-8", errors="replace") as f:
        lines = f.read().splitlines()
    hdr_re = re.compile(hdr)
    anydef = re.compile(r"^\s*(?:def |defp |func |sub |private |protected |public |static |-\s*\(|int |std::|bool |void )")
    cur = None
    tr = None
    unnamed_end = False
    for i, ln in enumerate(lines, 1):
        m = hdr_re.match(ln)
        if m:
            cur = {"n": int(m.group(1)), "transitions": [], "expected": None, "line": i, "tail_return": None}
            tab.states[cur["n"]] = cur
            tr = None
            continue
        if cur is None:
            continue
        if re.search(r"\b(function|def|defp|sub|func|int|bool|boolean|private|static|void)\b.*\blook_?ahead_?\d", ln, re.I) \
                and not ln.lstrip().startswith(("if", "return", "}")):
            cur = None
            continue
        stripped = ln.strip()
        if stripped.startswith(("//", "#", "/*", "*")) and "State:" in stripped:
            continue
        if "State:" in ln and ("state_comment" in ln or "stateComment" in ln):
            continue
        mm = _RE_MATCH.search(ln)
        if mm and re.search(r"\bif\b|\bcond\b|->|\?", ln) or (mm and stripped.startswith(("if", "elsif", "} else if"))):
            tr = {"token": mm.group(1), "lookahead": None, "productions": [], "target": None, "line": i}
            cur["transitions"].append(tr)
            ml = _RE_LOOK.search(ln)
            if ml:
                tr["lookahead"] = "lookahead_" + ml.group(1)
            continue
        ml = _RE_LOOK.search(ln)
        if ml and tr is not None and tr["target"] is None and not tr["productions"]:
            tr["lookahead"] = "lookahead_" + ml.group(1)
            continue
        ms = _RE_START.search(ln)
        if ms and tr is not None and tr["target"] is None:
            tr["productions"].append(("start", ms.group(1)))
            continue
        if _RE_END.search(ln) and tr is not None and tr["target"] is None:
            me = _RE_END_NAMED.search(ln)
            if me:
                tr["productions"].append(("end", me.group(1)))
            else:
                tr["productions"].append(("end", None))
                unnamed_end = True
            continue
        if _RE_BUILD.search(ln) and tr is not None and tr["target"] is None:
            tr["productions"].append(("build", "token"))
            continue
        mr = _RE_RETURN.search(ln)
        if mr:
            if tr is not None and tr["target"] is None:
                tr["target"] = int(mr.group(1))
            else:
                cur["tail_return"] = int(mr.group(1))
            continue
        if cur["expected"] is None and tr is not None and tr["target"] is not None:
            ex = _RE_EXPECTED.findall(ln)
            if ex and ("xpected" in ln):
                cur["expected"] = ["#" + e for e in ex]
    tab.named_end = not unnamed_end
    return tab


def compare(pt, tab: SibTable) -> list[dict]:
    """Differences between the python table and a sibling table."""
    diffs = []
    for n, st in sorted(pt.states.items()):
        sb = tab.states.get(n)
        if sb is None:
            diffs.append({"state": n, "what": "state missing in sibling"})
            continue
        pts = st.transitions
        sts = sb["transitions"]
        if len(pts) != len(sts):
            diffs.append({"state": n, "what": "transition count differs", "python": len(pts), "sibling": len(sts),
                          "line": st.fi.node.lineno})
            continue
        for i, (a, b) in enumerate(zip(pts, sts)):
            pa = [(p[0], p[1]) if p[0] != "build" else ("build", "token") for p in a.productions]
            pb = list(b["productions"])
            if not tab.named_end:
                pa = [(k, None) if k == "end" else (k, v) for k, v in pa]
            if (a.token, a.lookahead, pa, a.target) != (b["token"], b["lookahead"], pb, b["target"]):
                diffs.append({"state": n, "transition": i, "what": "transition differs", "line": a.line,
                              "python": repr(a), "sibling": f"{b['token']}{'&' + b['lookahead'] if b['lookahead'] else ''}:{pb}->{b['target']}",
                              "sibling_line": b["line"]})
        if sb["expected"] is not None and st.tail.expected_tokens is not None and sb["expected"] != st.tail.expected_tokens:
            diffs.append({"state": n, "what": "expected-token list differs", "python": st.tail.expected_tokens,
                          "sibling": sb["expected"], "line": st.tail.expected_line})
        if sb["tail_return"] is not None and st.tail.returns and st.tail.returns[-1] != sb["tail_return"]:
            diffs.append({"state": n, "what": "error-tail state differs", "python": st.tail.returns[-1],
                          "sibling": sb["tail_return"], "line": st.tail.line})
    for n in tab.states:
        if n not in pt.states:
            diffs.append({"state": n, "what": "state missing in python"})
    return diffs
