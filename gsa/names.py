"""Private names the rules need are *discovered by shape* (what the member does), not assumed:
renaming a private helper or attribute must not change a verdict.  A member that cannot be found is a
vanished anchor (AnalysisError)."""
from __future__ import annotations

import ast

from .common import AnalysisError
from .facts import facts

MQ = "gherkin.token_matcher.TokenMatcher"


def _walk(node):
    """ast.walk, with annotated assignments (``x: T = v``) presented as the plain assignments they are."""
    for n in ast.walk(node):
        if isinstance(n, ast.AnnAssign) and n.value is not None:
            a = ast.Assign(targets=[n.target], value=n.value)
            ast.copy_location(a, n)
            yield a
        else:
            yield n


class _Names:
    _cache: dict = {}

    def _get(self, key, fn):
        if key not in self._cache:
            self._cache[key] = fn()
        return self._cache[key]

    # the single matched-token sink: the TokenMatcher method that stores token.matched_type
    @property
    def SINK(self) -> str:
        def find():
            cls = facts().cls(MQ)
            for fi in cls.all_methods():
                for n in _walk(fi.node):
                    if isinstance(n, ast.Attribute) and isinstance(n.ctx, ast.Store) and n.attr == "matched_type" and isinstance(n.value, ast.Name) and n.value.id != "self":
                        return fi.name
            # the stores may live in a method of the token class the matcher's method hands everything to
            setters = {m.name for c in facts().all_classes() for m in c.all_methods()
                       if any(isinstance(n, ast.Attribute) and isinstance(n.ctx, ast.Store) and n.attr == "matched_type"
                              and isinstance(n.value, ast.Name) and n.value.id == "self" for n in _walk(m.node))}
            for fi in cls.all_methods():
                params = {a.arg for a in fi.node.args.posonlyargs + fi.node.args.args + fi.node.args.kwonlyargs} - {"self"}
                for n in _walk(fi.node):
                    if isinstance(n, ast.Call) and isinstance(n.func, ast.Attribute) and n.func.attr in setters \
                            and isinstance(n.func.value, ast.Name) and n.func.value.id in params:
                        return fi.name
            raise AnalysisError("anchor vanished: no TokenMatcher method stores token.matched_type (the matched-token sink)")
        return self._get("SINK", find)

    # the sink's parameters by what they become: {role: parameter name}, roles named after the sink's parameters at the pinned
    # commit (token, matched_type, text, keyword, keyword_type, indent, items); the token attributes are the anchors
    @property
    def SINK_PARAMS(self) -> dict:
        def find():
            fi = facts().cls(MQ).find_method(self.SINK)
            a = fi.node.args
            params = [p.arg for p in a.posonlyargs + a.args + a.kwonlyargs][1:]
            attr_role = {"matched_type": "matched_type", "matched_text": "text", "matched_keyword": "keyword", "matched_keyword_type": "keyword_type",
                         "matched_indent": "indent", "matched_items": "items"}
            roles = {}
            tok = None
            # by effect: the sink interpreted on symbolic arguments - which parameter each token attribute ends up holding
            from .absint import new_interp
            from . import nf
            I = new_interp()
            _tree, _rv, st = I.run(fi.qualname)
            for (base, attr), v in (st.ext if st is not None else {}).items():
                if base[0] == "param" and base[1] in params and attr in attr_role:
                    tok = tok or base[1]
            for (base, attr), v in (st.ext if st is not None else {}).items():
                if base == ("param", tok) and attr in attr_role:
                    used = [x[1] for x in nf.subterms(v) if x[0] == "param" and x[1] in params and x[1] != tok]
                    if used:
                        roles[attr_role[attr]] = used[0]
            if tok is None or set(roles) != set(attr_role.values()):
                raise AnalysisError(f"anchor vanished: parameters of the matched-token sink not identifiable by use: {roles}")
            roles["token"] = tok
            return roles
        return self._get("SINK_PARAMS", find)

    # the dialect switch: the method (not __init__/reset) that looks a dialect up by name (Dialect.for_name) and installs it
    def _dialect_switch(self):
        def find():
            cls = facts().cls(MQ)

            def scan(lookups):
                """first method that calls one of `lookups` and stores the result on self"""
                helpers = []
                for fi in cls.all_methods():
                    if fi.name in ("__init__", "reset"):
                        continue
                    looked = None
                    for n in _walk(fi.node):
                        if isinstance(n, ast.Assign) and len(n.targets) == 1 and isinstance(n.targets[0], ast.Name) and isinstance(n.value, ast.Call) \
                                and isinstance(n.value.func, ast.Attribute) and n.value.func.attr in lookups:
                            looked = n.targets[0].id
                    if looked is None:
                        # the look-up result may be stored at once: self.<dialect> = Dialect.for_name(...)
                        for n in _walk(fi.node):
                            if isinstance(n, ast.Call) and isinstance(n.func, ast.Attribute) and n.func.attr in lookups:
                                looked = ""
                        if looked is None:
                            continue
                    ps = fi.params()
                    dialect = dname = ktypes = None
                    for n in _walk(fi.node):
                        if isinstance(n, ast.Assign):
                            for t in n.targets:
                                if ps and isinstance(t, ast.Attribute) and isinstance(t.value, ast.Name) and t.value.id == ps[0]:
                                    v = n.value
                                    if isinstance(v, ast.Name) and v.id == looked:
                                        dialect = dialect or t.attr
                                    elif isinstance(v, ast.Call) and isinstance(v.func, ast.Attribute) and v.func.attr in lookups:
                                        dialect = dialect or t.attr
                                    elif isinstance(v, ast.Name) and len(ps) > 1 and v.id == ps[1]:
                                        dname = dname or t.attr
                                    elif isinstance(v, (ast.Call, ast.Dict, ast.DictComp)) and (not isinstance(v, ast.Call) or getattr(v.func, "id", getattr(v.func, "attr", "")) in ("defaultdict", "dict")):
                                        ktypes = ktypes or t.attr
                    if dialect is None and any(isinstance(n, ast.Return) and n.value is not None for n in _walk(fi.node)):
                        helpers.append(fi.name)     # looks the dialect up and hands it back: the switch is its caller
                        continue
                    return (fi.name, dialect or "dialect", dname or "dialect_name", ktypes or "keyword_types"), helpers
                return None, helpers

            got, helpers = scan({"for_name"})
            if got is None and helpers:
                got, _h = scan(set(helpers))
            if got is not None:
                return got
            # fall back to the method that assigns self.dialect
            for fi in cls.all_methods():
                if fi.name in ("__init__", "reset"):
                    continue
                for n in _walk(fi.node):
                    if isinstance(n, ast.Attribute) and isinstance(n.ctx, ast.Store) and n.attr == "dialect" and isinstance(n.value, ast.Name) and n.value.id == "self":
                        return (fi.name, "dialect", "dialect_name", "keyword_types")
            raise AnalysisError("anchor vanished: no TokenMatcher method looks up and installs a dialect (the dialect switch)")
        return self._get("DIALECT_SWITCH", find)

    CHANGE_DIALECT = property(lambda self: self._dialect_switch()[0])
    DIALECT = property(lambda self: self._dialect_switch()[1])
    DIALECT_NAME = property(lambda self: self._dialect_switch()[2])
    KEYWORD_TYPES = property(lambda self: self._dialect_switch()[3])

    def _docstring_attrs(self):
        def state_pair(cls):
            """(active, indent) attribute names by how the class writes them: one attribute is bound to None and to a computed
            value (the active delimiter), one to 0 and to a computed value (its indentation); or None."""
            writes: dict = {}
            per_fn: dict = {}
            others: dict = {}
            for fi in cls.all_methods():
                selfname = fi.params()[0] if fi.params() else None
                for n in _walk(fi.node):
                    tgts = []
                    if isinstance(n, ast.Assign):
                        tgts = [(t, n.value) for t in n.targets]
                    elif isinstance(n, ast.AnnAssign) and n.value is not None:
                        tgts = [(n.target, n.value)]
                    for t, v in tgts:
                        if isinstance(t, ast.Attribute) and isinstance(t.value, ast.Name) and t.value.id == selfname:
                            kind = "other"
                            if isinstance(v, ast.Constant) and v.value is None:
                                kind = "none"
                            elif isinstance(v, ast.Constant) and v.value == 0 and not isinstance(v.value, bool):
                                kind = "zero"
                            writes.setdefault(t.attr, set()).add(kind)
                            per_fn.setdefault(fi.name, set()).add(t.attr)
                            if kind == "other":
                                others.setdefault(t.attr, []).append(v)
            act = [a for a, ks in writes.items() if "none" in ks and "other" in ks and "zero" not in ks]
            ind = [a for a, ks in writes.items() if "zero" in ks and "other" in ks and "none" not in ks]
            if len(act) > 1 and not ind:
                # "no doc string" is None for both: the indentation is the one given a line's attribute (``token.line.indent``),
                # the delimiter the one given a name or a string
                from_line = [a for a in act if any(isinstance(v_, ast.Attribute) and isinstance(v_.value, ast.Attribute) and v_.value.attr == "line" for v_ in others.get(a, []))]
                named = [a for a in act if a not in from_line and any(isinstance(v_, (ast.Name, ast.Constant)) for v_ in others.get(a, []))]
                if len(from_line) == 1 and named:
                    ind, act = from_line, named
            if len(act) != 1:
                act = [a for a, ks in writes.items() if "none" in ks and "zero" not in ks] if not act else act
            if len(ind) != 1:
                ind = [a for a, ks in writes.items() if "zero" in ks and "none" not in ks] if not ind else ind
            if len(act) > 1 or len(ind) > 1:
                # the two fields are set together (open / close / reset): the pair written by the most functions in common
                best = None
                for a in act:
                    for i in ind:
                        k = sum(1 for ws in per_fn.values() if a in ws and i in ws)
                        if k and (best is None or k > best[0]):
                            best = (k, a, i)
                if best:
                    act, ind = [best[1]], [best[2]]
            if len(act) == 1 and len(ind) == 1:
                return act[0], ind[0]
            return None

        def holders(cls):
            """attributes of the matcher bound to a new object of a class of the repository: (attribute, class)"""
            out = []
            f = facts()
            for fi in cls.all_methods():
                selfname = fi.params()[0] if fi.params() else None
                for n in _walk(fi.node):
                    tgts = []
                    if isinstance(n, ast.Assign):
                        tgts = [(t, n.value) for t in n.targets]
                    elif isinstance(n, ast.AnnAssign) and n.value is not None:
                        tgts = [(n.target, n.value)]
                    for t, v in tgts:
                        if isinstance(t, ast.Attribute) and isinstance(t.value, ast.Name) and t.value.id == selfname \
                                and isinstance(v, ast.Call) and isinstance(v.func, ast.Name):
                            hc = f.resolve_class(fi.module, v.func.id)
                            if hc is not None and (t.attr, hc) not in out:
                                out.append((t.attr, hc))
            return out

        def find():
            cls = facts().cls(MQ)
            sink = self.SINK
            ds_match = None
            for fi in cls.all_methods():
                for n in _walk(fi.node):
                    if isinstance(n, ast.Call) and isinstance(n.func, ast.Attribute) and n.func.attr == sink and len(n.args) >= 2 \
                            and isinstance(n.args[1], ast.Constant) and n.args[1].value == "DocStringSeparator":
                        ds_match = ds_match or fi.name
            # the delimiter state, by how it is written anywhere in the class (directly or through helpers)
            pair = state_pair(cls)
            if pair is not None:
                return (ds_match or "_match_DocStringSeparator", pair[0], pair[1], None, None)
            # ... or kept in a helper object the matcher holds (its own small state class)
            found = []
            for attr, hc in holders(cls):
                hp = state_pair(hc)
                if hp is None and hc.is_namedtuple:
                    # an immutable record replaced as a whole: the field that defaults to None is the delimiter, the one that
                    # defaults to 0 its indentation
                    nones, zeros = [], []
                    for fld in hc.nt_fields():
                        ca = hc.find_class_attr(fld)
                        dv = ca[1] if ca is not None else None
                        if isinstance(dv, ast.Constant) and dv.value is None:
                            nones.append(fld)
                        elif isinstance(dv, ast.Constant) and dv.value == 0 and not isinstance(dv.value, bool):
                            zeros.append(fld)
                    if len(nones) == 1 and len(zeros) == 1:
                        hp = (nones[0], zeros[0])
                if hp is not None:
                    found.append((attr, hc, hp))
            if len(found) == 1:
                attr, hc, hp = found[0]
                return (ds_match or "_match_DocStringSeparator", hp[0], hp[1], attr, hc.qualname)
            raise AnalysisError("anchor vanished: doc string delimiter state of the token matcher not found")
        return self._get("DS", find)

    @property
    def DS_HOLDER(self):
        """Attribute of the matcher holding the object the doc string state lives in (None: the matcher itself)."""
        return self._docstring_attrs()[3]

    @property
    def DS_HOLDER_CLASS(self):
        return self._docstring_attrs()[4]

    def ds_base(self, selft):
        """The object carrying the doc string state, as a term over the matcher ``selft``."""
        h = self.DS_HOLDER
        return selft if h is None else ("attr", selft, h)

    @property
    def DS_MATCH(self) -> str:
        return self._docstring_attrs()[0]

    @property
    def DS_ACTIVE(self) -> str:
        return self._docstring_attrs()[1]

    @property
    def DS_INDENT(self) -> str:
        return self._docstring_attrs()[2]

    # attribute holding the default dialect name: the one reset() passes to the dialect switch / __init__ stores from its parameter
    @property
    def DEFAULT_DIALECT(self) -> str:
        def find():
            cls = facts().cls(MQ)
            init = cls.find_method("__init__")
            p = init.params()
            for n in _walk(init.node):
                if isinstance(n, ast.Assign) and isinstance(n.targets[0], ast.Attribute) and isinstance(n.value, ast.Name) and len(p) > 1 and n.value.id == p[1]:
                    return n.targets[0].attr
            raise AnalysisError("anchor vanished: TokenMatcher.__init__ does not store its default dialect name")
        return self._get("DEFAULT_DIALECT", find)

    # AstNode: the attribute initialised with defaultdict(list)
    @property
    def SUB_ITEMS(self) -> str:
        def find():
            cls = facts().cls("gherkin.ast_node.AstNode")
            init = cls.find_method("__init__")
            if init is None:
                # a dataclass: the field whose default factory makes the dictionary (defaultdict / dict, a lambda or a
                # function of the module returning one)
                def makes_dict(e, depth=0):
                    if isinstance(e, ast.Lambda):
                        return makes_dict(e.body, depth)
                    if isinstance(e, ast.Name) and e.id in ("dict", "defaultdict"):
                        return True
                    if isinstance(e, ast.Call) and getattr(e.func, "id", getattr(e.func, "attr", "")) in ("defaultdict", "dict"):
                        return True
                    if isinstance(e, ast.Dict) and not e.keys:
                        return True
                    if isinstance(e, ast.Name) and depth < 2:
                        r = facts().resolve_name(cls.module, e.id)
                        if r is not None and r[0] == "func":
                            return any(isinstance(x, ast.Return) and x.value is not None and makes_dict(x.value, depth + 1) for x in ast.walk(r[1].node))
                    return False
                for st_ in cls.node.body:
                    if isinstance(st_, ast.AnnAssign) and isinstance(st_.target, ast.Name) and isinstance(st_.value, ast.Call) \
                            and getattr(st_.value.func, "id", getattr(st_.value.func, "attr", "")) == "field":
                        for k in st_.value.keywords:
                            if k.arg == "default_factory" and makes_dict(k.value):
                                return st_.target.id
                raise AnalysisError("anchor vanished: AstNode child store (a dictionary of lists the node creates for itself) not found")
            for n in _walk(init.node):
                tgt = val = None
                if isinstance(n, ast.Assign):
                    tgt, val = n.targets[0], n.value
                elif isinstance(n, ast.AnnAssign):
                    tgt, val = n.target, n.value
                if isinstance(tgt, ast.Attribute) and isinstance(val, ast.Call) and getattr(val.func, "id", getattr(val.func, "attr", "")) in ("defaultdict", "dict"):
                    return tgt.attr
                if isinstance(tgt, ast.Attribute) and isinstance(val, ast.Dict) and not val.keys:
                    return tgt.attr
            raise AnalysisError("anchor vanished: AstNode child store (a dictionary of lists the node creates for itself) not found")
        return self._get("SUB_ITEMS", find)

    def _line_attrs(self):
        def find():
            cls = facts().cls("gherkin.gherkin_line.GherkinLine")
            init = cls.find_method("__init__")
            p = init.params()
            raw = trimmed = lineno = None
            for n in _walk(init.node):
                if isinstance(n, ast.Assign) and isinstance(n.targets[0], ast.Attribute):
                    a = n.targets[0].attr
                    v = n.value
                    if isinstance(v, ast.Name) and len(p) > 1 and v.id == p[1]:
                        raw = a
                    elif isinstance(v, ast.Name) and len(p) > 2 and v.id == p[2]:
                        lineno = a
                    elif isinstance(v, ast.Call) and isinstance(v.func, ast.Attribute) and v.func.attr == "lstrip" and isinstance(v.func.value, ast.Name) \
                            and v.func.value.id == p[1]:
                        trimmed = a
            if trimmed is None:
                # by use: the attribute the prefix test reads (what it holds is then checked by the line rules, not assumed)
                sw = cls.find_method(self.line_helper("prefix") or "startswith")
                for n in _walk(sw.node) if sw is not None else []:
                    if isinstance(n, ast.Call) and isinstance(n.func, ast.Attribute) and n.func.attr == "startswith" \
                            and isinstance(n.func.value, ast.Attribute) and isinstance(n.func.value.value, ast.Name) and n.func.value.value.id == sw.params()[0]:
                        trimmed = n.func.value.attr
            if lineno is None:
                # by use: the attribute reported as the 'line' of a location built by this class
                for mfi in cls.all_methods():
                    for n in _walk(mfi.node):
                        if isinstance(n, ast.Dict):
                            for k, v in zip(n.keys, n.values):
                                if isinstance(k, ast.Constant) and k.value == "line" and isinstance(v, ast.Attribute) and isinstance(v.value, ast.Name) \
                                        and v.value.id == mfi.params()[0]:
                                    lineno = v.attr
            if raw is None:
                # the attribute the trimmed text is computed from (``self.<trimmed> = self.<raw>.lstrip()``), else the one bound to
                # an expression of the text parameter that does not trim on the left (what it holds is the line rules' business)
                for n in _walk(init.node):
                    if isinstance(n, ast.Assign) and isinstance(n.targets[0], ast.Attribute):
                        v = n.value
                        if isinstance(v, ast.Call) and isinstance(v.func, ast.Attribute) and v.func.attr == "lstrip" and isinstance(v.func.value, ast.Attribute) \
                                and isinstance(v.func.value.value, ast.Name) and v.func.value.value.id == p[0]:
                            raw = raw or v.func.value.attr
                            trimmed = trimmed or n.targets[0].attr
                for n in _walk(init.node):
                    if raw is None and isinstance(n, ast.Assign) and isinstance(n.targets[0], ast.Attribute) and len(p) > 1 \
                            and any(isinstance(x, ast.Name) and x.id == p[1] for x in ast.walk(n.value)) \
                            and not any(isinstance(x, ast.Attribute) and x.attr in ("lstrip", "strip") for x in ast.walk(n.value)) \
                            and not any(isinstance(x, ast.Call) and getattr(x.func, "id", "") == "len" for x in ast.walk(n.value)):
                        raw = n.targets[0].attr
            if raw is None:
                # by use: the attribute the comment matcher takes as the whole line (what it holds is checked by the line rules)
                for mfi, member, call in self._line_uses():
                    if call is None and mfi.name == "match_Comment" and member not in cls.methods and member != "indent":
                        raw = member
            if None in (raw, trimmed, lineno):
                raise AnalysisError("anchor vanished: GherkinLine.__init__ no longer stores raw text / left-trimmed text / line number")
            return raw, trimmed, lineno
        return self._get("LINE", find)

    @property
    def RAW(self) -> str:
        return self._line_attrs()[0]

    @property
    def TRIMMED(self) -> str:
        return self._line_attrs()[1]

    @property
    def LINENO(self) -> str:
        return self._line_attrs()[2]

    @property
    def ID_COUNTER(self) -> str:
        def find():
            cls = facts().cls("gherkin.stream.id_generator.IdGenerator")
            init = cls.find_method("__init__")
            # the attribute the constructor binds and another method advances (+= / = ... + ...); the value it starts from is
            # the rules' business (C11.gen)
            bound = []
            for n in _walk(init.node) if init else []:
                if isinstance(n, ast.Assign) and isinstance(n.targets[0], ast.Attribute) and n.targets[0].attr not in bound:
                    bound.append(n.targets[0].attr)
            advanced = []
            for fi in cls.all_methods():
                if fi.name == "__init__":
                    continue
                for n in _walk(fi.node):
                    if isinstance(n, ast.AugAssign) and isinstance(n.target, ast.Attribute):
                        advanced.append(n.target.attr)
                    elif isinstance(n, ast.Assign) and isinstance(n.targets[0], ast.Attribute) and isinstance(n.value, ast.BinOp):
                        advanced.append(n.targets[0].attr)
            both = [a for a in bound if a in advanced]
            if len(both) == 1:
                return both[0]
            if len(set(advanced)) == 1:
                return advanced[0]          # bound through a helper the constructor calls
            if len(bound) == 1:
                return bound[0]
            raise AnalysisError("anchor vanished: IdGenerator.__init__ does not initialise a counter")
        return self._get("ID_COUNTER", find)

    @property
    def FMT_TOKENS(self) -> str:
        def find():
            cls = facts().cls("gherkin.token_formatter_builder.TokenFormatterBuilder")
            b = cls.find_method("build")
            for n in _walk(b.node) if b else []:
                if isinstance(n, ast.Call) and isinstance(n.func, ast.Attribute) and n.func.attr == "append" and isinstance(n.func.value, ast.Attribute):
                    return n.func.value.attr
            return "_tokens"
        return self._get("FMT_TOKENS", find)


    # ---- AstBuilder -------------------------------------------------------------------------------
    BQ = "gherkin.ast_builder.AstBuilder"

    @property
    def TRANSFORM(self) -> str:
        """The per-rule transformation: the AstBuilder method end_rule applies to the node it pops (found by use; when that
        fails, the method that tests the node's rule type against the most grammar rule names)."""
        def find():
            cls = facts().cls(self.BQ)
            er = cls.find_method("end_rule")
            own = {m.name for c in cls.mro() for m in c.methods.values()}
            if er is not None:
                for n in _walk(er.node):
                    # self.<current>.add(<type>, self.<transform>(node))
                    if isinstance(n, ast.Call) and len(n.args) == 2 and isinstance(n.args[1], ast.Call) and isinstance(n.args[1].func, ast.Attribute) \
                            and isinstance(n.args[1].func.value, ast.Name) and n.args[1].func.value.id == er.params()[0] and n.args[1].func.attr in own:
                        return n.args[1].func.attr
            best = None
            for fi in cls.all_methods():
                k = sum(1 for n in _walk(fi.node) if isinstance(n, ast.Compare) and any(isinstance(c, ast.Constant) and isinstance(c.value, str) and c.value[:1].isupper()
                                                                                            for c in n.comparators))
                if k >= 5 and (best is None or k > best[0]):
                    best = (k, fi.name)
            if best:
                return best[1]
            raise AnalysisError("anchor vanished: AstBuilder has no per-rule transformation applied by end_rule")
        return self._get("TRANSFORM", find)

    @property
    def STACK(self) -> str:
        """The open-node stack: the attribute reset() binds to a list holding the root AstNode."""
        def find():
            cls = facts().cls(self.BQ)
            r = cls.find_method("reset")
            for n in _walk(r.node) if r else []:
                if isinstance(n, ast.Assign) and isinstance(n.targets[0], ast.Attribute) and isinstance(n.value, ast.List) and n.value.elts \
                        and isinstance(n.value.elts[0], ast.Call):
                    return n.targets[0].attr
            # by use: the attribute start_rule appends to
            sr = cls.find_method("start_rule")
            for n in _walk(sr.node) if sr else []:
                if isinstance(n, ast.Call) and isinstance(n.func, ast.Attribute) and n.func.attr == "append" and isinstance(n.func.value, ast.Attribute):
                    return n.func.value.attr
            raise AnalysisError("anchor vanished: AstBuilder keeps no stack of open nodes")
        return self._get("STACK", find)

    @property
    def COMMENTS(self) -> str:
        """The collected comments: the attribute build() appends a dictionary to."""
        def find():
            cls = facts().cls(self.BQ)
            b = cls.find_method("build")
            for n in _walk(b.node) if b else []:
                if isinstance(n, ast.Call) and isinstance(n.func, ast.Attribute) and n.func.attr == "append" and isinstance(n.func.value, ast.Attribute) \
                        and isinstance(n.func.value.value, ast.Name) and n.func.value.value.id == b.params()[0]:
                    return n.func.value.attr
            r = cls.find_method("reset")
            for n in _walk(r.node) if r else []:
                if isinstance(n, ast.Assign) and isinstance(n.targets[0], ast.Attribute) and isinstance(n.value, ast.List) and not n.value.elts:
                    return n.targets[0].attr
            raise AnalysisError("anchor vanished: AstBuilder collects no comments")
        return self._get("COMMENTS", find)


    # ---- GherkinLine helpers, found by how the token matcher uses them --------------------------------------
    LQ = "gherkin.gherkin_line.GherkinLine"

    def _line_uses(self):
        """Calls / attribute reads on ``<token>.line`` in the base token matcher: [(matcher method, member, call node or None)]."""
        def find():
            cls = facts().cls(MQ)
            members = {m for c in facts().cls(self.LQ).mro() for m in c.methods}
            out = []
            for fi in cls.all_methods():
                aliases = set()
                for n in _walk(fi.node):
                    if isinstance(n, ast.Assign) and len(n.targets) == 1 and isinstance(n.targets[0], ast.Name) and isinstance(n.value, ast.Attribute) \
                            and n.value.attr == "line":
                        aliases.add(n.targets[0].id)
                on_line = lambda e: (isinstance(e, ast.Attribute) and e.attr == "line") or (isinstance(e, ast.Name) and e.id in aliases)
                calls = set()
                for n in _walk(fi.node):
                    if isinstance(n, ast.Call) and isinstance(n.func, ast.Attribute) and on_line(n.func.value):
                        out.append((fi, n.func.attr, n))
                        calls.add(id(n.func))
                for n in _walk(fi.node):
                    if isinstance(n, ast.Attribute) and id(n) not in calls and on_line(n.value) and isinstance(n.ctx, ast.Load):
                        out.append((fi, n.attr, None))
            return out
        return self._get("LINE_USES", find)

    def line_helper(self, role: str):
        """Name of the GherkinLine member playing ``role`` for the token matcher, or None when the matcher does without it:
        empty / rest / text / prefix / title_prefix (methods), indent / cells / tags (attributes or properties)."""
        def find():
            sink = self.SINK
            uses = self._line_uses()
            r = {}

            def str_const(e, fi):
                """a string literal, or a name bound at module / class level to one (a named constant)"""
                if isinstance(e, ast.Constant):
                    return isinstance(e.value, str)
                if isinstance(e, ast.Name):
                    res = facts().resolve_name(fi.module, e.id)
                    if res and res[0] == "global":
                        v = res[1].globals.get(res[2])
                        return isinstance(v, ast.Constant) and isinstance(v.value, str)
                if isinstance(e, ast.Attribute) and isinstance(e.value, ast.Name) and e.value.id in ("self", "cls") and fi.cls is not None:
                    ca = fi.cls.find_class_attr(e.attr)
                    return ca is not None and isinstance(ca[1], ast.Constant) and isinstance(ca[1].value, str)
                return False
            for fi, member, call in uses:
                if call is not None:
                    a = call.args
                    if fi.name == "match_Empty" and not a and not call.keywords:
                        r.setdefault("empty", member)
                    if len(a) == 1 and any(isinstance(x, ast.Call) and isinstance(x.func, ast.Name) and x.func.id == "len" for x in _walk(a[0])):
                        r.setdefault("rest", member)
                    if fi.name == "match_Other" or (len(a) == 1 and isinstance(a[0], ast.Attribute) and a[0].attr == self.DS_INDENT):
                        r.setdefault("text", member)
                    if len(a) == 1 and str_const(a[0], fi) and fi.name in ("match_TagLine", "match_TableRow", "match_Comment"):
                        r.setdefault("prefix", member)
                else:
                    if fi.name == sink:
                        r.setdefault("indent", member)
            for fi, member, call in uses:
                if call is not None and len(call.args) == 1 and isinstance(call.args[0], ast.Name) and not str_const(call.args[0], fi) \
                        and member not in (r.get("prefix"), r.get("rest"), r.get("text")) and fi.name not in ("match_StepLine",):
                    r.setdefault("title_prefix", member)
            # items= of the matched-token sink per kind
            cls = facts().cls(MQ)
            for fi in cls.all_methods():
                for n in _walk(fi.node):
                    if isinstance(n, ast.Call) and isinstance(n.func, ast.Attribute) and n.func.attr == sink and len(n.args) >= 2 and isinstance(n.args[1], ast.Constant):
                        for k in n.keywords:
                            if k.arg == "items" and isinstance(k.value, ast.Attribute):
                                if n.args[1].value == "TableRow":
                                    r.setdefault("cells", k.value.attr)
                                elif n.args[1].value == "TagLine":
                                    r.setdefault("tags", k.value.attr)
            return r
        return self._get("LINE_HELPERS", find).get(role)

    @property
    def INDENT(self) -> str:
        return self.line_helper("indent") or "indent"

    @property
    def SPLITTER_Q(self) -> str:
        """Qualified name of the cell splitter: the generator function that cuts a table row into cells - a method of
        GherkinLine, a function bound on the class with staticmethod(...), or a module function the cells property calls."""
        def find():
            from .astutil import walk_no_nested_defs
            f = facts()
            cls = f.cls(self.LQ)
            is_gen = lambda fi: any(isinstance(x, (ast.Yield, ast.YieldFrom)) for x in walk_no_nested_defs(fi.node))
            gens = [fi.qualname for fi in cls.all_methods() if is_gen(fi)]
            for c in cls.mro():
                for nm, v in c.class_attrs.items():
                    if isinstance(v, ast.Call) and isinstance(v.func, ast.Name) and v.func.id == "staticmethod" and len(v.args) == 1 and isinstance(v.args[0], ast.Name):
                        r = f.resolve_name(c.module, v.args[0].id)
                        if r is not None and r[0] == "func" and is_gen(r[1]):
                            gens.append(r[1].qualname)
            if not gens:
                tc = cls.find_method(self.TABLE_CELLS)
                for n in _walk(tc.node) if tc is not None else []:
                    if isinstance(n, ast.Call) and isinstance(n.func, ast.Name):
                        r = f.resolve_name(cls.module, n.func.id)
                        if r is not None and r[0] == "func" and is_gen(r[1]):
                            gens.append(r[1].qualname)
            gens = sorted(set(gens))
            if len(gens) > 1:
                # several generators: the splitter is the one the cells property uses
                tc = cls.find_method(self.TABLE_CELLS)
                used = {n.attr for n in _walk(tc.node) if isinstance(n, ast.Attribute)} | {n.id for n in _walk(tc.node) if isinstance(n, ast.Name)} if tc else set()
                pick = [g for g in gens if g.rsplit(".", 1)[1] in used]
                if len(pick) == 1:
                    return pick[0]
            if len(gens) == 1:
                return gens[0]
            raise AnalysisError("anchor vanished: no single generator function splitting a table row into cells")
        return self._get("SPLITTER_Q", find)

    @property
    def TABLE_CELLS(self) -> str:
        return self.line_helper("cells") or "table_cells"

    @property
    def TAGS(self) -> str:
        return self.line_helper("tags") or "tags"


    # ---- the hand-written frame of the parser (found by what the members do; the generated state methods keep their names) ----
    PQ = "gherkin.parser.Parser"

    def _parser_roles(self):
        def find():
            cls = facts().cls(self.PQ)
            r = {}
            for fi in cls.all_methods():
                if fi.name.startswith("match_token_at_") or fi.name in ("parse", "__init__"):
                    continue
                calls = [n for n in _walk(fi.node) if isinstance(n, ast.Call) and isinstance(n.func, ast.Attribute)]
                raises = [n for n in _walk(fi.node) if isinstance(n, ast.Raise) and n.exc is not None]
                names = {n.id for n in _walk(fi.node) if isinstance(n, ast.Name)} | {n.attr for n in _walk(fi.node) if isinstance(n, ast.Attribute)}
                # reads one token: asks the scanner (``<context>.<scanner>.read()``)
                for c in calls:
                    if c.func.attr == "read" and isinstance(c.func.value, ast.Attribute) and not c.args and not fi.name.startswith(("lookahead_", "match_")):
                        r.setdefault("read_token", fi.name)
                        r.setdefault("ctx_scanner", c.func.value.attr)
                    if c.func.attr == "popleft" and isinstance(c.func.value, ast.Attribute) and not fi.name.startswith(("lookahead_", "match_")):
                        r.setdefault("ctx_queue", c.func.value.attr)
                # collects an error: raises the composite once the list is long enough
                if any("CompositeParserException" in ast.unparse(x.exc) for x in raises) and not any(isinstance(n, ast.Try) for n in _walk(fi.node)):
                    r.setdefault("add_error", fi.name)
                    for c in calls:
                        if c.func.attr == "append" and isinstance(c.func.value, ast.Attribute):
                            r.setdefault("ctx_errors", c.func.value.attr)
                # runs an action under the error policy: a try block whose handlers name the composite error
                for n in _walk(fi.node):
                    if isinstance(n, ast.Try) and any(h.type is not None and "CompositeParserException" in ast.unparse(h.type) for h in n.handlers):
                        r.setdefault("handle_external_error", fi.name)
                # dispatches on the state number (state, token, context)
                if any(nm.startswith("match_token_at_") for nm in names) and len(fi.params()) >= 4:
                    r.setdefault("match_token_by_shape", fi.name)
            for fi in cls.all_methods():
                if fi.name in r.values() or fi.name.startswith(("match_", "lookahead_")) or fi.name in ("parse", "__init__"):
                    continue
                for n in _walk(fi.node):
                    if isinstance(n, ast.Call) and isinstance(n.func, ast.Attribute) and n.func.attr == r.get("handle_external_error") \
                            and isinstance(n.func.value, ast.Name) and fi.params() and n.func.value.id == fi.params()[0]:
                        r.setdefault("handle_ast_error", fi.name)
            # the transition step, by use: ``state = self.<step>(state, token, context)`` in parse()
            p0 = cls.find_method("parse")
            for n in _walk(p0.node) if p0 else []:
                if isinstance(n, ast.Assign) and len(n.targets) == 1 and isinstance(n.targets[0], ast.Name) and isinstance(n.value, ast.Call) \
                        and isinstance(n.value.func, ast.Attribute) and isinstance(n.value.func.value, ast.Name) and n.value.func.value.id == p0.params()[0] \
                        and n.value.args and isinstance(n.value.args[0], ast.Name) and n.value.args[0].id == n.targets[0].id:
                    r.setdefault("match_token", n.value.func.attr)
            if "match_token" not in r and "match_token_by_shape" in r:
                r["match_token"] = r["match_token_by_shape"]
            # the matcher of the context: the attribute whose match_<Kind> methods the parser's match_<Kind> wrappers pass on
            for fi in cls.all_methods():
                if fi.name.startswith("match_") and not fi.name.startswith("match_token"):
                    for n in _walk(fi.node):
                        if isinstance(n, ast.Attribute) and n.attr == fi.name and isinstance(n.value, ast.Attribute):
                            r.setdefault("ctx_matcher", n.value.attr)
            # when the error list is kept by a helper outside the class, it is still the list ``parse`` tests / raises from
            if "ctx_errors" not in r:
                p = cls.find_method("parse")
                for n in _walk(p.node) if p else []:
                    if isinstance(n, ast.Call) and "CompositeParserException" in ast.unparse(n.func) and n.args and isinstance(n.args[0], ast.Attribute):
                        r.setdefault("ctx_errors", n.args[0].attr)
            return r
        return self._get("PARSER_ROLES", find)

    def _role(self, key, default):
        return self._parser_roles().get(key) or default

    READ_TOKEN = property(lambda self: self._role("read_token", "read_token"))
    MATCH_TOKEN = property(lambda self: self._role("match_token", "match_token"))
    ADD_ERROR = property(lambda self: self._role("add_error", "add_error"))
    HANDLE_EXTERNAL = property(lambda self: self._role("handle_external_error", "handle_external_error"))
    HANDLE_AST = property(lambda self: self._role("handle_ast_error", "handle_ast_error"))
    CTX_QUEUE = property(lambda self: self._role("ctx_queue", "token_queue"))
    CTX_ERRORS = property(lambda self: self._role("ctx_errors", "errors"))
    CTX_SCANNER = property(lambda self: self._role("ctx_scanner", "token_scanner"))
    CTX_MATCHER = property(lambda self: self._role("ctx_matcher", "token_matcher"))


    # ---- attributes that hold collaborators (found by the calls made through them) -----------------------------
    def _held(self, cls_q, method, called, default):
        """The attribute X of ``cls_q`` such that ``self.X.<called>(...)`` occurs in ``method`` (any method when None)."""
        def find():
            try:
                cls = facts().cls(cls_q)
            except AnalysisError:
                return default
            ms = [cls.find_method(method)] if method else cls.all_methods()
            for fi in ms:
                if fi is None or not fi.params():
                    continue
                for n in _walk(fi.node):
                    if isinstance(n, ast.Attribute) and n.attr == called and isinstance(n.value, ast.Attribute) and isinstance(n.value.value, ast.Name) \
                            and n.value.value.id == fi.params()[0]:
                        return n.value.attr
            return default
        return self._get(("HELD", cls_q, method, called), find)

    PARSER_BUILDER = property(lambda self: self._held("gherkin.parser.Parser", None, "reset", "ast_builder"))
    GE_PARSER = property(lambda self: self._held("gherkin.stream.gherkin_events.GherkinEvents", "enum", "parse", "parser"))
    GE_COMPILER = property(lambda self: self._held("gherkin.stream.gherkin_events.GherkinEvents", "enum", "compile", "compiler"))

    @property
    def GE_OPTIONS(self) -> str:
        """The attribute GherkinEvents.__init__ stores its options parameter in."""
        def find():
            try:
                cls = facts().cls("gherkin.stream.gherkin_events.GherkinEvents")
            except AnalysisError:
                return "options"
            init = cls.find_method("__init__")
            ps = init.params() if init else []
            for n in _walk(init.node) if init else []:
                if isinstance(n, ast.Assign) and isinstance(n.targets[0], ast.Attribute) and isinstance(n.value, ast.Name) and len(ps) > 1 and n.value.id == ps[1]:
                    return n.targets[0].attr
            return "options"
        return self._get("GE_OPTIONS", find)


    # ---- the scanner's state -----------------------------------------------------------------------
    def _scanner_attrs(self):
        def find():
            try:
                cls = facts().cls("gherkin.token_scanner.TokenScanner")
            except AnalysisError:
                return ("io", "line_number")
            io_attr = ln_attr = None
            rd = cls.find_method("read")
            for n in _walk(rd.node) if rd else []:
                # the handle: what read() calls readline() on; the counter: what read() advances
                if isinstance(n, ast.Call) and isinstance(n.func, ast.Attribute) and n.func.attr in ("readline", "read", "readlines", "__next__") \
                        and isinstance(n.func.value, ast.Attribute) and isinstance(n.func.value.value, ast.Name) and n.func.value.value.id == rd.params()[0]:
                    io_attr = io_attr or n.func.value.attr
                if isinstance(n, ast.AugAssign) and isinstance(n.target, ast.Attribute) and isinstance(n.target.value, ast.Name) and n.target.value.id == rd.params()[0]:
                    ln_attr = ln_attr or n.target.attr
                if isinstance(n, ast.Assign) and isinstance(n.targets[0], ast.Attribute) and isinstance(n.value, ast.BinOp) and isinstance(n.value.op, ast.Add) \
                        and isinstance(n.value.left, ast.Attribute) and n.value.left.attr == n.targets[0].attr:
                    ln_attr = ln_attr or n.targets[0].attr
            init = cls.find_method("__init__")
            for n in _walk(init.node) if init else []:
                if isinstance(n, ast.Assign) and isinstance(n.targets[0], ast.Attribute):
                    v = n.value
                    if io_attr is None and isinstance(v, ast.Call) and getattr(v.func, "attr", getattr(v.func, "id", "")) in ("open", "StringIO"):
                        io_attr = n.targets[0].attr
                    if ln_attr is None and isinstance(v, ast.Constant) and v.value == 0 and not isinstance(v.value, bool):
                        ln_attr = n.targets[0].attr
            return (io_attr or "io", ln_attr or "line_number")
        return self._get("SCANNER_ATTRS", find)

    SCANNER_IO = property(lambda self: self._scanner_attrs()[0])
    SCANNER_LINENO = property(lambda self: self._scanner_attrs()[1])


    def idgen_attr(self, cls_q: str) -> str:
        """The attribute of a component through which it draws ids (``self.<attr>.get_next_id()``)."""
        return self._held(cls_q, None, "get_next_id", "id_generator")

    @property
    def DIALECT_SPEC(self) -> str:
        """The attribute a Dialect keeps its table entry in (what __init__ stores its argument in)."""
        def find():
            try:
                cls = facts().cls("gherkin.dialect.Dialect")
            except AnalysisError:
                return "spec"
            init = cls.find_method("__init__")
            ps = init.params() if init else []
            for n in _walk(init.node) if init else []:
                if isinstance(n, ast.Assign) and isinstance(n.targets[0], ast.Attribute) and isinstance(n.value, ast.Name) and len(ps) > 1 and n.value.id == ps[1]:
                    return n.targets[0].attr
            return "spec"
        return self._get("DIALECT_SPEC", find)


N = _Names()
