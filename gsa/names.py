"""Private names the rules need are *discovered by shape* (what the member does), not assumed:
renaming a private helper or attribute must not change a verdict.  A member that cannot be found is a
vanished anchor (AnalysisError)."""
from __future__ import annotations

import ast

from .common import AnalysisError
from .facts import facts

MQ = "gherkin.token_matcher.TokenMatcher"


class _Names:
    _cache: dict = {}

    def _get(self, key, fn):
        if key not in self._cache:
            self._cache[key] = fn()
        return self._cache[key]

    # the single matched-token sink: the TokenMatcher method that stores token.matched_type
    @property
    def SINK(self) -> str:
        def find():
            cls = facts().cls(MQ)
            for fi in cls.methods.values():
                for n in ast.walk(fi.node):
                    if isinstance(n, ast.Attribute) and isinstance(n.ctx, ast.Store) and n.attr == "matched_type" and isinstance(n.value, ast.Name) and n.value.id != "self":
                        return fi.name
            raise AnalysisError("anchor vanished: no TokenMatcher method stores token.matched_type (the matched-token sink)")
        return self._get("SINK", find)

    # the dialect switch: the method (not __init__/reset) that assigns self.dialect
    @property
    def CHANGE_DIALECT(self) -> str:
        def find():
            cls = facts().cls(MQ)
            for fi in cls.methods.values():
                if fi.name in ("__init__", "reset"):
                    continue
                for n in ast.walk(fi.node):
                    if isinstance(n, ast.Attribute) and isinstance(n.ctx, ast.Store) and n.attr == "dialect" and isinstance(n.value, ast.Name) and n.value.id == "self":
                        return fi.name
            raise AnalysisError("anchor vanished: no TokenMatcher method assigns self.dialect (the dialect switch)")
        return self._get("CHANGE_DIALECT", find)

    def _docstring_attrs(self):
        def find():
            cls = facts().cls(MQ)
            sink = self.SINK
            for fi in cls.methods.values():
                sinks_ds = False
                for n in ast.walk(fi.node):
                    if isinstance(n, ast.Call) and isinstance(n.func, ast.Attribute) and n.func.attr == sink and len(n.args) >= 2 \
                            and isinstance(n.args[1], ast.Constant) and n.args[1].value == "DocStringSeparator":
                        sinks_ds = True
                if not sinks_ds:
                    continue
                none_attrs, zero_attrs = [], []
                for n in ast.walk(fi.node):
                    if isinstance(n, ast.Assign) and len(n.targets) == 1 and isinstance(n.targets[0], ast.Attribute) and isinstance(n.targets[0].value, ast.Name) \
                            and n.targets[0].value.id == "self" and isinstance(n.value, ast.Constant):
                        if n.value.value is None:
                            none_attrs.append(n.targets[0].attr)
                        elif n.value.value == 0 and not isinstance(n.value.value, bool):
                            zero_attrs.append(n.targets[0].attr)
                if len(set(none_attrs)) == 1:
                    active = none_attrs[0]
                    indent = zero_attrs[0] if len(set(zero_attrs)) == 1 else None
                    if indent is None:
                        # the clearing write may have been removed: fall back to the attribute reset() sets to 0
                        r = cls.find_method("reset")
                        for n in ast.walk(r.node) if r else []:
                            if isinstance(n, ast.Assign) and isinstance(n.targets[0], ast.Attribute) and isinstance(n.value, ast.Constant) and n.value.value == 0 \
                                    and not isinstance(n.value.value, bool):
                                indent = n.targets[0].attr
                    return (fi.name, active, indent or "_indent_to_remove")
            # fall back to reset(): attribute set to None / 0
            r = cls.find_method("reset")
            act = ind = None
            for n in ast.walk(r.node) if r else []:
                if isinstance(n, ast.Assign) and isinstance(n.targets[0], ast.Attribute) and isinstance(n.value, ast.Constant):
                    if n.value.value is None:
                        act = n.targets[0].attr
                    elif n.value.value == 0 and not isinstance(n.value.value, bool):
                        ind = n.targets[0].attr
            if act and ind:
                return ("_match_DocStringSeparator", act, ind)
            raise AnalysisError("anchor vanished: doc string delimiter state of the token matcher not found")
        return self._get("DS", find)

    @property
    def DS_MATCH(self) -> str:
        return self._docstring_attrs()[0]

    @property
    def DS_ACTIVE(self) -> str:
        return self._docstring_attrs()[1]

    @property
    def DS_INDENT(self) -> str:
        return self._docstring_attrs()[2]

    # attribute holding the default dialect name: the one reset() passes to the dialect switch / __init__ stores from its parameter
    @property
    def DEFAULT_DIALECT(self) -> str:
        def find():
            cls = facts().cls(MQ)
            init = cls.find_method("__init__")
            p = init.params()
            for n in ast.walk(init.node):
                if isinstance(n, ast.Assign) and isinstance(n.targets[0], ast.Attribute) and isinstance(n.value, ast.Name) and len(p) > 1 and n.value.id == p[1]:
                    return n.targets[0].attr
            raise AnalysisError("anchor vanished: TokenMatcher.__init__ does not store its default dialect name")
        return self._get("DEFAULT_DIALECT", find)

    # AstNode: the attribute initialised with defaultdict(list)
    @property
    def SUB_ITEMS(self) -> str:
        def find():
            cls = facts().cls("gherkin.ast_node.AstNode")
            init = cls.find_method("__init__")
            for n in ast.walk(init.node):
                tgt = val = None
                if isinstance(n, ast.Assign):
                    tgt, val = n.targets[0], n.value
                elif isinstance(n, ast.AnnAssign):
                    tgt, val = n.target, n.value
                if isinstance(tgt, ast.Attribute) and isinstance(val, ast.Call) and getattr(val.func, "id", getattr(val.func, "attr", "")) == "defaultdict":
                    return tgt.attr
            raise AnalysisError("anchor vanished: AstNode child store (defaultdict(list)) not found")
        return self._get("SUB_ITEMS", find)

    def _line_attrs(self):
        def find():
            cls = facts().cls("gherkin.gherkin_line.GherkinLine")
            init = cls.find_method("__init__")
            p = init.params()
            raw = trimmed = lineno = None
            for n in ast.walk(init.node):
                if isinstance(n, ast.Assign) and isinstance(n.targets[0], ast.Attribute):
                    a = n.targets[0].attr
                    v = n.value
                    if isinstance(v, ast.Name) and len(p) > 1 and v.id == p[1]:
                        raw = a
                    elif isinstance(v, ast.Name) and len(p) > 2 and v.id == p[2]:
                        lineno = a
                    elif isinstance(v, ast.Call) and isinstance(v.func, ast.Attribute) and v.func.attr == "lstrip" and isinstance(v.func.value, ast.Name) \
                            and v.func.value.id == p[1]:
                        trimmed = a
            if trimmed is None:
                # by use: the attribute the prefix test reads (what it holds is then checked by the line rules, not assumed)
                sw = cls.find_method("startswith")
                for n in ast.walk(sw.node) if sw is not None else []:
                    if isinstance(n, ast.Call) and isinstance(n.func, ast.Attribute) and n.func.attr == "startswith" \
                            and isinstance(n.func.value, ast.Attribute) and isinstance(n.func.value.value, ast.Name) and n.func.value.value.id == sw.params()[0]:
                        trimmed = n.func.value.attr
            if lineno is None:
                # by use: the attribute reported as the 'line' of a location built by this class
                for mfi in cls.methods.values():
                    for n in ast.walk(mfi.node):
                        if isinstance(n, ast.Dict):
                            for k, v in zip(n.keys, n.values):
                                if isinstance(k, ast.Constant) and k.value == "line" and isinstance(v, ast.Attribute) and isinstance(v.value, ast.Name) \
                                        and v.value.id == mfi.params()[0]:
                                    lineno = v.attr
            if None in (raw, trimmed, lineno):
                raise AnalysisError("anchor vanished: GherkinLine.__init__ no longer stores raw text / left-trimmed text / line number")
            return raw, trimmed, lineno
        return self._get("LINE", find)

    @property
    def RAW(self) -> str:
        return self._line_attrs()[0]

    @property
    def TRIMMED(self) -> str:
        return self._line_attrs()[1]

    @property
    def LINENO(self) -> str:
        return self._line_attrs()[2]

    @property
    def ID_COUNTER(self) -> str:
        def find():
            cls = facts().cls("gherkin.stream.id_generator.IdGenerator")
            init = cls.find_method("__init__")
            for n in ast.walk(init.node):
                if isinstance(n, ast.Assign) and isinstance(n.targets[0], ast.Attribute) and isinstance(n.value, ast.Constant) and n.value.value == 0:
                    return n.targets[0].attr
            raise AnalysisError("anchor vanished: IdGenerator.__init__ does not initialise a counter to 0")
        return self._get("ID_COUNTER", find)

    @property
    def FMT_TOKENS(self) -> str:
        def find():
            cls = facts().cls("gherkin.token_formatter_builder.TokenFormatterBuilder")
            b = cls.methods.get("build")
            for n in ast.walk(b.node) if b else []:
                if isinstance(n, ast.Call) and isinstance(n.func, ast.Attribute) and n.func.attr == "append" and isinstance(n.func.value, ast.Attribute):
                    return n.func.value.attr
            return "_tokens"
        return self._get("FMT_TOKENS", find)


N = _Names()
