"""Abstract interpreter over a term/heap domain: computes, for a function of /repo, a *normal form*:
an effect tree (if / loop / mutation / draw / raise / return / yield nodes) whose leaves are resolved
value-flow terms.  Repo-internal calls are inlined (the call graph is a DAG); variables are eliminated;
`if` statements and conditional expressions both become cond-terms; list-building idioms become segment
lists.  Nothing is executed: terms are symbolic, loops are summarised by one abstract iteration.

Terms (tuples):  ('const', v) ('param', n) ('attr', b, n) ('item', b, k) ('slice', b, lo, hi, st)
 ('call', fname, args, kwargs) ('ref', oid) ('cond', c, a, b) ('binop', op, a, b) ('unop', op, a)
 ('cmp', op, a, b) ('bool', op, vals) ('not', a) ('tuple', elems) ('phi', loop, n) ('loopout', loop, n)
 ('elem', loop) ('idx', loop) ('func', q) ('bound', recv, q) ('class', q) ('drawn', serial)
 ('fstr', parts) ('opaque', text) ('absent',) ('dropnone', v) ('excvar', id) ('loopret', loop)
"""
from __future__ import annotations

import ast
import itertools

from .common import AnalysisError
from .facts import facts, FuncInfo, ClassInfo, ModInfo

ABSENT = ("absent",)
NONE = ("const", None)
TRUE = ("const", True)
FALSE = ("const", False)


def const(v):
    return ("const", v)


def is_const(t, *vals) -> bool:
    return isinstance(t, tuple) and t and t[0] == "const" and (not vals or any(t[1] == v and type(t[1]) is type(v) for v in vals))


def assume(t, p, val: bool):
    """t simplified under the assumption that condition p evaluates to ``val`` (only through the cond spine)."""
    if isinstance(t, tuple) and t and t[0] == "cond":
        if t[1] == p:
            return assume(t[2] if val else t[3], p, val)
        a, b = assume(t[2], p, val), assume(t[3], p, val)
        c = assume(t[1], p, val) if (isinstance(t[1], tuple) and t[1] and t[1][0] == "cond") else t[1]
        if a is t[2] and b is t[3] and c is t[1]:
            return t
        return mk_cond(c, a, b)
    return t


def mk_cond(c, a, b):
    if a == b:
        return a
    if is_const(c):
        return a if c[1] else b
    if c[0] == "not":
        return mk_cond(c[1], b, a)
    if c[0] == "cond":
        # a decision over decisions: (x if (q if p else r) else y)  ==  ((x if q else y) if p else (x if r else y))
        p, q, r = c[1], c[2], c[3]
        return mk_cond(p, mk_cond(q, assume(a, p, True), assume(b, p, True)), mk_cond(r, assume(a, p, False), assume(b, p, False)))
    a, b = assume(a, c, True), assume(b, c, False)
    if a == b:
        return a
    if c[0] == "cmp" and a == ("const", True) and b == ("const", False):
        return c            # ``True if x is None else False`` is ``x is None`` (a comparison is its own truth value)
    if c[0] == "cmp" and a == ("const", False) and b == ("const", True):
        return ("not", c)
    return ("cond", c, a, b)


def _int_valued(t) -> bool:
    return (is_const(t) and isinstance(t[1], int) and not isinstance(t[1], bool)) or (isinstance(t, tuple) and t and t[0] == "call" and t[1] == "len")


def mk_cmp(op: str, a, b):
    """Canonical order comparison: everything is expressed with 'Lt' (and 'not'); against an integer constant the constant
    stands on the right (``k < n`` is ``not n < k+1`` for integers), so ``len(x) > 10`` and ``len(x) >= 11`` are one term."""
    if op == "Gt":
        return mk_cmp("Lt", b, a)
    if op == "LtE":
        return mk_not(mk_cmp("Lt", b, a))
    if op == "GtE":
        return mk_not(mk_cmp("Lt", a, b))
    if op == "Lt":
        if is_const(a) and isinstance(a[1], int) and not isinstance(a[1], bool) and _int_valued(b) and not is_const(b):
            return mk_not(("cmp", "Lt", b, const(a[1] + 1)))
        return ("cmp", "Lt", a, b)
    return ("cmp", op, a, b)


INFEASIBLE = ("infeasible",)


def refine(v, c, pol: bool):
    """Value term v on a path where condition c evaluated to ``pol``: tests of v decided by that fact are resolved and
    alternatives that cannot occur on this path are dropped.  Returns INFEASIBLE when no alternative remains."""
    if not isinstance(v, tuple) or not v:
        return v
    if is_const(c):
        return v if bool(c[1]) == pol else INFEASIBLE
    if c[0] == "not":
        return refine(v, c[1], not pol)
    if c[0] == "cond":
        p = c[1]
        a = refine(assume(v, p, True), c[2], pol)
        b = refine(assume(v, p, False), c[3], pol)
        if a is INFEASIBLE and b is INFEASIBLE:
            return INFEASIBLE
        if a is INFEASIBLE:
            return b
        if b is INFEASIBLE:
            return a
        return mk_cond(p, a, b)
    if c[0] == "bool" and ((c[1] == "and" and pol) or (c[1] == "or" and not pol)):
        # every operand has that truth value
        for x in c[2]:
            v = refine(v, x, pol)
            if v is INFEASIBLE:
                return v
        return v
    return assume(v, c, pol)


def _has_cond_spine(v) -> bool:
    return isinstance(v, tuple) and bool(v) and v[0] == "cond"


def refine_env(st, c, pol: bool) -> dict:
    """Refine the variables of a forked state under c == pol; returns {name: (original, refined)} for those that changed."""
    changed = {}
    if is_const(c):
        return changed
    for k, v in list(st.env.items()):
        if _has_cond_spine(v):
            r = refine(v, c, pol)
            if r is not INFEASIBLE and r != v:
                changed[k] = (v, r)
                st.env[k] = r
    return changed


def mk_not(c):
    if is_const(c):
        return const(not c[1])
    if c[0] == "not":
        return c[1]
    return ("not", c)


class HList:
    kind = "list"

    def __init__(self, segs, origin):
        self.segs = list(segs)      # ('e', term) | ('s', term) | ('loop', loop_id, info, [segs])
        self.origin = origin        # (qualname, lineno, activation id)


class HDict:
    kind = "dict"

    def __init__(self, entries, origin):
        self.entries = list(entries)  # (key_term, value_term) | ('**', term)
        self.origin = origin


class HInst:
    kind = "inst"

    def __init__(self, cls: ClassInfo, origin):
        self.cls = cls
        self.origin = origin


class HGen:
    kind = "gen"

    def __init__(self, qualname, tree, origin, args=(), fi=None, env=None):
        self.qualname = qualname
        self.tree = tree            # filled when the generator is run (forced or fused)
        self.origin = origin
        self.args = tuple(args)
        self.fi = fi
        self.env = env
        self.forced = None          # list object holding the produced elements once materialised


class State:
    __slots__ = ("env", "ext")

    def __init__(self, env=None, ext=None):
        self.env = dict(env or {})
        self.ext = dict(ext or {})     # (base_term, attr) -> term : attribute stores seen so far

    def fork(self) -> "State":
        return State(self.env, self.ext)


def merge_states(c, a: State | None, b: State | None) -> State | None:
    if a is None:
        return b
    if b is None:
        return a
    out = State()
    for k in set(a.env) | set(b.env):
        va = a.env.get(k, ("undef", k))
        vb = b.env.get(k, ("undef", k))
        out.env[k] = mk_cond(c, va, vb)
    for k in set(a.ext) | set(b.ext):
        if isinstance(k[0], tuple) and k[0] and k[0][0] == "ref" and (k not in a.ext or k not in b.ext):
            # an attribute of a heap object set on one path only (typically the object is created there): where it can be
            # read at all it has that value
            out.ext[k] = a.ext[k] if k in a.ext else b.ext[k]
            continue
        va = a.ext.get(k, ("attr", k[0], k[1]))
        vb = b.ext.get(k, ("attr", k[0], k[1]))
        out.ext[k] = mk_cond(c, va, vb)
    return out


class Outcome:
    """Merged states of the paths of a block, by the way they end; ``*c`` is the condition (a term) under which the block
    ended that way (None = unknown / not tracked)."""
    __slots__ = ("live", "ret", "brk", "cont", "retc", "brkc", "contc")

    def __init__(self, live=None, ret=None, brk=None, cont=None, retc=None, brkc=None, contc=None):
        self.live = live
        self.ret = ret
        self.brk = brk
        self.cont = cont
        self.retc = retc if ret is not None else None
        self.brkc = brkc if brk is not None else None
        self.contc = contc if cont is not None else None


def mk_or(a, b):
    if a is None or b is None:
        return None
    return mk_cond(a, TRUE, b)


def join_exit(a, ac, b, bc):
    """Exit state/condition of 'a happened earlier, else b': (state, condition)."""
    if a is None:
        return b, bc
    if b is None:
        return a, ac
    c = ac if ac is not None else ("earlier_exit",)
    return merge_states(c, a, b), mk_or(ac, bc)


class Activation:
    _ids = itertools.count(1)

    def __init__(self, fi: FuncInfo | None, depth: int):
        self.id = next(Activation._ids)
        self.fi = fi
        self.depth = depth


class _Intrinsics(dict):
    """Stand-ins for functions, keyed by qualified name.  A name is stored under the qualified name of the function it
    resolves to today (a class or function that moved to another module and is re-exported keeps its stand-in)."""

    def __init__(self, facts_):
        super().__init__()
        self._facts = facts_

    def _canon(self, key):
        try:
            return self._facts.func(key).qualname
        except Exception:
            return key

    def __setitem__(self, key, value):
        super().__setitem__(self._canon(key), value)

    def update(self, other=(), **kw):
        for k, v in dict(other, **kw).items():
            self[k] = v

    def __contains__(self, key):
        return super().__contains__(key) or super().__contains__(self._canon(key))

    def get(self, key, default=None):
        if super().__contains__(key):
            return super().get(key)
        return super().get(self._canon(key), default)

    def __getitem__(self, key):
        if super().__contains__(key):
            return super().__getitem__(key)
        return super().__getitem__(self._canon(key))

    def pop(self, key, *d):
        if super().__contains__(key):
            return super().pop(key, *d)
        return super().pop(self._canon(key), *d)


class Interp:
    """One analysis session (shared heap, loop ids, draw serials)."""

    MAX_DEPTH = 14
    MAX_REENTRY = 2      # a function may be on the inlining stack twice (helpers shared by two levels of a traversal)

    def __init__(self) -> None:
        self.facts = facts()
        self.heap: dict[int, object] = {}
        self._oid = itertools.count(1)
        self._loop = itertools.count(1)
        self._draw = itertools.count(1)
        self._exc = itertools.count(1)
        self.loops: dict[int, dict] = {}
        self.types: dict[tuple, ClassInfo] = {}     # term -> class (for params / typed externals)
        self.stack: list[Activation] = []
        self.call_log: list[tuple] = []             # (caller qualname, callee qualname, line)
        self.unresolved: list[tuple] = []           # (qualname, line, text)
        self.intrinsics = _Intrinsics(self.facts)
        self.builtin_hooks = {}
        self.closures = {}
        self.yield_hooks = {}
        self.opaque_attrs = {}        # class qualname -> predicate(attribute name): reads that stay symbolic
        self.fusions = []
        self.no_fuse = set()

    # -- heap ---------------------------------------------------------------------------
    def alloc(self, obj) -> tuple:
        oid = next(self._oid)
        self.heap[oid] = obj
        return ("ref", oid)

    def obj(self, t):
        if isinstance(t, tuple) and t and t[0] == "ref":
            return self.heap.get(t[1])
        return None

    def origin(self, node: ast.AST | None):
        act = self.stack[-1] if self.stack else None
        act = getattr(act, "origin_as", None) or act       # (a field's default factory runs on behalf of the instantiating function)
        return (act.fi.qualname if act and act.fi else "?", getattr(node, "lineno", None), act.id if act else 0)

    def new_list(self, segs, node=None, tree=None):
        r = self.alloc(HList(segs, self.origin(node)))
        if tree is not None:
            tree.append(("alloc", r, getattr(node, "lineno", None)))
        return r

    def new_dict(self, entries, node=None, tree=None):
        r = self.alloc(HDict(entries, self.origin(node)))
        if tree is not None:
            tree.append(("alloc", r, getattr(node, "lineno", None)))
        return r

    # -- types --------------------------------------------------------------------------
    def _owned_store(self, recv) -> bool:
        """``recv`` is an attribute of an instance of a repository class whose constructor binds it to an empty dictionary."""
        if not (isinstance(recv, tuple) and recv and recv[0] == "attr"):
            return False
        cls = self.type_of(recv[1])
        if cls is None:
            return False
        init = cls.find_method("__init__")
        if init is None or not init.params():
            return False
        me = init.params()[0]
        for n in ast.walk(init.node):
            tgt = val = None
            if isinstance(n, ast.Assign) and len(n.targets) == 1:
                tgt, val = n.targets[0], n.value
            elif isinstance(n, ast.AnnAssign) and n.value is not None:
                tgt, val = n.target, n.value
            if isinstance(tgt, ast.Attribute) and tgt.attr == recv[2] and isinstance(tgt.value, ast.Name) and tgt.value.id == me:
                if isinstance(val, ast.Dict) and not val.keys:
                    return True
                if isinstance(val, ast.Call) and not val.keywords and getattr(val.func, "id", getattr(val.func, "attr", "")) in ("dict", "defaultdict") \
                        and (not val.args or getattr(val.func, "id", getattr(val.func, "attr", "")) == "defaultdict"):
                    return True
        return False

    def attr_class(self, cls: ClassInfo, name: str) -> ClassInfo | None:
        """Repository class of instance attribute ``name`` of ``cls`` (annotations, then __init__)."""
        for c in cls.mro():
            if name in c.annotations:
                r = self.facts.annotation_class(c.module, c.annotations[name])
                if r is not None:
                    return r
            for m in c.methods.values():
                for n in ast.walk(m.node):
                    tgt = val = None
                    if isinstance(n, ast.Assign) and len(n.targets) == 1:
                        tgt, val = n.targets[0], n.value
                    elif isinstance(n, ast.AnnAssign) and n.value is not None:
                        tgt, val = n.target, n.value
                    if tgt is None or not (isinstance(tgt, ast.Attribute) and isinstance(tgt.value, ast.Name)
                                           and tgt.value.id == "self" and tgt.attr == name):
                        continue
                    r = self._expr_class(c.module, m, val)
                    if r is not None:
                        return r
        return None

    def _expr_class(self, mod: ModInfo, fi: FuncInfo, val: ast.expr) -> ClassInfo | None:
        if isinstance(val, ast.Name):
            a = fi.node.args
            for p in a.posonlyargs + a.args + a.kwonlyargs:
                if p.arg == val.id:
                    return self.facts.annotation_class(mod, p.annotation)
            # local rebinding such as ``if x is None: x = C()``
            return None
        if isinstance(val, ast.Call):
            f = val.func
            if isinstance(f, ast.Name):
                return self.facts.resolve_class(mod, f.id)
        if isinstance(val, ast.IfExp):
            return self._expr_class(mod, fi, val.body) or self._expr_class(mod, fi, val.orelse)
        return None

    def type_of(self, t) -> ClassInfo | None:
        if not isinstance(t, tuple):
            return None
        if t in self.types:
            return self.types[t]
        k = t[0]
        if k == "ref":
            o = self.heap.get(t[1])
            if isinstance(o, HInst):
                return o.cls
            return None
        if k == "attr":
            bc = self.type_of(t[1])
            if bc is not None:
                return self.attr_class(bc, t[2])
            return None
        if k == "cond":
            return self.type_of(t[2]) or self.type_of(t[3])
        if k == "call":
            # return annotation of a repo function is not tracked for external calls
            return None
        return None

    # -- attribute read -----------------------------------------------------------------
    def get_attr(self, st: State, base, name: str, node=None, tree=None):
        if tree is None:
            tree = []
        key = (base, name)
        if key in st.ext:
            return st.ext[key]
        if base[0] == "cond" and (base not in self.types or self._concrete_leaves(base)):
            return mk_cond(base[1], self.get_attr(st, base[2], name, node, tree), self.get_attr(st, base[3], name, node, tree))
        if base[0] == "class":
            cls = self.facts.cls(base[1])
            m = cls.find_method(name)
            if m is not None:
                if m.is_static:
                    return ("func", m.qualname)
                if m.is_classmethod:
                    return ("bound", base, m.qualname)
                return ("func", m.qualname)
            ca = cls.find_class_attr(name)
            if ca is not None:
                v = self._eval_class_attr(ca[0], name, ca[1])
                return v if v is not None else ("classattr", ca[0].qualname, name)
            return ("attr", base, name)
        if base[0] == "module":
            r = None
            m = self.facts.modules.get(base[1])
            if m is not None:
                r = self.facts.resolve_name(m, name)
            if r is not None:
                return self._resolved(r, name)
            return ("extname", f"{base[1]}.{name}")
        if base[0] == "extname":
            return ("extname", f"{base[1]}.{name}")
        if base[0] == "super":
            cls = self.facts.cls(base[1])
            owner = self.facts.cls(base[2])
            m = cls.find_method_after(owner, name)
            if m is not None:
                return ("bound", base[3], m.qualname)
            return ("attr", base, name)
        cls = self.type_of(base)
        if cls is not None and cls.is_namedtuple and base[0] == "tuple":
            names = cls.nt_fields()
            if name in names and names.index(name) < len(base[1]):
                return base[1][names.index(name)]
            if name == "_replace":
                return ("ntreplace", base, cls.qualname)
            if name == "_fields":
                return ("tuple", tuple(const(x) for x in names))
        if cls is not None and any(pred(name) for q_, pred in self.opaque_attrs.items() if any(c.qualname == q_ for c in cls.mro())):
            m0 = cls.find_method(name)
            if m0 is None or m0.is_property:
                return ("attr", base, name)     # a data attribute / property kept symbolic on request (the rules are stated in terms of it)
        if cls is not None:
            m = cls.find_method(name)
            if m is not None:
                if m.is_property:
                    return self.call_function(st, m, [base], {}, node, tree)
                if m.is_static:
                    return ("func", m.qualname)
                if m.is_classmethod:
                    return ("bound", ("class", cls.qualname), m.qualname)
                return ("bound", base, m.qualname)
            ca = cls.find_class_attr(name)
            if ca is not None and any(c.is_dataclass and name in c.annotations and "ClassVar" not in ast.unparse(c.annotations[name]) for c in cls.mro()):
                ca = None           # a dataclass field: every instance has its own value (the class-level expression is its default)
            if ca is not None and name not in self._instance_written(cls):
                v = self._eval_class_attr(ca[0], name, ca[1])
                if v is not None and v[0] == "propobj":
                    return self.apply(st, v[1], [base], {}, node, tree)
                return v if v is not None else ("classattr", ca[0].qualname, name)
        return ("attr", base, name)

    def _isinstance(self, x, k):
        """True / False when decided by the repository's class hierarchy, else None."""
        if k[0] == "tuple":
            rs = [self._isinstance(x, e) for e in k[1]]
            if any(r is True for r in rs):
                return True
            return False if rs and all(r is False for r in rs) else None
        if k[0] != "class":
            return None
        kc = self.facts.cls(k[1])
        if kc is None:
            return None
        exact = x[0] == "ref" and isinstance(self.obj(x), HInst)
        xc = self.type_of(x)
        if xc is None:
            return None
        if kc in xc.mro():
            return True
        if exact:
            return False
        # x is some instance of xc (declared): unrelated classes have no common instances unless some class inherits both
        if xc in kc.mro():
            return None
        for c in self.facts.all_classes():
            m = c.mro()
            if xc in m and kc in m:
                return None
        return False

    def _is_logger(self, t) -> bool:
        """t denotes a logging.Logger (created by logging.getLogger, possibly held in a module global)."""
        if not isinstance(t, tuple) or not t:
            return False
        if t[0] == "logger":
            return True
        if t[0] == "call" and t[1] in ("logging.getLogger", "logging.Logger"):
            return True
        if t[0] == "global" and len(t) > 2:
            m = self.facts.modules.get(t[1])
            v = m.globals.get(t[2]) if m else None
            if isinstance(v, ast.Call):
                fn = v.func
                nm = fn.attr if isinstance(fn, ast.Attribute) else (fn.id if isinstance(fn, ast.Name) else "")
                return nm in ("getLogger", "Logger")
        return False

    def _concrete_leaves(self, t) -> bool:
        """Every alternative of a decision term is a heap object or a constant (so attribute access can be decided per leaf)."""
        if t[0] == "cond":
            return self._concrete_leaves(t[2]) and self._concrete_leaves(t[3])
        return t[0] in ("ref", "const") or (t[0] == "tuple" and t in self.types)

    def _eval_class_attr(self, cls: ClassInfo, name: str, node: ast.expr):
        """Value of a class-level attribute when it is a plain table (constants, tuples/lists/dicts of constants and of
        functions defined in the class or module, staticmethod(f)); None for anything else (compiled patterns ...)."""
        cache = getattr(self, "_ca_cache", None)
        if cache is None:
            cache = self._ca_cache = {}
        key = (cls.qualname, name)
        if key in cache:
            return cache[key]
        cache[key] = None
        rx = self._regex_of(node, cls.module)
        if rx is not None:
            cache[key] = rx
            return rx

        def ev(n):
            if isinstance(n, ast.Constant):
                return const(n.value)
            if isinstance(n, ast.Name):
                if n.id in cls.methods:
                    return ("func", cls.methods[n.id].qualname)
                r = self.facts.resolve_name(cls.module, n.id)
                if r is not None and r[0] in ("func", "class"):
                    return self._resolved(r, n.id)
                if r is not None and r[0] == "global":
                    return self._resolved(r, n.id)
                raise ValueError
            if isinstance(n, ast.Lambda):
                return self._lambda_closure(n, cls.module, {})
            if isinstance(n, ast.Tuple):
                return ("tuple", tuple(ev(e) for e in n.elts))
            if isinstance(n, ast.List):
                return self.alloc(HList([("e", ev(e)) for e in n.elts], (cls.qualname, n.lineno, 0)))
            if isinstance(n, ast.Dict) and all(k is not None for k in n.keys):
                return self.alloc(HDict([(ev(k), ev(v)) for k, v in zip(n.keys, n.values)], (cls.qualname, n.lineno, 0)))
            if isinstance(n, ast.Call) and isinstance(n.func, ast.Name) and n.func.id in ("staticmethod", "classmethod") and len(n.args) == 1:
                return ev(n.args[0])
            if isinstance(n, ast.Call) and isinstance(n.func, ast.Name) and n.func.id == "property" and len(n.args) >= 1:
                return ("propobj", ev(n.args[0]))
            if isinstance(n, ast.Call) and not n.keywords and len(n.args) == 1:
                from .astutil import xdotted
                if xdotted(n.func, cls.module) in ("types.MappingProxyType", "dict", "tuple", "frozenset") and isinstance(n.args[0], (ast.Dict, ast.Tuple, ast.List, ast.Set)):
                    # a read-only view / copy of a literal table: the table
                    return ev(n.args[0]) if not isinstance(n.args[0], ast.Set) else ("tuple", tuple(ev(e) for e in n.args[0].elts))
            if isinstance(n, ast.Call) and isinstance(n.func, ast.Name) and not n.keywords:
                r = self.facts.resolve_name(cls.module, n.func.id)
                if r is not None and r[0] == "func" and len(self.stack) < 6:
                    a = [ev(x) for x in n.args]
                    dummy = FuncInfo(cls.module, None, ast.parse("def _class_body(): pass").body[0])
                    self.stack.append(Activation(dummy, len(self.stack)))
                    try:
                        v = self.call_function(State(), r[1], a, {}, n, [])
                    finally:
                        self.stack.pop()
                    if v[0] in ("propobj", "closure", "func", "const", "tuple"):
                        return v
                raise ValueError
            if isinstance(n, ast.Attribute):
                b = ev(n.value)
                if b[0] == "class":
                    # a constant of another class (``Kind.NAME`` in a table)
                    oc = self.facts.cls(b[1])
                    ca2 = oc.find_class_attr(n.attr)
                    if ca2 is not None and not oc.is_enum_like():
                        v2 = self._eval_class_attr(ca2[0], n.attr, ca2[1])
                        if v2 is not None:
                            return v2
                raise ValueError
            raise ValueError
        try:
            v = ev(node)
        except (ValueError, RecursionError):
            v = None
        if v is None and isinstance(node, (ast.Call, ast.DictComp, ast.ListComp, ast.SetComp, ast.GeneratorExp, ast.BinOp)):
            # a table computed once from constants (a comprehension, a read-only view of one): its value
            try:
                v = self._value_term(self._const_global(cls.module, node))
            except (ValueError, RecursionError):
                v = None
        cache[key] = v
        return v

    def _instance_written(self, cls: ClassInfo) -> set:
        cache = getattr(self, "_iw_cache", None)
        if cache is None:
            cache = self._iw_cache = {}
        if cls.qualname not in cache:
            w = set()
            for c in cls.mro():
                for m in c.methods.values():
                    for n in ast.walk(m.node):
                        if isinstance(n, ast.Attribute) and isinstance(n.ctx, ast.Store) and isinstance(n.value, ast.Name) \
                                and n.value.id == "self":
                            w.add(n.attr)
            cache[cls.qualname] = w
        return cache[cls.qualname]

    REGEX_METHODS = ("match", "search", "fullmatch", "sub", "subn", "split", "findall", "finditer")

    @staticmethod
    def _regex_of(node, mod=None):
        """('regex', pattern, flags source or None) for ``re.compile(<constant>[, flags])``."""
        from .astutil import xdotted
        if isinstance(node, ast.Call) and xdotted(node.func, mod) == "re.compile" and node.args and isinstance(node.args[0], ast.Constant) \
                and isinstance(node.args[0].value, str):
            fl = node.args[1] if len(node.args) > 1 else next((k.value for k in node.keywords if k.arg == "flags"), None)
            return ("regex", const(node.args[0].value), ("extname", ast.unparse(fl)) if fl is not None else NONE)
        return None

    def _const_global(self, mod, node, depth=0, env=None):
        """Python value of a module-level constant expression (numbers, strings, tuples/lists/dicts, range, chain, arithmetic,
        str/len, comprehensions over such values, starred parts, other constant globals); raises ValueError otherwise."""
        if depth > 12:
            raise ValueError
        env = env or {}
        ev = lambda n, e=None: self._const_global(mod, n, depth + 1, env if e is None else e)
        if isinstance(node, ast.Constant):
            return node.value
        if isinstance(node, (ast.Tuple, ast.List)):
            out = []
            for e in node.elts:
                if isinstance(e, ast.Starred):
                    v = ev(e.value)
                    if not isinstance(v, tuple):
                        raise ValueError
                    out.extend(v)
                else:
                    out.append(ev(e))
            return tuple(out)
        if isinstance(node, ast.Dict):
            if any(k is None for k in node.keys):
                raise ValueError
            return {ev(k): ev(v) for k, v in zip(node.keys, node.values)}
        if isinstance(node, ast.Name):
            if node.id in env:
                return env[node.id]
            g = mod.globals.get(node.id)
            if g is None:
                raise ValueError
            return self._const_global(mod, g, depth + 1, {})
        if isinstance(node, ast.JoinedStr):
            parts = []
            for v in node.values:
                if isinstance(v, ast.Constant):
                    parts.append(str(v.value))
                elif isinstance(v, ast.FormattedValue) and v.format_spec is None and v.conversion == -1:
                    x = ev(v.value)
                    if not isinstance(x, (str, int)) or isinstance(x, bool):
                        raise ValueError
                    parts.append(str(x))
                else:
                    raise ValueError
            return "".join(parts)
        if isinstance(node, (ast.ListComp, ast.GeneratorExp, ast.SetComp, ast.DictComp)) and len(node.generators) == 1:
            g = node.generators[0]
            src = ev(g.iter)
            if isinstance(src, dict):
                src = tuple(src)
            if not isinstance(src, tuple) or len(src) > 4096 or g.is_async:
                raise ValueError
            out = []
            for x in src:
                e2 = dict(env)
                if isinstance(g.target, ast.Name):
                    e2[g.target.id] = x
                elif isinstance(g.target, ast.Tuple) and all(isinstance(t, ast.Name) for t in g.target.elts) and isinstance(x, tuple) \
                        and len(x) == len(g.target.elts):
                    for t, xv in zip(g.target.elts, x):
                        e2[t.id] = xv
                else:
                    raise ValueError
                if not all(ev(c, e2) for c in g.ifs):
                    continue
                out.append((ev(node.key, e2), ev(node.value, e2)) if isinstance(node, ast.DictComp) else ev(node.elt, e2))
            return dict(out) if isinstance(node, ast.DictComp) else tuple(out)
        if isinstance(node, ast.Compare) and len(node.ops) == 1:
            a, b = ev(node.left), ev(node.comparators[0])
            op = node.ops[0]
            try:
                if isinstance(op, ast.Eq):
                    return a == b
                if isinstance(op, ast.NotEq):
                    return a != b
                if isinstance(op, ast.Lt):
                    return a < b
                if isinstance(op, ast.LtE):
                    return a <= b
                if isinstance(op, ast.Gt):
                    return a > b
                if isinstance(op, ast.GtE):
                    return a >= b
                if isinstance(op, ast.In):
                    return a in b
                if isinstance(op, ast.NotIn):
                    return a not in b
            except TypeError:
                raise ValueError
            raise ValueError
        if isinstance(node, ast.BinOp) and isinstance(node.op, (ast.Add, ast.Sub, ast.Mult)):
            a, b = ev(node.left), ev(node.right)
            if isinstance(a, (int, str, tuple)) and type(a) is type(b) or (isinstance(a, int) and isinstance(b, int)):
                return a + b if isinstance(node.op, ast.Add) else (a - b if isinstance(node.op, ast.Sub) else a * b)
            raise ValueError
        if isinstance(node, ast.BinOp) and isinstance(node.op, ast.BitOr):
            a, b = ev(node.left), ev(node.right)
            if isinstance(a, dict) and isinstance(b, dict):
                return {**a, **b}
            raise ValueError
        if isinstance(node, ast.UnaryOp) and isinstance(node.op, ast.USub):
            v = ev(node.operand)
            if isinstance(v, int):
                return -v
            raise ValueError
        if isinstance(node, ast.Subscript) and not isinstance(node.slice, ast.Slice):
            a, k = ev(node.value), ev(node.slice)
            try:
                return a[k]
            except (KeyError, IndexError, TypeError):
                raise ValueError
        if isinstance(node, ast.Call) and not node.keywords:
            fn = node.func.id if isinstance(node.func, ast.Name) else (node.func.attr if isinstance(node.func, ast.Attribute) else None)
            if isinstance(node.func, ast.Name) and (fn in env or fn in mod.globals):
                raise ValueError            # a user function of that name
            args = [ev(a) for a in node.args]
            if fn == "range" and all(isinstance(a, int) for a in args) and 1 <= len(args) <= 3:
                r = range(*args)
                if len(r) > 4096:
                    raise ValueError
                return tuple(r)
            if fn in ("tuple", "list", "frozenset", "sorted") and len(args) == 1 and isinstance(args[0], tuple):
                return tuple(sorted(args[0])) if fn == "sorted" else args[0]
            if fn == "MappingProxyType" and len(args) == 1 and isinstance(args[0], dict):
                return args[0]          # a read-only view of the table
            if fn == "dict" and len(args) == 1 and isinstance(args[0], (dict, tuple)):
                try:
                    return dict(args[0])
                except (TypeError, ValueError):
                    raise ValueError
            if fn == "chain" and all(isinstance(a, tuple) for a in args):
                return tuple(x for a in args for x in a)
            if fn == "zip" and all(isinstance(a, tuple) for a in args):
                return tuple(zip(*args))
            if fn == "enumerate" and len(args) == 1 and isinstance(args[0], tuple):
                return tuple(enumerate(args[0]))
            if fn == "len" and len(args) == 1 and isinstance(args[0], (tuple, str, dict)):
                return len(args[0])
            if fn == "str" and len(args) == 1 and isinstance(args[0], (int, str)) and not isinstance(args[0], bool):
                return str(args[0])
            if fn == "int" and len(args) == 1 and isinstance(args[0], (int, str)):
                try:
                    return int(args[0])
                except ValueError:
                    raise ValueError
            if fn in ("items", "keys", "values") and isinstance(node.func, ast.Attribute) and not args:
                d = ev(node.func.value)
                if isinstance(d, dict):
                    return tuple(getattr(d, fn)())
        raise ValueError

    def _value_term(self, v):
        if isinstance(v, tuple):
            return ("tuple", tuple(self._value_term(x) for x in v))
        if isinstance(v, dict):
            # a table built once at import time and (checked elsewhere) never written
            return self.alloc(HDict([(self._value_term(k), self._value_term(x)) for k, x in v.items()], ("<module constant>", None, 0)))
        return const(v)

    @staticmethod
    def _global_rebound(mod, name) -> bool:
        """The module assigns the global more than once at top level, or some function declares it ``global``."""
        n = 0
        for st_ in mod.tree.body:
            if isinstance(st_, ast.Assign) and any(isinstance(t, ast.Name) and t.id == name for t in st_.targets):
                n += 1
            elif isinstance(st_, (ast.AnnAssign, ast.AugAssign)) and isinstance(st_.target, ast.Name) and st_.target.id == name:
                n += 1
        if n > 1:
            return True
        return any(isinstance(x, ast.Global) and name in x.names for x in ast.walk(mod.tree))

    def _resolved(self, r, name):
        if r[0] == "global":
            rx = self._regex_of(r[1].globals.get(r[2]), r[1])
            if rx is not None:
                return rx
            gv = r[1].globals.get(r[2])
            if isinstance(gv, (ast.Name, ast.Attribute)) and not self._global_rebound(r[1], r[2]):
                # a module-level alias (``escape_regexp = re.escape``, ``Line = GherkinLine``): the thing it names
                from .astutil import xdotted
                if isinstance(gv, ast.Name) and gv.id != r[2]:
                    r2 = self.facts.resolve_name(r[1], gv.id)
                    if r2 is not None:
                        return self._resolved(r2, gv.id)
                d = xdotted(gv, r[1])
                if d is not None and isinstance(gv, ast.Attribute):
                    head = d.split(".")[0]
                    base = gv
                    while isinstance(base, ast.Attribute):
                        base = base.value
                    if isinstance(base, ast.Name) and base.id in r[1].imports and head not in self.facts.modules and not head.startswith("gherkin"):
                        return ("extname", d)
            if isinstance(gv, (ast.Call, ast.BinOp, ast.DictComp, ast.ListComp, ast.SetComp, ast.GeneratorExp)) and r[2] != "RULE_TYPE":
                cache = self.__dict__.setdefault("_gconst_cache", {})
                key = (r[1].name, r[2])
                if key not in cache:
                    try:
                        cache[key] = self._value_term(self._const_global(r[1], gv))
                    except ValueError:
                        cache[key] = None
                if cache[key] is not None:
                    return cache[key]
            if isinstance(gv, ast.Call) and isinstance(gv.func, ast.Name):
                # a module-level record of constants: ``SHAPE = Shape(PREFIX, ":")``, ``OUTSIDE = State()`` (defaults)
                rc = self.facts.resolve_name(r[1], gv.func.id)
                if rc is not None and rc[0] == "class" and rc[1].is_namedtuple and rc[1].find_method("__new__") is None \
                        and len(gv.args) <= len(rc[1].nt_fields()) and all(k.arg is not None for k in gv.keywords):
                    try:
                        names = rc[1].nt_fields()
                        given = dict(zip(names, [self._value_term(self._const_global(r[1], a)) for a in gv.args]))
                        for k in gv.keywords:
                            given[k.arg] = self._value_term(self._const_global(r[1], k.value))
                        vals = []
                        for nm in names:
                            if nm in given:
                                vals.append(given[nm])
                                continue
                            ca = rc[1].find_class_attr(nm)
                            dv = self._eval_class_attr(ca[0], nm, ca[1]) if ca is not None else None
                            if dv is None:
                                raise ValueError
                            vals.append(dv)
                        t = ("tuple", tuple(vals))
                        self.types[t] = rc[1]
                        return t
                    except ValueError:
                        pass
        if r[0] == "class":
            return ("class", r[1].qualname)
        if r[0] == "func":
            return ("func", r[1].qualname)
        if r[0] == "global":
            v = r[1].globals.get(r[2])
            if isinstance(v, ast.Constant) and isinstance(v.value, (str, int, float, bool, type(None))):
                return const(v.value)
            if isinstance(v, (ast.Tuple, ast.Dict, ast.List, ast.Call, ast.Lambda)) and r[2] != "RULE_TYPE":
                t = self._eval_module_table(r[1], r[2], v)
                if t is not None:
                    return t
            return ("global", r[1].name, r[2])
        if r[0] == "module":
            return ("module", r[1])
        if r[0] == "external":
            return ("extname", f"{r[1]}.{r[2]}")
        return ("opaque", name)

    def _eval_module_table(self, mod: ModInfo, name: str, node: ast.expr):
        cache = getattr(self, "_mt_cache", None)
        if cache is None:
            cache = self._mt_cache = {}
        key = (mod.name, name)
        if key in cache:
            return cache[key]
        cache[key] = None

        def ev(n):
            if isinstance(n, ast.Constant):
                return const(n.value)
            if isinstance(n, ast.Name):
                r = self.facts.resolve_name(mod, n.id)
                if r is not None and r[0] in ("func", "class"):
                    return self._resolved(r, n.id)
                if r is not None and r[0] == "global":
                    vv = r[1].globals.get(r[2])
                    if isinstance(vv, ast.Constant):
                        return const(vv.value)
                raise ValueError
            if isinstance(n, ast.Lambda):
                return self._lambda_closure(n, mod, {})
            if isinstance(n, ast.Call) and isinstance(n.func, (ast.Name, ast.Attribute)) and len(n.args) == 1 and not n.keywords \
                    and isinstance(n.args[0], ast.Constant):
                fn = n.func.id if isinstance(n.func, ast.Name) else n.func.attr
                if fn in ("attrgetter", "itemgetter"):
                    return (fn, n.args[0].value)
                raise ValueError
            if isinstance(n, ast.Call) and isinstance(n.func, (ast.Name, ast.Attribute)) and len(n.args) > 1 and not n.keywords \
                    and all(isinstance(a, ast.Constant) for a in n.args) \
                    and (n.func.id if isinstance(n.func, ast.Name) else n.func.attr) in ("itemgetter", "attrgetter"):
                return ((n.func.id if isinstance(n.func, ast.Name) else n.func.attr), tuple(a.value for a in n.args))
            if isinstance(n, ast.Tuple):
                return ("tuple", tuple(ev(e) for e in n.elts))
            if isinstance(n, ast.List):
                return self.alloc(HList([("e", ev(e)) for e in n.elts], (mod.name, n.lineno, 0)))
            if isinstance(n, ast.Dict) and all(k is not None for k in n.keys):
                return self.alloc(HDict([(ev(k), ev(v)) for k, v in zip(n.keys, n.values)], (mod.name, n.lineno, 0)))
            raise ValueError
        try:
            v = ev(node)
        except (ValueError, RecursionError):
            v = None
        cache[key] = v
        return v

    def lookup_name(self, st: State, name: str, node=None):
        if name in st.env:
            return st.env[name]
        act = self.stack[-1]
        mod = act.fi.module if act.fi else None
        if mod is not None:
            r = self.facts.resolve_name(mod, name)
            if r is not None:
                return self._resolved(r, name)
        return ("builtin", name)

    # -- expressions --------------------------------------------------------------------
    def ev(self, st: State, n: ast.expr, tree: list):
        m = getattr(self, "ev_" + type(n).__name__, None)
        if m is None:
            return ("opaque", ast.unparse(n))
        return m(st, n, tree)

    def ev_Constant(self, st, n, tree):
        hook = getattr(n, "_term_hook", None)
        if hook is not None:
            return hook(st, tree)          # a synthesised expression of a lowered construct (scan loops)
        return const(n.value)

    def ev_Name(self, st, n, tree):
        return self.lookup_name(st, n.id, n)

    def ev_Attribute(self, st, n, tree):
        base = self.ev(st, n.value, tree)
        return self.get_attr(st, base, n.attr, n, tree)

    def ev_Tuple(self, st, n, tree):
        if any(isinstance(e, ast.Starred) for e in n.elts) and isinstance(n.ctx, ast.Load):
            # ``(*a, *b, x)``: a sequence whose length is not written down - its elements in order, like the list display
            # (nothing in the package tells a tuple of unknown length from a list except mutation, which a tuple does not have)
            segs = self._seq_segs(st, n.elts, tree)
            if all(sg[0] == "e" or (sg[1][0] != "tuple") for sg in segs):
                r = self.new_list(segs, n, tree)
                self.obj(r).from_tuple_display = True
                return r
            flat = []
            for sg in segs:
                flat.extend(sg[1][1] if sg[0] == "s" and sg[1][0] == "tuple" else [sg[1]]) if (sg[0] == "e" or sg[1][0] == "tuple") else flat.append(("star", sg[1]))
            return ("tuple", tuple(flat))
        return ("tuple", tuple(self.ev(st, e, tree) for e in n.elts))

    def _seq_segs(self, st, elts, tree):
        segs = []
        for e in elts:
            if isinstance(e, ast.Starred):
                segs.append(("s", self.ev(st, e.value, tree)))
            else:
                segs.append(("e", self.ev(st, e, tree)))
        return segs

    def ev_List(self, st, n, tree):
        return self.new_list(self._seq_segs(st, n.elts, tree), n, tree)

    def ev_Set(self, st, n, tree):
        return ("call", "set", (self.new_list(self._seq_segs(st, n.elts, tree), n, tree),), ())

    def ev_Dict(self, st, n, tree):
        entries = []
        for k, v in zip(n.keys, n.values):
            if k is None:
                entries.append(("**", self.ev(st, v, tree)))
            else:
                kt = self.ev(st, k, tree)
                entries.append((kt, self.ev(st, v, tree)))
        return self.new_dict(entries, n, tree)

    def ev_JoinedStr(self, st, n, tree):
        parts = []
        for v in n.values:
            if isinstance(v, ast.Constant):
                parts.append(const(v.value))
            elif isinstance(v, ast.FormattedValue):
                parts.append(self.ev(st, v.value, tree))
        if all(is_const(p_) and isinstance(p_[1], (str, int)) and not isinstance(p_[1], bool) for p_ in parts) \
                and not any(isinstance(v, ast.FormattedValue) and v.format_spec is not None for v in n.values):
            return const("".join(str(p_[1]) for p_ in parts))
        return ("fstr", tuple(parts))

    def ev_test(self, st, n, tree):
        """An expression evaluated for its truth value."""
        return self.truth_of(st, self.ev(st, n, tree), n, tree)

    def truth_of(self, st, v, node, tree):
        """The truth value of an object of a repository class that defines ``__bool__`` is what that method answers."""
        if isinstance(v, tuple) and v and v[0] in ("attr", "param", "ref", "elem", "item", "local"):
            cls = self.type_of(v)
            if cls is not None:
                m = cls.find_method("__bool__")
                if m is not None and not m.is_property and m.qualname not in self.intrinsics:
                    return self.call_function(st, m, [v], {}, node, tree)
        return v

    def ev_UnaryOp(self, st, n, tree):
        v = self.ev(st, n.operand, tree)
        if isinstance(n.op, ast.Not):
            return mk_not(self.truth_of(st, v, n, tree))
        if isinstance(n.op, ast.USub) and is_const(v) and isinstance(v[1], (int, float)):
            return const(-v[1])
        return ("unop", type(n.op).__name__, v)

    def ev_BinOp(self, st, n, tree):
        a = self.ev(st, n.left, tree)
        b = self.ev(st, n.right, tree)
        op = type(n.op).__name__
        if op == "Add":
            la, lb = self.obj(a), self.obj(b)
            if isinstance(la, HList) or isinstance(lb, HList):
                return self.new_list([("s", a), ("s", b)], n, tree)
            if is_const(a) and is_const(b) and type(a[1]) is type(b[1]) and isinstance(a[1], (int, str)):
                return const(a[1] + b[1])
        if op == "BitOr" and isinstance(self.obj(a), HDict) and isinstance(self.obj(b), HDict):
            # d1 | d2: a new dict, right-hand entries win (a key keeps the position of its first occurrence)
            ea, eb = self.obj(a).entries, self.obj(b).entries
            if all(e[0] != "**" and is_const(e[0]) for e in list(ea) + list(eb)) and not self._dict_mutated(a, tree) and not self._dict_mutated(b, tree):
                merged = {e[0]: e[1] for e in ea}
                for e in eb:
                    merged[e[0]] = e[1]
                return self.new_dict(list(merged.items()), n, tree)
            return self.new_dict([("**", a), ("**", b)], n, tree)
        if op == "Mult" and is_const(a) and is_const(b) and isinstance(a[1], (int, str)) and isinstance(b[1], int):
            return const(a[1] * b[1])
        if op == "Sub" and is_const(a) and is_const(b) and isinstance(a[1], int) and isinstance(b[1], int):
            return const(a[1] - b[1])
        return ("binop", op, a, b)

    def ev_Compare(self, st, n, tree):
        left = self.ev(st, n.left, tree)
        parts = []
        for op, c in zip(n.ops, n.comparators):
            right = self.ev(st, c, tree)
            parts.append(("cmp", type(op).__name__, left, right))
            left = right
        if len(parts) > 1:
            # a chain ``a < b <= c`` is the conjunction of its links, each evaluated like a single comparison
            vals = []
            for p in parts:
                v = self._compare1(p)
                if is_const(v):
                    if not v[1]:
                        return FALSE
                    continue
                vals.append(v)
            if not vals:
                return TRUE
            if len(vals) == 1:
                return vals[0]
            return self._demorgan("and", tuple(vals))
        return self._compare1(parts[0])

    def _compare1(self, p):
        if True:
            if is_const(p[2]) and is_const(p[3]) and p[1] in ("Lt", "Gt", "LtE", "GtE", "Eq", "NotEq", "Is", "IsNot"):
                a, b = p[2][1], p[3][1]
                try:
                    if p[1] in ("Is", "IsNot"):
                        if a is None or b is None or isinstance(a, bool) or isinstance(b, bool):
                            r = (a is b) if p[1] == "Is" else (a is not b)
                            return const(r)
                    else:
                        import operator as _op
                        r = {"Lt": _op.lt, "Gt": _op.gt, "LtE": _op.le, "GtE": _op.ge, "Eq": _op.eq, "NotEq": _op.ne}[p[1]](a, b)
                        return const(bool(r))
                except TypeError:
                    pass
            if p[1] in ("Is", "IsNot") and is_const(p[3], None) and p[2][0] == "cond":
                def isnone(t):
                    if t[0] == "cond":
                        return mk_cond(t[1], isnone(t[2]), isnone(t[3]))
                    if is_const(t):
                        return const(t[1] is None)
                    if t[0] in ("ref", "tuple", "drawn", "fstr", "bound", "func", "class", "lambda", "closure"):
                        return FALSE
                    return ("cmp", "Is", t, NONE)
                r = isnone(p[2])
                return r if p[1] == "Is" else mk_not(r)
            nn = ("ref", "tuple", "drawn", "fstr", "bound", "func", "class", "lambda", "closure")
            if p[1] in ("Is", "IsNot") and ((is_const(p[3], None) and p[2][0] in nn) or (is_const(p[2], None) and p[3][0] in nn)):
                return const(p[1] == "IsNot")
            if p[1] in ("In", "NotIn") and is_const(p[2]):
                o = self.obj(p[3])
                if isinstance(o, HList) and all(sg[0] == "e" and is_const(sg[1]) for sg in o.segs):
                    r = p[2][1] in [sg[1][1] for sg in o.segs]
                    return const(r if p[1] == "In" else not r)
                if p[3][0] == "tuple" and all(is_const(x) for x in p[3][1]):
                    r = p[2][1] in [x[1] for x in p[3][1]]
                    return const(r if p[1] == "In" else not r)
                if is_const(p[3]) and isinstance(p[3][1], str) and isinstance(p[2][1], str):
                    r = p[2][1] in p[3][1]
                    return const(r if p[1] == "In" else not r)
            if p[1] in ("In", "NotIn") and is_const(p[2]):
                o = self.obj(p[3])
                if isinstance(o, HDict) and not getattr(o, "dirty", False) and all(e[0] != "**" and is_const(e[0]) for e in o.entries):
                    # membership of a constant in a literal table nobody wrote to
                    r = any(e[0] == p[2] for e in o.entries)
                    return const(r if p[1] == "In" else not r)
            if p[1] in ("In", "NotIn") and not is_const(p[2]):
                o = self.obj(p[3])
                if isinstance(o, HDict) and o.origin[2] == 0 and o.entries and all(e[0] != "**" and is_const(e[0]) for e in o.entries):
                    r = ("bool", "or", tuple(("cmp", "Eq", p[2], e[0]) for e in o.entries)) if len(o.entries) > 1 else ("cmp", "Eq", p[2], o.entries[0][0])
                    return r if p[1] == "In" else mk_not(r)
            return self._canon_cmp(p)

    @staticmethod
    def _canon_cmp(p):
        if p[1] == "IsNot":
            return mk_not(("cmp", "Is", p[2], p[3]))
        if p[1] == "NotIn":
            return mk_not(("cmp", "In", p[2], p[3]))
        if p[1] == "NotEq":
            return mk_not(Interp._canon_cmp(("cmp", "Eq", p[2], p[3])))
        if p[1] in ("Lt", "Gt", "LtE", "GtE"):
            return mk_cmp(p[1], p[2], p[3])
        if p[1] in ("Eq", "Is") and is_const(p[2]) and not is_const(p[3]):
            return ("cmp", p[1], p[3], p[2])        # symmetric: the constant stands on the right
        return p

    @staticmethod
    def _demorgan(op, vals):
        """and(not a, not b) == not or(a, b); or(not a, not b) == not and(a, b)."""
        if len(vals) >= 2 and all(isinstance(v, tuple) and v and v[0] == "not" for v in vals):
            return mk_not(("bool", "or" if op == "and" else "and", tuple(v[1] for v in vals)))
        return ("bool", op, tuple(vals))

    def _branch(self, st: State, cond, fn):
        """Evaluate fn(state, subtree) in a fork guarded by cond; returns (value, subtree, forked state)."""
        f = st.fork()
        sub: list = []
        v = fn(f, sub)
        return v, sub, f

    def _absorb(self, st: State, cond, forked: State, sub: list, tree: list, line=None, else_sub=None, else_state=None):
        if sub or else_sub:
            tree.append(("if", cond, sub, else_sub or [], line))
        m = merge_states(cond, forked, else_state if else_state is not None else st)
        st.env = m.env
        st.ext = m.ext

    def ev_BoolOp(self, st, n, tree):
        is_or = isinstance(n.op, ast.Or)
        vals = [self.ev(st, n.values[0], tree)]
        cur = vals[0]
        # later operands are evaluated only if the earlier ones did not decide
        for e in n.values[1:]:
            guard = mk_not(cur) if is_or else cur
            v, sub, f = self._branch(st, guard, lambda s, t, e=e: self.ev(s, e, t))
            self._absorb(st, guard, f, sub, tree, getattr(e, "lineno", None))
            vals.append(v)
            cur = ("bool", "or" if is_or else "and", tuple(vals))
        # constant absorbing element decides: ``True or x``, ``False and x``
        for i, v in enumerate(vals):
            if is_const(v) and bool(v[1]) == is_or:
                vals = vals[: i + 1]
                if i == 0:
                    return v
                break
        # drop constant identities: ``x or False``, ``x and True``
        keep = [v for v in vals if not is_const(v, False if is_or else True)]
        if not keep:
            return const(False if is_or else True)
        if len(keep) == 1:
            return keep[0]
        if len(keep) == 2 and is_or and is_const(keep[1]) and not isinstance(keep[1][1], bool) and not self._boolean_term(keep[0]):
            # ``value or <default constant>``
            return mk_cond(keep[0], keep[0], keep[1])
        if len(keep) == 2 and self._boolean_term(keep[0]) and not self._boolean_term(keep[1]):
            # ``<test> and value`` / ``<test> or value`` selects a value: the conditional it abbreviates
            return mk_cond(keep[0], TRUE, keep[1]) if is_or else mk_cond(keep[0], keep[1], FALSE)
        return self._demorgan("or" if is_or else "and", tuple(keep))

    @staticmethod
    def _boolean_term(t) -> bool:
        return isinstance(t, tuple) and bool(t) and (t[0] in ("not", "cmp") or (t[0] == "const" and isinstance(t[1], bool))
                                                      or (t[0] == "bool" and all(Interp._boolean_term(x) for x in t[2])))

    def _ev_quantifier(self, st, n, tree):
        """``any(f(x) for x in TABLE)`` / ``all(...)`` over a small constant table: f(t1) or f(t2) or ..., evaluated left to
        right with the later ones only when the earlier did not decide (what the lazy generator does)."""
        comp = n.args[0]
        g = comp.generators[0]
        probe: list = []
        pst = st.fork()
        it = self.ev(pst, g.iter, probe)
        if isinstance(self.obj(it), HGen) and self.obj(it).fi is not None and self.obj(it).qualname not in self.no_fuse:
            it = self.force(it, pst, probe, n)          # a generator of a fixed, small number of elements reads like a table
        if not self._effect_free(probe):
            return None
        elems = self._unroll_elems(it)
        if elems is None or not (0 < len(elems) <= 16):
            return None
        is_or = n.func.id == "any"
        it2 = self.ev(st, g.iter, tree)
        if isinstance(self.obj(it2), HGen) and self.obj(it2).fi is not None and self.obj(it2).qualname not in self.no_fuse:
            it2 = self.force(it2, st, tree, n)
            elems = self._unroll_elems(it2) or elems
        vals = []
        cur = None
        for el in elems:
            def one(s_, t_, el=el):
                self.bind_target(s_, g.target, el)
                return self.ev(s_, comp.elt, t_)
            if cur is None:
                saved = {k: st.env.get(k) for k in self._assigned_names([ast.Expr(value=g.target)])}
                v = one(st, tree)
                for k, old_ in saved.items():       # comprehension variables do not leak
                    if old_ is None:
                        st.env.pop(k, None)
                    else:
                        st.env[k] = old_
            else:
                guard = mk_not(cur) if is_or else cur
                v, sub, f2 = self._branch(st, guard, one)
                for k in self._assigned_names([ast.Expr(value=g.target)]):
                    if k in st.env:
                        f2.env[k] = st.env[k]
                    else:
                        f2.env.pop(k, None)
                self._absorb(st, guard, f2, sub, tree, getattr(comp, "lineno", None))
            vals.append(v)
            cur = v if len(vals) == 1 else ("bool", "or" if is_or else "and", tuple(vals))
        for i, v in enumerate(vals):
            if is_const(v) and bool(v[1]) == is_or:
                vals = vals[: i + 1]
                if i == 0:
                    return const(is_or)
                break
        keep = [v for v in vals if not is_const(v, False if is_or else True)]
        if not keep:
            return const(not is_or)
        if len(keep) == 1:
            return keep[0]
        return self._demorgan("or" if is_or else "and", tuple(keep))

    def ev_IfExp(self, st, n, tree):
        c = self.ev_test(st, n.test, tree)
        if is_const(c):
            return self.ev(st, n.body if c[1] else n.orelse, tree)
        a, sa, fa = self._branch(st, c, lambda s, t: self.ev(s, n.body, t))
        b, sb, fb = self._branch(st, mk_not(c), lambda s, t: self.ev(s, n.orelse, t))
        self._absorb(st, c, fa, sa, tree, n.lineno, sb, fb)
        fresh = lambda e: isinstance(e, (ast.List, ast.ListComp)) or (
            isinstance(e, ast.Call) and isinstance(e.func, ast.Name) and e.func.id == "list")
        la, lb = self.obj(a), self.obj(b)
        if fresh(n.body) and fresh(n.orelse) and isinstance(la, HList) and isinstance(lb, HList) and a != b:
            # ``[x] if c else []``: one new list either way (nothing else refers to the arms) - its content is conditional
            return self.new_list([("if", c, list(la.segs), list(lb.segs))], n, tree)
        return mk_cond(c, a, b)

    def ev_Subscript(self, st, n, tree):
        base = self.ev(st, n.value, tree)
        if isinstance(n.slice, ast.Slice):
            lo = self.ev(st, n.slice.lower, tree) if n.slice.lower else NONE
            hi = self.ev(st, n.slice.upper, tree) if n.slice.upper else NONE
            stp = self.ev(st, n.slice.step, tree) if n.slice.step else NONE
            if base[0] == "tuple" and all(is_const(x) and (x[1] is None or isinstance(x[1], int)) for x in (lo, hi, stp)):
                return ("tuple", tuple(base[1][slice(lo[1], hi[1], stp[1])]))
            return ("slice", base, lo, hi, stp)
        key = self.ev(st, n.slice, tree)
        return self.get_item(st, base, key)

    def _scratch_tree(self) -> list:
        """Effects of evaluations the statement walker has no tree for at hand go to the current frame's side list."""
        act = self.stack[-1] if self.stack else None
        if act is None:
            return []
        if not hasattr(act, "side"):
            act.side = []
        return act.side

    def get_slice(self, st, base, lo, hi):
        if base[0] == "cond":
            return mk_cond(base[1], self.get_slice(st, base[2], lo, hi), self.get_slice(st, base[3], lo, hi))
        if base[0] == "bool" and base[1] == "or" and len(base[2]) == 2:
            return mk_cond(base[2][0], self.get_slice(st, base[2][0], lo, hi), self.get_slice(st, base[2][1], lo, hi))
        o = self.obj(base)
        if isinstance(o, HList) and all(sg[0] == "e" for sg in o.segs) and not getattr(o, "dirty", False) and is_const(lo) and is_const(hi):
            return self.new_list(list(o.segs[slice(lo[1], hi[1])]), None, None)
        if base[0] == "tuple" and is_const(lo) and is_const(hi):
            return ("tuple", tuple(base[1][slice(lo[1], hi[1])]))
        return ("slice", base, lo, hi, NONE)

    def get_item(self, st, base, key):
        if base[0] == "cond":
            return mk_cond(base[1], self.get_item(st, base[2], key), self.get_item(st, base[3], key))
        if base[0] == "bool" and base[1] == "or" and len(base[2]) == 2:
            # ``(xs or default)[k]``
            return mk_cond(base[2][0], self.get_item(st, base[2][0], key), self.get_item(st, base[2][1], key))
        if base[0] == "call" and base[1] in ("re.match", "re.search", "re.fullmatch") and is_const(key):
            return ("call", ".group", (base, key), ())       # m[k] is m.group(k)
        if base[0] == "elem" and is_const(key):
            it_ = self.loops.get(base[1], {}).get("iter")
            if isinstance(it_, tuple) and it_ and it_[0] == "call" and it_[1] == "re.finditer":
                return ("call", ".group", (base, key), ())
        o_ = self.obj(base)
        if isinstance(o_, HList) and is_const(key) and isinstance(key[1], int) and all(sg[0] == "e" for sg in o_.segs) \
                and not getattr(o_, "dirty", False) and -len(o_.segs) <= key[1] < len(o_.segs):
            return o_.segs[key[1]][1]
        o = self.obj(base)
        if isinstance(o, HDict) and is_const(key):
            # only literal entries, not later setitems (those are effects); good enough for local dict reads
            for e in reversed(o.entries):
                if e[0] != "**" and e[0] == key:
                    return e[1]
        if isinstance(o, HDict) and not is_const(key) and o.origin[2] == 0 and o.entries and all(e[0] != "**" and is_const(e[0]) for e in o.entries):
            out = ("keyerror", base, key)
            for e in reversed(o.entries):
                out = mk_cond(("cmp", "Eq", key, e[0]), e[1], out)
            return out
        if base[0] == "tuple" and is_const(key) and isinstance(key[1], int) and -len(base[1]) <= key[1] < len(base[1]):
            return base[1][key[1]]
        return ("item", base, key)

    def ev_Starred(self, st, n, tree):
        return ("star", self.ev(st, n.value, tree))

    def ev_Lambda(self, st, n, tree):
        act = self.stack[-1] if self.stack else None
        if act is None or act.fi is None:
            return ("lambda", ast.unparse(n), id(n))
        return self._lambda_closure(n, act.fi.module, dict(st.env))

    def _lambda_closure(self, n: ast.Lambda, mod, env: dict):
        """A lambda is a closure over the frame it is written in: ``def <lambda>(args): return body``."""
        fd = getattr(n, "_as_def", None)
        if fd is None:
            fd = ast.FunctionDef(name="<lambda>", args=n.args, body=[ast.Return(value=n.body)], decorator_list=[], returns=None, type_comment=None)
            try:
                fd.type_params = []
            except Exception:
                pass
            ast.copy_location(fd, n)
            ast.copy_location(fd.body[0], n)
            n._as_def = fd
        cid = len(self.closures) + 1
        self.closures[cid] = (FuncInfo(mod, None, fd), env)
        return ("lambda", ast.unparse(n), id(n), cid)

    def ev_NamedExpr(self, st, n, tree):
        v = self.ev(st, n.value, tree)
        st.env[n.target.id] = v
        return v

    def ev_Await(self, st, n, tree):
        return self.ev(st, n.value, tree)

    def ev_Yield(self, st, n, tree):
        v = self.ev(st, n.value, tree) if n.value else NONE
        hook = self.yield_hooks.get(self.stack[-1].id) if self.stack else None
        if hook is not None:
            hook(v, st, tree, n.lineno)
        else:
            tree.append(("yield", v, n.lineno))
        return NONE

    def ev_YieldFrom(self, st, n, tree):
        v = self.ev(st, n.value, tree)
        hook = self.yield_hooks.get(self.stack[-1].id) if self.stack else None
        g = self.obj(v)
        if isinstance(g, HGen) and g.fi is not None and g.qualname not in self.no_fuse:
            # delegate: the inner generator's elements are produced in place
            def inner(x, gst, gtree, line, is_from=False):
                if hook is not None:
                    hook(x, gst, gtree, line, is_from) if is_from else hook(x, gst, gtree, line)
                else:
                    gtree.append(("yieldfrom" if is_from else "yield", x, line))
            self.run_generator(g, st, tree, inner, n)
            return NONE
        if isinstance(n.value, (ast.GeneratorExp, ast.ListComp)) and self._map_source(v) is not None:
            # ``yield from (f(x) for x in xs)`` is ``for x in xs: yield f(x)``
            tmp, el = f"__yf{n.lineno}_{n.col_offset}", f"__yfe{n.lineno}_{n.col_offset}"
            st.env[tmp] = v
            loop = ast.For(target=ast.Name(id=el, ctx=ast.Store()), iter=ast.Name(id=tmp, ctx=ast.Load()),
                           body=[ast.Expr(value=ast.Yield(value=ast.Name(id=el, ctx=ast.Load())))], orelse=[])
            ast.copy_location(loop, n)
            for x_ in ast.walk(loop):
                ast.copy_location(x_, n)
            ast.fix_missing_locations(loop)
            self.exec_block([loop], st, tree)
            st.env.pop(tmp, None)
            st.env.pop(el, None)
            return NONE
        if isinstance(n.value, (ast.GeneratorExp, ast.ListComp)) and isinstance(g, HList) and len(g.segs) == 1 and g.segs[0][0] == "loop" \
                and len(g.segs[0][2]) == 1 and g.segs[0][2][0][0] == "e" and not self.loops.get(g.segs[0][1], {}).get("conds"):
            # the elements are computed in the comprehension's loop, already in the tree: each is yielded there, as computed
            lid_ = g.segs[0][1]
            node_ = next((x for x in reversed(tree) if x[0] == "loop" and x[1] == lid_), None)
            if node_ is not None:
                if hook is not None:
                    hook(g.segs[0][2][0][1], st, node_[2], n.lineno)
                else:
                    node_[2].append(("yield", g.segs[0][2][0][1], n.lineno))
                return NONE
        if isinstance(n.value, (ast.GeneratorExp, ast.ListComp, ast.List, ast.Tuple)) and isinstance(g, HList) and g.segs and all(sg[0] == "e" for sg in g.segs):
            # a fixed number of elements (a display, or a comprehension over one that was unrolled): yielded one by one
            for sg in g.segs:
                if hook is not None:
                    hook(sg[1], st, tree, n.lineno)
                else:
                    tree.append(("yield", sg[1], n.lineno))
            return NONE
        if hook is not None:
            try:
                hook(v, st, tree, n.lineno, True)
            except TypeError:
                tree.append(("yieldfrom", v, n.lineno))
        else:
            tree.append(("yieldfrom", v, n.lineno))
        return NONE

    # comprehensions: one abstract iteration, as a loop node with the element as a segment
    def _map_source(self, it):
        """(source, element expression, loop id) when ``it`` is a list that holds exactly one computed value per element of
        another sequence (a finished ``map`` / comprehension without conditions): walking it is walking the source."""
        o = self.obj(it)
        if isinstance(o, HList) and not getattr(o, "dirty", False) and len(o.segs) == 1 and o.segs[0][0] == "s" and isinstance(self.obj(o.segs[0][1]), HList):
            return self._map_source(o.segs[0][1])          # a copy (``list(ys)``) of such a list
        if not (isinstance(o, HList) and not getattr(o, "dirty", False) and len(o.segs) == 1 and o.segs[0][0] == "loop"
                and len(o.segs[0][2]) == 1 and o.segs[0][2][0][0] == "e"):
            return None
        l0 = o.segs[0][1]
        info = self.loops.get(l0, {})
        if info.get("conds") or info.get("iter") is None or not (info.get("kind") == "comp" or getattr(o, "map_loop", None) == l0):
            return None
        E = o.segs[0][2][0][1]

        def plain(t):
            if not isinstance(t, tuple) or not t:
                return True
            if t[0] in ("ref", "phi", "loopout", "drawn"):
                return False
            return all(plain(x) for x in t)
        if not plain(E):
            return None
        return info["iter"], E, l0

    @staticmethod
    def _subst_loop(t, l0, lid):
        if not isinstance(t, tuple):
            return t
        if t == ("elem", l0):
            return ("elem", lid)
        if t == ("idx", l0):
            return ("idx", lid)
        return tuple(Interp._subst_loop(x, l0, lid) for x in t)

    def _nest_source(self, it):
        """([(iterable, loop id), ...], element expression) when ``it`` is a list made by two or more nested comprehension
        generators without conditions (``[E for a in xs for b in f(a)]``, or ``chain.from_iterable`` of such): walking it is
        walking the generators again."""
        levels = []
        o = self.obj(it)
        E = None
        while True:
            if not (isinstance(o, HList) and not getattr(o, "dirty", False) and len(o.segs) == 1 and o.segs[0][0] == "loop" and len(o.segs[0][2]) == 1):
                return None
            l0 = o.segs[0][1]
            info = self.loops.get(l0, {})
            if info.get("conds") or info.get("iter") is None or info.get("kind") != "comp":
                return None
            levels.append((info["iter"], l0))
            inner = o.segs[0][2][0]
            if inner[0] == "e":
                E = inner[1]
                break
            if inner[0] == "s":
                o = self.obj(inner[1])
                continue
            return None

        def plain(t):
            if not isinstance(t, tuple) or not t:
                return True
            if t[0] in ("ref", "phi", "loopout", "drawn"):
                return False
            return all(plain(x) for x in t)
        if len(levels) < 2 or not plain(E) or not all(plain(x) for x, _ in levels[1:]):
            return None
        return levels, E

    _nest_ids = itertools.count(1)

    def _nest_rewrite(self, levels, E, target, ifs=()):
        """The generators ``for g1 in iter1 for g2 in iter2(g1) ... for <target> in [E(g1, g2 ...)]`` as (target, iter, ifs)
        triples of synthetic syntax: each iterable / the element expression is the recorded term with the recorded loops'
        elements replaced by the new loop variables."""
        k = next(self._nest_ids)
        names = {lid: f"__nest{k}_{i}" for i, (_, lid) in enumerate(levels)}

        def term_node(t, upto):
            node = ast.Constant(value=None)

            def hook(st_, tree_, t=t, upto=upto):
                m = {("elem", lid): st_.env[names[lid]] for _, lid in levels[:upto]}

                def sub(x):
                    if not isinstance(x, tuple):
                        return x
                    if x in m:
                        return m[x]
                    return tuple(sub(y) for y in x)
                return sub(t)
            node._term_hook = hook
            return node
        out = []
        for i, (itx, lid) in enumerate(levels):
            out.append((ast.Name(id=names[lid], ctx=ast.Store()), term_node(itx, i), []))
        el = ast.List(elts=[term_node(E, len(levels))], ctx=ast.Load())
        out.append((target, el, list(ifs)))
        return out

    def _comp_as_loop(self, st, n, tree, kind):
        """``[f(x) for x in xs]`` where evaluating f(x) stores attributes of an object the function holds (a tracker whose
        method both updates and returns its state): the loop ``out = []; for x in xs: out.append(f(x))``, whose carried
        state the loop summary tracks - a comprehension is summarised without any."""
        gens = n.generators
        if kind not in ("list", "gen") or len(gens) != 1 or gens[0].is_async:
            return None
        names = {x.id for x in ast.walk(n.elt) if isinstance(x, ast.Name)} | {x.id for c in gens[0].ifs for x in ast.walk(c) if isinstance(x, ast.Name)}
        holders = [nm for nm in names if isinstance(self.obj(st.env.get(nm, NONE)), HInst)]
        if not holders:
            return None
        stored = self._stored_attrs([ast.Expr(value=n.elt)] + [ast.Expr(value=c) for c in gens[0].ifs])
        written = set()
        for nm in holders:
            o = self.obj(st.env[nm])
            written |= {a for a in stored if a in self._instance_written(o.cls)}
        if not written:
            return None
        k = next(self._loop)
        rn = f"__comp{k}_out"
        app = ast.Expr(value=ast.Call(func=ast.Attribute(value=ast.Name(id=rn, ctx=ast.Load()), attr="append", ctx=ast.Load()), args=[n.elt], keywords=[]))
        body = [app]
        for c in reversed(gens[0].ifs):
            body = [ast.If(test=c, body=body, orelse=[])]
        loop = ast.For(target=gens[0].target, iter=gens[0].iter, body=body, orelse=[])
        ast.copy_location(loop, n)
        ast.fix_missing_locations(loop)
        saved = {x.id: st.env.get(x.id) for x in ast.walk(gens[0].target) if isinstance(x, ast.Name)}
        st.env[rn] = self.new_list([], n, tree)
        out = self.st_For(loop, st, tree)
        live = out.live if out is not None else None
        if live is not None and live is not st:
            st.env, st.ext = live.env, live.ext
        for nm, v in saved.items():
            if v is None:
                st.env.pop(nm, None)
            else:
                st.env[nm] = v
        return st.env.pop(rn)

    def _comp(self, st, n, tree, kind):
        r0 = self._comp_as_loop(st, n, tree, kind)
        if r0 is not None:
            return r0
        gens = n.generators
        if kind in ("list", "gen") and len(gens) == 1 and isinstance(gens[0].iter, ast.Call) and isinstance(gens[0].iter.func, ast.Name) \
                and gens[0].iter.func.id == "zip" and len(gens[0].iter.args) == 2 and not gens[0].is_async:
            # a comprehension over a running fold zipped with its source is the loop that appends (see _scan_zip)
            k = next(self._loop)
            rn = f"__scan{k}_out"
            app = ast.Expr(value=ast.Call(func=ast.Attribute(value=ast.Name(id=rn, ctx=ast.Load()), attr="append", ctx=ast.Load()),
                                          args=[n.elt], keywords=[]))
            body = [app]
            for c in reversed(gens[0].ifs):
                body = [ast.If(test=c, body=body, orelse=[])]
            loop = ast.For(target=gens[0].target, iter=gens[0].iter, body=body, orelse=[])
            ast.copy_location(loop, n)
            ast.fix_missing_locations(loop)
            saved = {x.id: st.env.get(x.id) for x in ast.walk(gens[0].target) if isinstance(x, ast.Name)}
            probe = st.fork()
            probe.env[rn] = self.alloc(HList([], self.origin(n)))
            ptree: list = []
            out = self._scan_zip(loop, probe, ptree)
            if out is not None and out.live is not None:
                tree.append(("alloc", probe.env[rn], getattr(n, "lineno", None)))
                tree.extend(ptree)
                st.env, st.ext = out.live.env, out.live.ext
                for nm, v in saved.items():       # comprehension variables are local to it
                    if v is None:
                        st.env.pop(nm, None)
                    else:
                        st.env[nm] = v
                return st.env.pop(rn)
        return self._comp_rec(st, n, gens, 0, tree, kind)

    def _comp_rec(self, st, n, gens, i, tree, kind, _it=None):
        g = gens[i]
        it = self.ev(st, g.iter, tree) if _it is None else _it
        if isinstance(self.obj(it), HGen) and self.obj(it).fi is not None and self.obj(it).qualname not in self.no_fuse:
            it = self.force(it, st, tree, n)         # a comprehension over a generator consumes it
        # a generator over a small constant table is unrolled: one group of elements per table entry, in order
        elems = self._unroll_elems(it)
        if kind == "dict" and elems is not None and 0 < len(elems) <= 64 and len(gens) == 1 and not g.ifs:
            entries = []
            for el in elems:
                f = st.fork()
                self.bind_target(f, g.target, el)
                entries.append((self.ev(f, n.key, tree), self.ev(f, n.value, tree)))
            if all(is_const(k_) for k_, _ in entries):
                return ("dictlit", self.new_dict(entries, n, tree))
        if kind == "dict" and len(gens) == 1 and len(g.ifs) == 1 and isinstance(n.value, ast.Name) and isinstance(n.key, ast.Name) \
                and isinstance(g.target, ast.Tuple) and len(g.target.elts) == 2 and all(isinstance(e_, ast.Name) for e_ in g.target.elts) \
                and g.target.elts[0].id == n.key.id and g.target.elts[1].id == n.value.id \
                and isinstance(g.ifs[0], ast.Compare) and len(g.ifs[0].ops) == 1 and isinstance(g.ifs[0].ops[0], ast.IsNot) \
                and isinstance(g.ifs[0].left, ast.Name) and g.ifs[0].left.id == n.value.id \
                and isinstance(g.ifs[0].comparators[0], ast.Constant) and g.ifs[0].comparators[0].value is None \
                and it[0] == "call" and it[1] == ".items" and len(it[2]) == 1 and isinstance(self.obj(it[2][0]), HDict):
            if self._dict_mutated(it[2][0], tree):
                # entries were also stored after the display (``d[k] = v`` under conditions): the filtered copy is "all of d's
                # final entries, each present only when its value is not None" - queries read it through d's history
                r_ = self.new_dict([("**", it[2][0])], n, tree)
                self.obj(r_).dropnone_all = True
                return ("dictlit", r_)
            # ``{k: v for k, v in d.items() if v is not None}``: d's own entries (whatever their keys), each present only
            # when its value is not None
            d0 = self.obj(it[2][0])
            return ("dictlit", self.new_dict([(e[0], e[1]) if e[0] == "**" else (e[0], ("dropnone", e[1])) for e in d0.entries], n, tree))
        if kind == "dict" and elems is not None and len(elems) <= 64 and len(gens) == 1 and len(g.ifs) == 1 and isinstance(n.value, ast.Name) \
                and isinstance(g.ifs[0], ast.Compare) and len(g.ifs[0].ops) == 1 and isinstance(g.ifs[0].ops[0], ast.IsNot) \
                and isinstance(g.ifs[0].left, ast.Name) and g.ifs[0].left.id == n.value.id \
                and isinstance(g.ifs[0].comparators[0], ast.Constant) and g.ifs[0].comparators[0].value is None:
            # ``{k: v for k, v in d.items() if v is not None}`` over a dictionary of known keys: the same entries, each
            # present only when its value is not None
            entries = []
            for el in elems:
                f = st.fork()
                self.bind_target(f, g.target, el)
                entries.append((self.ev(f, n.key, tree), ("dropnone", self.ev(f, n.value, tree))))
            if all(is_const(k_) for k_, _ in entries):
                return ("dictlit", self.new_dict(entries, n, tree))
        if kind != "dict" and elems is not None and 0 < len(elems) <= 16 and not getattr(self.obj(it), "dirty", False):
            segs = []
            ok = True
            for el in elems:
                f = st.fork()
                self.bind_target(f, g.target, el)
                conds = [self.ev(f, c, tree) for c in g.ifs]
                if any(not is_const(c) for c in conds):
                    ok = False
                    break
                if not all(bool(c[1]) for c in conds):
                    continue
                if i + 1 < len(gens):
                    segs.append(("s", self._comp_rec(f, n, gens, i + 1, tree, kind)))
                else:
                    segs.append(("e", self.ev(f, n.elt, tree)))
            if ok:
                return self.new_list(segs, n, tree)
        if kind in ("list", "gen") and self._known_empty(it, tree):
            return self.new_list([], n, tree)
        ns = self._nest_source(it) if not g.is_async else None
        if ns is not None:
            # a comprehension over a list that nested generators made: the same generators again, then this one's element
            trip = self._nest_rewrite(ns[0], ns[1], g.target, g.ifs)
            gens2 = list(gens[:i]) + [ast.comprehension(target=t_, iter=i_, ifs=f_, is_async=0) for t_, i_, f_ in trip] + list(gens[i + 1:])
            for g2 in gens2:
                ast.fix_missing_locations(ast.copy_location(g2, g) if not hasattr(g2, "lineno") else g2)
                for x in ast.walk(g2):
                    if not hasattr(x, "lineno"):
                        ast.copy_location(x, n)
            return self._comp_rec(st, n, gens2, i, tree, kind, _it=ns[0][0][0])
        lid = next(self._loop)
        f = st.fork()
        ms = self._map_source(it)
        if ms is not None:
            it = ms[0]
            self.bind_target(f, g.target, self._subst_loop(ms[1], ms[2], lid), lid, it)
        else:
            self.bind_target(f, g.target, ("elem", lid), lid, it)
        sub: list = []
        conds = tuple(self.ev(f, c, sub) for c in g.ifs)
        info = {"id": lid, "kind": "comp", "iter": it, "conds": conds, "line": n.lineno, "carried": {}}
        self.loops[lid] = info
        if i + 1 < len(gens):
            inner = self._comp_rec(f, n, gens, i + 1, sub, kind)
            segs = [("s", inner)]
        elif kind == "dict":
            k = self.ev(f, n.key, sub)
            v = self.ev(f, n.value, sub)
            segs = [("e", ("tuple", (k, v)))]
        else:
            segs = [("e", self.ev(f, n.elt, sub))]
        tree.append(("loop", lid, sub))
        # attribute stores inside comprehensions are not expected; keep outer state
        return self.new_list([("loop", lid, segs)], n, tree)

    def ev_ListComp(self, st, n, tree):
        return self._comp(st, n, tree, "list")

    def ev_GeneratorExp(self, st, n, tree):
        return self._comp(st, n, tree, "gen")

    def ev_SetComp(self, st, n, tree):
        return ("call", "set", (self._comp(st, n, tree, "set"),), ())

    def ev_DictComp(self, st, n, tree):
        r = self._comp(st, n, tree, "dict")
        if r[0] == "dictlit":
            return r[1]
        return ("call", "dict", (r,), ())

    def bind_target(self, st: State, tgt: ast.expr, value, lid=None, iter_term=None):
        if isinstance(tgt, ast.Name):
            if lid is not None and iter_term is not None and iter_term[0] == "call" and iter_term[1] == "enumerate" and value == ("elem", lid):
                # ``for pair in enumerate(xs)``: the pair of position and element (as in ``for n, x in enumerate(xs)``)
                value = ("tuple", (("idx", lid), ("elem", lid)))
            st.env[tgt.id] = value
        elif isinstance(tgt, (ast.Tuple, ast.List)) and isinstance(self.obj(value), HGen) and self.obj(value).fi is not None:
            # unpacking consumes the generator
            self.bind_target(st, tgt, self.force(value, st, self._scratch_tree(), None), lid, iter_term)
        elif isinstance(tgt, (ast.Tuple, ast.List)) and any(isinstance(e, ast.Starred) for e in tgt.elts):
            # ``first, *rest = xs`` / ``*init, last = xs``
            k = next(i for i, e in enumerate(tgt.elts) if isinstance(e, ast.Starred))
            after = len(tgt.elts) - k - 1
            for i, e in enumerate(tgt.elts[:k]):
                self.bind_target(st, e, self.get_item(st, value, const(i)))
            self.bind_target(st, tgt.elts[k].value, self.get_slice(st, value, const(k), const(-after) if after else NONE))
            for j, e in enumerate(tgt.elts[k + 1:]):
                self.bind_target(st, e, self.get_item(st, value, const(j - after)))
        elif isinstance(tgt, (ast.Tuple, ast.List)):
            # ``for n, x in enumerate(xs)``
            if lid is not None and iter_term is not None and iter_term[0] == "call" and iter_term[1] == "enumerate" \
                    and len(tgt.elts) == 2 and value == ("elem", lid):
                self.bind_target(st, tgt.elts[0], ("idx", lid))
                self.bind_target(st, tgt.elts[1], ("elem", lid))
                return
            if value[0] == "tuple" and len(value[1]) == len(tgt.elts):
                for e, v in zip(tgt.elts, value[1]):
                    self.bind_target(st, e, v)
                return
            for i, e in enumerate(tgt.elts):
                self.bind_target(st, e, self.get_item(st, value, const(i)))
        elif isinstance(tgt, ast.Starred):
            self.bind_target(st, tgt.value, value)
        # attribute / subscript targets are handled by assign()

    # -- calls --------------------------------------------------------------------------
    MUTATORS = {"append", "extend", "insert", "pop", "remove", "clear", "sort", "reverse", "update", "setdefault",
                "popitem", "appendleft", "extendleft", "popleft", "add", "discard", "rotate", "__setitem__", "__delitem__"}

    def ev_Call(self, st, n, tree):
        # super() is resolved lexically
        if isinstance(n.func, ast.Name) and n.func.id == "super" and not n.args:
            act = self.stack[-1]
            selft = st.env.get(act.fi.params()[0]) if act.fi and act.fi.params() else None
            cls = self.type_of(selft) if selft is not None else None
            owner = act.fi.cls if act.fi else None
            if cls is not None and owner is not None:
                return ("super", cls.qualname, owner.qualname, selft)
            return ("opaque", "super()")
        if isinstance(n.func, ast.Name) and n.func.id in ("any", "all") and len(n.args) == 1 and not n.keywords \
                and isinstance(n.args[0], (ast.GeneratorExp, ast.ListComp)) and len(n.args[0].generators) == 1 and not n.args[0].generators[0].ifs \
                and n.func.id not in st.env:
            r = self._ev_quantifier(st, n, tree)
            if r is not None:
                return r
        f = self.ev(st, n.func, tree)
        args = []
        for a in n.args:
            if isinstance(a, ast.Starred):
                v = self.ev(st, a.value, tree)
                if v[0] == "tuple":
                    args.extend(v[1])
                else:
                    o = self.obj(v)
                    if isinstance(o, HList) and all(s[0] == "e" for s in o.segs):
                        args.extend(s[1] for s in o.segs)
                    else:
                        args.append(("star", v))
            else:
                args.append(self.ev(st, a, tree))
        kwargs = {}
        for k in n.keywords:
            v = self.ev(st, k.value, tree)
            if k.arg is None:
                kwargs["**"] = v
            else:
                kwargs[k.arg] = v
        return self.apply(st, f, args, kwargs, n, tree)

    def apply(self, st, f, args, kwargs, n, tree):
        k = f[0]
        line = getattr(n, "lineno", None)
        if k == "cond":
            # the callee is chosen by a condition: each alternative runs only under its branch
            c = f[1]
            va, sa, fa = self._branch(st, c, lambda s, t: self.apply(s, f[2], args, kwargs, n, t))
            vb, sb, fb = self._branch(st, mk_not(c), lambda s, t: self.apply(s, f[3], args, kwargs, n, t))
            self._absorb(st, c, fa, sa, tree, line, sb, fb)
            return mk_cond(c, va, vb)
        if k == "bound":
            fi = self.facts.func(f[2])
            return self.call_function(st, fi, [f[1]] + args, kwargs, n, tree)
        if k == "func":
            fi = self.facts.func(f[1])
            return self.call_function(st, fi, args, kwargs, n, tree)
        if k == "class":
            return self.instantiate(st, self.facts.cls(f[1]), args, kwargs, n, tree)
        if k == "closure":
            fi, cenv = self.closures[f[1]]
            return self.call_function(st, fi, args, kwargs, n, tree, closure_env=cenv)
        if k == "lambda" and len(f) > 3:
            fi, cenv = self.closures[f[3]]
            return self.call_function(st, fi, args, kwargs, n, tree, closure_env=cenv)
        if k == "rawfunc":
            return self.call_function(st, self._raw_funcs[f[2]], args, kwargs, n, tree, raw=True)
        if k == "ntreplace" and not args:
            cls = self.facts.cls(f[2])
            names = cls.nt_fields()
            vals = list(f[1][1])
            for nm, v in kwargs.items():
                if nm in names:
                    vals[names.index(nm)] = v
            t = ("tuple", tuple(vals))
            self.types[t] = cls
            return t
        if k == "partial":
            kw2 = dict(f[3])
            kw2.update(kwargs)
            return self.apply(st, f[1], list(f[2]) + list(args), kw2, n, tree)
        if k == "attrgetter" and len(args) == 1 and isinstance(f[1], str):
            return self.get_attr(st, args[0], f[1], n, tree)
        if k == "attrgetter" and len(args) == 1 and isinstance(f[1], tuple):
            return ("tuple", tuple(self.get_attr(st, args[0], x, n, tree) for x in f[1]))
        if k == "itemgetter" and len(args) == 1:
            if isinstance(f[1], tuple):
                return ("tuple", tuple(self.get_item(st, args[0], const(x)) for x in f[1]))
            return self.get_item(st, args[0], const(f[1]))
        if k == "propobj":
            return ("opaque", "property object called")
        if k == "builtin":
            pre = self._prelude_for(f[1], args, kwargs)
            if pre is not None:
                return self.call_function(st, self.facts.prelude().functions[pre[0]], pre[1], {}, n, tree)
            if f[1] == "next" and args and isinstance(self.obj(args[0]), HGen) and self.obj(args[0]).qualname == "gsa_prelude.p_filter":
                return self.call_builtin(st, f[1], [args[0]] + self.force_args(st, args[1:], tree, n), kwargs, n, tree)
            return self.call_builtin(st, f[1], self.force_args(st, args, tree, n), kwargs, n, tree)
        if k == "extname":
            nm = f[1]
            if nm == "itertools.islice" and len(args) == 3 and args[1] == const(1) and is_const(args[2], None) and not kwargs:
                g0 = self.obj(args[0])
                if isinstance(g0, HGen) and g0.qualname == "gsa_prelude.p_accumulate_initial" and g0.forced is None \
                        and not getattr(g0, "consumed", False):
                    # a running fold without its initial element: every element is the fold after that input
                    g0.consumed = True
                    return self.call_function(st, self.facts.prelude().functions["p_scan_inclusive"], list(g0.args), {}, n, tree)
            args = self.force_args(st, args, tree, n)
            if nm in ("typing.cast", "typing_extensions.cast") and len(args) == 2:
                self._note_cast(n, args[1])
                return args[1]
            if nm == "itertools.chain.from_iterable" and not kwargs and len(args) == 1:
                o_ = self.obj(args[0])
                if isinstance(o_, HList) and not getattr(o_, "dirty", False) and len(o_.segs) == 1 and o_.segs[0][0] == "loop" \
                        and len(o_.segs[0][2]) == 1 and o_.segs[0][2][0][0] == "e" and isinstance(self.obj(o_.segs[0][2][0][1]), HList) \
                        and not self.loops.get(o_.segs[0][1], {}).get("conds"):
                    # the elements of the inner sequences, in order: what the nested comprehension would have made
                    r_ = self.new_list([("loop", o_.segs[0][1], [("s", o_.segs[0][2][0][1])])], n, tree)
                    self.obj(r_).one_shot = "itertools.chain"
                    return r_
            pre = self._prelude_for(nm, args, kwargs)
            if pre is not None:
                return self.call_function(st, self.facts.prelude().functions[pre[0]], pre[1], {}, n, tree)
            if nm in ("copy.copy", "dataclasses.replace") and len(args) == 1 and isinstance(self.obj(args[0]), HInst) and (nm == "dataclasses.replace" or not kwargs) \
                    and self.obj(args[0]).cls.find_method("__copy__") is None and (nm == "copy.copy" or self.obj(args[0]).cls.is_dataclass):
                # a shallow copy of an object of the package: a new object whose attributes hold the very same values (lists and
                # dictionaries are shared with the original); ``replace`` rebinds the named fields on the copy
                src_ = args[0]
                cls_ = self.obj(src_).cls
                if nm == "dataclasses.replace":
                    names_ = [k for c in reversed(cls_.mro()) for k in c.annotations]
                    noinit = False
                    for fnm in names_:
                        ca = cls_.find_class_attr(fnm)
                        if ca is not None and isinstance(ca[1], ast.Call) and any(k.arg == "init" and isinstance(k.value, ast.Constant) and k.value.value is False
                                                                                  for k in ca[1].keywords):
                            noinit = True       # such a field is made anew by replace(): go through the constructor below
                    if not noinit and all(k in names_ for k in kwargs) and cls_.find_method("__post_init__") is None and cls_.find_method("__init__") is None:
                        r_ = self.alloc(HInst(cls_, self.origin(n)))
                        for (b_, a_), v_ in list(st.ext.items()):
                            if b_ == src_:
                                st.ext[(r_, a_)] = v_
                        for k, v in kwargs.items():
                            st.ext[(r_, k)] = v
                        return r_
                else:
                    r_ = self.alloc(HInst(cls_, self.origin(n)))
                    for (b_, a_), v_ in list(st.ext.items()):
                        if b_ == src_:
                            st.ext[(r_, a_)] = v_
                    return r_
            if nm == "dataclasses.replace" and len(args) == 1 and args[0][0] == "tuple" and args[0] in self.types and self.types[args[0]].is_namedtuple:
                cls_ = self.types[args[0]]
                names_ = cls_.nt_fields()
                vals_ = list(args[0][1])
                if all(k in names_ for k in kwargs):
                    for k, v in kwargs.items():
                        vals_[names_.index(k)] = v
                    t_ = ("tuple", tuple(vals_))
                    self.types[t_] = cls_
                    return t_
            if nm == "itertools.chain" and not kwargs:
                r_ = self.new_list([("s", a) for a in args], n, tree)
                self.obj(r_).one_shot = "itertools.chain"       # its elements in order - but they can be walked only once
                return r_
            if nm == "functools.partial" and args:
                return ("partial", args[0], tuple(args[1:]), tuple(sorted(kwargs.items())))
            if nm in ("operator.attrgetter", "operator.itemgetter") and len(args) == 1 and is_const(args[0]) and not kwargs:
                return (nm.rsplit(".", 1)[1], args[0][1])
            if nm in ("operator.attrgetter", "operator.itemgetter") and len(args) > 1 and all(is_const(a) for a in args) and not kwargs:
                return (nm.rsplit(".", 1)[1], tuple(a[1] for a in args))
            if nm in ("operator.iconcat", "operator.iadd") and len(args) == 2 and not kwargs and not is_const(args[0]) and args[0][0] != "tuple":
                # ``a += b`` as a function: a sequence on the left is extended in place and handed back
                tree.append(("mutate", self._mutated(args[0]), "extend", (args[1],), getattr(n, "lineno", None)))
                o_ = self.obj(args[0])
                if isinstance(o_, HList):
                    o_.dirty = True
                return args[0]
            if nm in ("operator.add", "operator.concat") and len(args) == 2 and not kwargs:
                la, lb = self.obj(args[0]), self.obj(args[1])
                if isinstance(la, HList) or isinstance(lb, HList):
                    return self.new_list([("s", args[0]), ("s", args[1])], n, tree)
                return self.ev_BinOp_terms("Add", args[0], args[1], n)
            if nm in ("collections.deque",) and not args and not kwargs:
                return self.new_list([], n, tree)
            if nm == "collections.defaultdict":
                return self.new_dict([], n, tree)
            if nm.startswith(("logging.", "warnings.")) and nm not in ("logging.getLogger", "logging.Logger"):
                return NONE             # diagnostics: no effect on what the library computes
            if nm in ("logging.getLogger", "logging.Logger"):
                return ("logger",)
            tree.append(("extcall", nm, tuple(args), line))
            return ("call", nm, tuple(args), tuple(sorted(kwargs.items())))
        if k == "attr":
            recv, name = f[1], f[2]
            if self._is_logger(recv):
                return NONE             # diagnostics: no effect on what the library computes
            args = self.force_args(st, args, tree, n)
            o = self.obj(recv)
            if name in self.REGEX_METHODS:
                rx = recv if recv[0] == "regex" else None
                if recv[0] == "call" and recv[1] == "re.compile" and recv[2]:
                    fl = recv[2][1] if len(recv[2]) > 1 else dict(recv[3]).get("flags", NONE)
                    rx = ("regex", recv[2][0], fl)
                if rx is not None:
                    kw2 = dict(kwargs)
                    if rx[2] != NONE:
                        kw2["flags"] = rx[2]
                    a2 = (rx[1],) + tuple(args)
                    tree.append(("extcall", "re." + name, a2, line))
                    return ("call", "re." + name, a2, tuple(sorted(kw2.items())))
            if name == "update" and isinstance(o, HDict) and len(args) == 1 and not kwargs and self._dict_update(recv, args[0], tree, line):
                return NONE
            if name == "setdefault" and len(args) == 2 and not kwargs and self._owned_store(recv) and isinstance(self.obj(args[1]), (HList, HDict)) \
                    and not getattr(self.obj(args[1]), "segs", None) and not getattr(self.obj(args[1]), "entries", None):
                # ``store.setdefault(k, [])`` on a dictionary an object creates empty for itself: the entry for k, made on
                # first use - what ``store[k]`` is when the store is a defaultdict(list)
                return ("item", recv, args[0])
            if name in self.MUTATORS:
                ob_ = self.obj(recv)
                if ob_ is not None:
                    ob_.dirty = True
                if name == "extend" and len(args) == 1:
                    args = [self._strip_or_empty(args[0])]
                tree.append(("mutate", self._mutated(recv), name, tuple(args), line))
                if name in ("pop", "popleft", "popitem", "setdefault"):
                    return ("call", "." + name, (recv,) + tuple(args), ())
                return NONE
            if name == "get" and isinstance(o, HDict) and args and all(e[0] != "**" and is_const(e[0]) for e in o.entries) \
                    and not self._dict_mutated(recv, tree):
                dflt = args[1] if len(args) > 1 else NONE
                if is_const(args[0]):
                    for e in reversed(o.entries):
                        if e[0] == args[0]:
                            return e[1]
                    return dflt
                out = dflt
                for e in reversed(o.entries):
                    out = mk_cond(("cmp", "Eq", args[0], e[0]), e[1], out)
                return out
            if name == "get" and not kwargs and len(args) in (1, 2) and is_const(args[0]) and not isinstance(o, (HList, HInst, HGen)) \
                    and not isinstance(o, HDict) and recv[0] not in ("regex", "module", "class", "extname"):
                # mapping.get(k[, d]) on a dictionary the analyser does not hold: d when k is absent, else the item
                return mk_cond(("cmp", "In", args[0], recv), ("item", recv, args[0]), args[1] if len(args) == 2 else NONE)
            if name == "copy" and not args:
                return self.new_list([("s", recv)], n) if not isinstance(o, HDict) else self.new_dict([("**", recv)], n, tree)
            if name == "format":
                return ("call", ".format", (recv,) + tuple(args), tuple(sorted(kwargs.items())))
            if name in ("start", "end", "span") and len(args) == 1 and is_const(args[0], 0) and not kwargs:
                args = []           # m.start(0) is m.start()
            if name == "group" and len(args) > 1 and not kwargs:
                return ("tuple", tuple(("call", ".group", (recv, a), ()) for a in args))
            tree.append(("mcall", name, recv, tuple(args), line))
            return ("call", "." + name, (recv,) + tuple(args), tuple(sorted(kwargs.items())))
        if k == "super" or k == "opaque":
            return ("opaque", ast.unparse(n))
        # calling a value we cannot resolve (dict-dispatched callable, lambda, parameter)
        tree.append(("dyncall", f, tuple(args), line))
        return ("call", "<dyn>", (f,) + tuple(args), tuple(sorted(kwargs.items())))

    def _callable_known(self, f) -> bool:
        if isinstance(f, tuple) and f and f[0] == "builtin" and f[1] in ("str", "int", "len", "bool", "repr"):
            return True
        if isinstance(f, tuple) and f and f[0] == "extname" and f[1] in ("re.escape", "operator.add", "operator.concat", "operator.iconcat", "operator.iadd"):
            return True
        return isinstance(f, tuple) and bool(f) and f[0] in ("func", "bound", "closure", "lambda", "partial", "attrgetter", "itemgetter", "class") \
            and (f[0] != "lambda" or len(f) > 3)

    def _prelude_for(self, name, args, kwargs):
        """(prelude function name, positional args) when a library call is modelled by its Python definition."""
        kw = dict(kwargs)
        if name in ("any", "all") and len(args) == 1 and not kw:
            return ("p_" + name, list(args))
        if name == "map" and not kw and len(args) == 2 and self._callable_known(args[0]):
            return ("p_map", list(args))
        if name == "map" and not kw and len(args) == 3 and self._callable_known(args[0]):
            return ("p_map2", list(args))
        if name == "filter" and not kw and len(args) == 2:
            if is_const(args[0], None):
                return ("p_filter_none", [args[1]])
            if self._callable_known(args[0]):
                return ("p_filter", list(args))
        if name == "itertools.starmap" and not kw and len(args) == 2 and self._callable_known(args[0]):
            return ("p_starmap", list(args))
        if name == "functools.reduce" and not kw and len(args) == 3 and self._callable_known(args[0]):
            return ("p_reduce", list(args))
        if name == "functools.reduce" and not kw and len(args) == 2 and self._callable_known(args[0]) \
                and (args[1][0] == "tuple" or isinstance(self.obj(args[1]), HList)):
            return ("p_reduce_seq", list(args))
        if name == "itertools.accumulate" and len(args) in (1, 2) and "initial" in kw and set(kw) <= {"initial", "func"}:
            fn = args[1] if len(args) == 2 else kw.get("func", ("extname", "operator.add"))
            if fn is not None and self._callable_known(fn):
                return ("p_accumulate_initial", [args[0], fn, kw["initial"]])
        # takewhile / dropwhile stay symbolic: the rules that meet them (trailing-run trims) read them as such
        if name == "itertools.chain.from_iterable" and not kw and len(args) == 1:
            return ("p_chain_from_iterable", list(args))
        return None

    def call_builtin(self, st, name, args, kwargs, n, tree):
        line = getattr(n, "lineno", None)
        if name in self.builtin_hooks:
            return self.builtin_hooks[name](self, st, args, kwargs, n, tree)
        if name in ("list", "tuple") and len(args) <= 1 and name == "list":
            return self.new_list([("s", args[0])] if args else [], n, tree)
        if name == "tuple" and len(args) == 1:
            return ("call", "tuple", tuple(args), ())
        if name == "dict":
            ents = [("**", args[0])] if args else []
            ents += [(const(k), v) for k, v in kwargs.items() if k != "**"]
            return self.new_dict(ents, n, tree)
        if name == "cast" and len(args) == 2:
            self._note_cast(n, args[1])
            return args[1]
        if name == "isinstance" and len(args) == 2:
            r = self._isinstance(args[0], args[1])
            if r is not None:
                return const(r)
        if name == "property" and len(args) >= 1:
            return ("propobj", args[0])
        if name == "getattr" and len(args) in (2, 3) and is_const(args[1]) and isinstance(args[1][1], str):
            return self.get_attr(st, args[0], args[1][1], n, tree)
        if name == "deque" and not kwargs:
            return self.new_list([("s", a) for a in args], n, tree)
        if name in ("print",):
            tree.append(("extcall", name, tuple(args), line))
            return NONE
        if name == "open":
            tree.append(("extcall", "open", tuple(args) + tuple(("kw", k, v) for k, v in sorted(kwargs.items())), line))
            return ("call", "open", tuple(args), tuple(sorted(kwargs.items())))
        if name == "next":
            tree.append(("extcall", "next", tuple(args), line))
            # ``next(filter(p, xs), default)``: the first element satisfying p, else the default
            g0 = self.obj(args[0]) if args else None
            if isinstance(g0, HGen) and g0.qualname == "gsa_prelude.p_filter" and len(g0.args) == 2 and g0.forced is None \
                    and not getattr(g0, "consumed", False):
                g0.consumed = True
                pred, xs = g0.args
                lid = next(self._loop)
                sub: list = []
                f = st.fork()
                c = self.apply(f, pred, [("elem", lid)], {}, n, sub)
                self.loops[lid] = {"id": lid, "kind": "comp", "iter": xs, "conds": (c,), "line": line, "carried": {}}
                tree.append(("loop", lid, sub))
                return ("firstof", lid, ("elem", lid), args[1] if len(args) > 1 else ("raises", "StopIteration"))
            # ``next(iter(xs), default)``: the first element of a sequence, else the default
            if args and args[0][0] == "call" and args[0][1] == "iter" and len(args[0][2]) == 1 and len(args) == 2:
                xs = args[0][2][0]
                return mk_cond(xs, self.get_item(st, xs, const(0)), args[1])
            # ``next((e for x in xs if c), default)``: the first element of a filtered scan, else the default
            o = self.obj(args[0]) if args else None
            if isinstance(o, HList) and len(o.segs) == 1 and o.segs[0][0] == "loop" and len(o.segs[0]) > 2 \
                    and len(o.segs[0][-1]) == 1 and o.segs[0][-1][0][0] == "e" and self.loops.get(o.segs[0][1], {}).get("kind") == "comp":
                return ("firstof", o.segs[0][1], o.segs[0][-1][0][1], args[1] if len(args) > 1 else ("raises", "StopIteration"))
        return ("call", name, tuple(args), tuple(sorted(kwargs.items())))

    def _dict_mutated(self, ref, tree) -> bool:
        # class/module level tables are never written by the package (checked by C15.shared); local dicts: look at the tree so far
        o = self.obj(ref)
        if o is not None and o.origin[2] == 0:
            return False
        def walk(t):
            for n in t:
                if n[0] in ("setitem", "mutate") and n[1] == ref:
                    return True
                if n[0] == "if" and (walk(n[2]) or walk(n[3])):
                    return True
                if n[0] in ("loop", "call") and walk(n[2]):
                    return True
            return False
        return walk(tree)

    def _note_cast(self, n, term) -> None:
        if isinstance(n, ast.Call) and n.args and isinstance(term, tuple) and term[0] not in ("const", "ref"):
            act = self.stack[-1]
            if act.fi is not None:
                c = self.facts.annotation_class(act.fi.module, n.args[0])
                if c is not None and not c.is_typeddict:
                    self.types.setdefault(term, c)

    def instantiate(self, st, cls: ClassInfo, args, kwargs, n, tree):
        if cls.is_typeddict or any(c.is_typeddict for c in cls.mro()):
            return self.new_dict([(const(k), v) for k, v in kwargs.items()], n, tree)
        if cls.is_namedtuple and cls.find_method("__new__") is None:
            # an immutable record: a tuple value whose positions have names
            names = cls.nt_fields()
            vals = list(args[:len(names)])
            for nm in names[len(vals):]:
                if nm in kwargs:
                    vals.append(kwargs[nm])
                else:
                    ca = cls.find_class_attr(nm)
                    dv = self._eval_class_attr(ca[0], nm, ca[1]) if ca is not None else None
                    vals.append(dv if dv is not None else ("opaque", f"default of {cls.name}.{nm}"))
            t = ("tuple", tuple(vals))
            self.types[t] = cls
            return t
        ref = self.alloc(HInst(cls, self.origin(n)))
        init = cls.find_method("__init__")
        if init is not None:
            self.call_function(st, init, [ref] + args, kwargs, n, tree)
        elif cls.is_dataclass:
            names = [k for c in reversed(cls.mro()) for k in c.annotations]
            given = dict(zip(names, args))
            given.update(kwargs)
            for nm in names:
                if nm in given:
                    st.ext[(ref, nm)] = given[nm]
                    continue
                # a declared default: a constant, or ``field(default=..., default_factory=...)`` (the factory runs per instance)
                ca = cls.find_class_attr(nm)
                if ca is None:
                    continue
                dv = ca[1]
                if isinstance(dv, ast.Call) and getattr(dv.func, "id", getattr(dv.func, "attr", "")) == "field":
                    kw = {k.arg: k.value for k in dv.keywords}
                    if "default_factory" in kw:
                        fe = kw["default_factory"]
                        dummy = FuncInfo(ca[0].module, None, ast.parse("def _class_body(): pass").body[0])
                        caller_ = self.stack[-1] if self.stack else None
                        self.stack.append(Activation(dummy, len(self.stack)))
                        self.stack[-1].origin_as = getattr(caller_, "origin_as", None) or caller_
                        try:
                            call = ast.Call(func=fe, args=[], keywords=[])
                            ast.copy_location(call, dv)
                            ast.fix_missing_locations(call)
                            st.ext[(ref, nm)] = self.ev(State(ext=st.ext), call, tree)
                        finally:
                            self.stack.pop()
                    elif "default" in kw:
                        v0 = self._eval_class_attr(ca[0], nm + "#default", kw["default"])
                        if v0 is not None:
                            st.ext[(ref, nm)] = v0
                else:
                    v0 = self._eval_class_attr(ca[0], nm, dv)
                    if v0 is not None:
                        st.ext[(ref, nm)] = v0
            post = cls.find_method("__post_init__")
            if post is not None:
                self.call_function(st, post, [ref], {}, n, tree)
        return ref

    def run_generator(self, g: HGen, st: State, tree: list, hook, node=None, carry=None):
        """Execute a generator's body now; every ``yield v`` calls hook(v, generator state, current tree, line)."""
        fi = g.fi
        callee = State(env=dict(g.env or {}), ext=st.ext)
        for k, v in (carry or {}).items():
            callee.env[k] = v
        for k, v in st.env.items():
            if "^" in k:
                callee.env.setdefault(k, v)
        act = Activation(fi, len(self.stack))
        if len(self.stack) >= self.MAX_DEPTH or sum(1 for a in self.stack if a.fi is fi) >= self.MAX_REENTRY:
            tree.append(("extcall", g.qualname, tuple(g.args), getattr(node, "lineno", None)))
            return None
        self.stack.append(act)
        self.yield_hooks[act.id] = hook
        sub: list = []
        try:
            out = self.exec_block(fi.node.body, callee, sub)
        finally:
            self.stack.pop()
            self.yield_hooks.pop(act.id, None)
        g.tree = sub
        if out.live is not None and out.ret is not None:
            exits = merge_states(out.retc if out.retc is not None else ("returned", act.id), out.ret, out.live)
        else:
            exits = out.live or out.ret
        if exits is not None:
            st.ext = exits.ext
            for k, v in exits.env.items():
                if "^" in k and k in st.env:
                    st.env[k] = v
        tree.append(("call", g.qualname, sub, getattr(node, "lineno", None), act.id))
        return exits

    def force(self, ref, st: State, tree: list, node=None):
        """Materialise a lazy generator into a list object (its elements in production order)."""
        g = self.obj(ref)
        if not isinstance(g, HGen) or g.fi is None:
            return ref
        if g.forced is not None:
            return g.forced
        L = self.new_list([], node, tree)
        self.obj(L).materialised = True      # the analyser's own list of the generator's elements, not a program object
        g.forced = L

        def hook(v, gst, gtree, line, is_from=False):
            gtree.append(("mutate", self._mutated(L), "extend" if is_from else "append", (v,), line))
        self.run_generator(g, st, tree, hook, node)
        self._straighten(L, g.tree)
        return L

    def _straighten(self, L, gtree) -> None:
        """A materialised generator whose yields all happen unconditionally, in a fixed order (an unrolled loop, a sequence of
        yield statements): its elements become the list's literal elements."""
        vals = []

        def scan(nodes):
            for n in nodes:
                if n[0] == "mutate" and n[1] == L:
                    if n[2] != "append":
                        return False
                    vals.append(n[3][0])
                elif n[0] == "call":
                    if not scan(n[2]):
                        return False
                elif n[0] in ("if", "loop", "try"):
                    if any(m[0] == "mutate" and m[1] == L for m, _ in _iter_nodes(n[2] if n[0] != "try" else n[1])) or \
                            (n[0] == "if" and any(m[0] == "mutate" and m[1] == L for m, _ in _iter_nodes(n[3]))):
                        return False
            return True

        def strip(nodes):
            nodes[:] = [n for n in nodes if not (n[0] == "mutate" and n[1] == L)]
            for n in nodes:
                if n[0] == "call":
                    strip(n[2])

        if gtree is not None and scan(gtree) and vals:
            strip(gtree)
            o = self.obj(L)
            o.segs = [("e", v) for v in vals]
            o.dirty = False
            return
        # one unconditional yield per round of a single loop (a map): the list is that loop's elements
        if gtree is None:
            return
        def walk(nodes, ctx):
            for x in nodes:
                yield x, ctx
                if x[0] == "if":
                    yield from walk(x[2], ctx + (x,))
                    yield from walk(x[3], ctx + (x,))
                elif x[0] in ("loop", "call"):
                    yield from walk(x[2], ctx + (x,))
                elif x[0] == "try":
                    yield from walk(x[1], ctx + (x,))
                    for h in x[2]:
                        yield from walk(h[2], ctx + (x,))
        sites = [(m, ctx) for m, ctx in walk(gtree, ()) if m[0] == "mutate" and m[1] == L]
        if len(sites) != 1 or sites[0][0][2] != "append":
            return
        m, ctx = sites[0]
        inner = [c for c in ctx if c[0] != "call"]
        if len(inner) != 1 or inner[0][0] != "loop":
            return
        l0 = inner[0][1]
        info = self.loops.get(l0, {})
        if info.get("kind") != "for" or info.get("conds") or "break_env" in info or info.get("iter") is None:
            return
        loop_node = next((x for x, _ in _iter_nodes(gtree) if x[0] == "loop" and x[1] == l0), None)
        if loop_node is None or any(x[0] in ("return", "raise", "break", "continue", "yield", "yieldfrom") for x, _ in _iter_nodes(loop_node[2])):
            return

        def strip1(nodes):
            nodes[:] = [x for x in nodes if x is not m]
            for x in nodes:
                if x[0] in ("call", "loop"):
                    strip1(x[2])
        strip1(gtree)
        o = self.obj(L)
        o.segs = [("loop", l0, [("e", m[3][0])])]
        o.dirty = False
        o.map_loop = l0

    def force_args(self, st, args, tree, node):
        out = []
        for a in args:
            if isinstance(a, tuple) and a and a[0] == "ref" and isinstance(self.obj(a), HGen) and self.obj(a).fi is not None \
                    and self.obj(a).qualname not in self.no_fuse:
                out.append(self.force(a, st, tree, node))
            else:
                out.append(a)
        return out

    def is_generator(self, fi: FuncInfo) -> bool:
        from .astutil import walk_no_nested_defs
        return any(isinstance(x, (ast.Yield, ast.YieldFrom)) for x in walk_no_nested_defs(fi.node))

    def _decorated(self, fi: FuncInfo, n=None):
        """What the name of a function decorated with functions of the repository is bound to: ``d1(d2(f))``; None when the
        function has no such decorators."""
        cache = self.__dict__.setdefault("_deco_cache", {})
        if id(fi) in cache:
            return cache[id(fi)]
        cache[id(fi)] = None
        decos = []
        for d in fi.node.decorator_list:
            if isinstance(d, ast.Name):
                r = self.facts.resolve_name(fi.module, d.id)
                if r is not None and r[0] == "func":
                    decos.append(r[1])
        if decos:
            f = ("rawfunc", fi.qualname, id(fi))
            self.__dict__.setdefault("_raw_funcs", {})[id(fi)] = fi
            dummy = FuncInfo(fi.module, None, ast.parse("def _module_body(): pass").body[0])
            self.stack.append(Activation(dummy, len(self.stack)))
            try:
                for d in reversed(decos):
                    f = self.call_function(State(), d, [f], {}, n, [])
            finally:
                self.stack.pop()
            cache[id(fi)] = f
        return cache[id(fi)]

    def call_function(self, st: State, fi: FuncInfo, args, kwargs, n, tree, closure_env=None, raw=False):
        if not raw and fi.node.decorator_list and closure_env is None and self.intrinsics.get(fi.qualname) is None:
            w = self._decorated(fi, n)
            if w is not None and w[0] != "rawfunc":
                return self.apply(st, w, list(args), dict(kwargs), n, tree)
        q = fi.qualname
        line = getattr(n, "lineno", None)
        if self.stack and self.stack[-1].fi is not None:
            self.call_log.append((self.stack[-1].fi.qualname, q, line))
        h = self.intrinsics.get(q)
        if h is not None:
            return h(self, st, fi, args, kwargs, n, tree)
        if len(self.stack) >= self.MAX_DEPTH or sum(1 for a in self.stack if a.fi is fi) >= self.MAX_REENTRY:
            tree.append(("extcall", q, tuple(args), line))
            return ("call", q, tuple(args), ())
        shape = self._shape_intrinsic(fi)
        if shape is not None:
            return shape(st, args, n, tree)
        a = fi.node.args
        params = a.posonlyargs + a.args
        callee = State(env=closure_env, ext=st.ext)
        # defaults
        defaults = [None] * (len(params) - len(a.defaults)) + list(a.defaults)
        pos = list(args)
        stars = [i for i, x in enumerate(pos) if isinstance(x, tuple) and x and x[0] == "star"]
        if len(stars) == 1 and a.vararg is None and not a.defaults and not kwargs and len(pos) - 1 <= len(params):
            # ``f(*xs)`` into a callee that takes a fixed number of positional arguments: xs has exactly the missing ones
            i0 = stars[0]
            need = len(params) - (len(pos) - 1)
            pos[i0:i0 + 1] = [self.get_item(st, pos[i0][1], const(j)) for j in range(need)]
        for i, p in enumerate(params):
            if i < len(pos) and not (isinstance(pos[i], tuple) and pos[i][0] == "star"):
                callee.env[p.arg] = pos[i]
                if p.annotation is not None and isinstance(pos[i], tuple) and pos[i] and pos[i][0] in ("elem", "item", "attr", "firstof") \
                        and self.type_of(pos[i]) is None:
                    # the declared parameter type tells what an otherwise untyped argument is (an element of a list,
                    # a looked-up item): its methods resolve as for a value of that class
                    ci = self.facts.annotation_class(fi.module, p.annotation)
                    if ci is not None and not ci.is_typeddict:
                        self.types[pos[i]] = ci
            elif p.arg in kwargs:
                callee.env[p.arg] = kwargs[p.arg]
            elif defaults[i] is not None:
                callee.env[p.arg] = self._eval_default(fi, defaults[i], closure_env)
            else:
                callee.env[p.arg] = ("param?", q, p.arg)
        for p, d in zip(a.kwonlyargs, a.kw_defaults):
            if p.arg in kwargs:
                callee.env[p.arg] = kwargs[p.arg]
            elif d is not None:
                callee.env[p.arg] = self._eval_default(fi, d, closure_env)
        if a.vararg is not None:
            callee.env[a.vararg.arg] = ("tuple", tuple(pos[len(params):]))
        if self.is_generator(fi):
            # lazy: the body runs when the generator is consumed (materialised by list()/extend()/join ..., fused into a for loop)
            return self.alloc(HGen(q, None, self.origin(n), [callee.env.get(p.arg) for p in params], fi=fi, env=dict(callee.env)))
        act = Activation(fi, len(self.stack))
        self.stack.append(act)
        try:
            sub: list = []
            out = self.exec_block(fi.node.body, callee, sub)
        finally:
            self.stack.pop()
        # function result and the caller-visible state (attribute stores)
        rc = out.retc if out.retc is not None else ("returned", act.id)
        exits = merge_states(rc, out.ret, out.live) if (out.live and out.ret) else (out.live or out.ret)
        if out.live is not None and out.ret is not None:
            rv = mk_cond(rc, out.ret.env.get("__ret__", NONE), NONE)
        elif out.ret is not None:
            rv = out.ret.env.get("__ret__", NONE)
        else:
            rv = NONE
        if exits is not None:
            st.ext = exits.ext
        tree.append(("call", q, sub, line, act.id))
        if isinstance(rv, tuple) and rv[0] not in ("const", "ref") and fi.node.returns is not None:
            c = self.facts.annotation_class(fi.module, fi.node.returns)
            if c is not None and not c.is_typeddict:
                self.types.setdefault(rv, c)
        return rv

    def _eval_default(self, fi: FuncInfo, d: ast.expr, closure_env=None):
        if isinstance(d, ast.Name):
            if closure_env and d.id in closure_env:
                return closure_env[d.id]        # ``lambda m, v=v: ...``: bound where the function was made
            r = self.facts.resolve_name(fi.module, d.id)
            if r is not None and r[0] == "global":
                gv = r[1].globals.get(r[2])
                if isinstance(gv, ast.Constant) and not self._global_rebound(r[1], r[2]):
                    return const(gv.value)      # a named constant
        try:
            return const(ast.literal_eval(d)) if not isinstance(d, (ast.List, ast.Dict, ast.Set, ast.Call)) else ("mutable_default", fi.qualname, ast.unparse(d))
        except Exception:
            return ("opaque", ast.unparse(d))

    def _shape_intrinsic(self, fi: FuncInfo):
        """Recognise by *shape*: ``return {k: v for k, v in X.items() if v is not None}`` (reject-Nones)."""
        from .astutil import body_wo_doc
        b = body_wo_doc(fi.node)
        if len(b) == 1 and isinstance(b[0], ast.Return) and isinstance(b[0].value, ast.DictComp):
            dc = b[0].value
            if len(dc.generators) == 1:
                g = dc.generators[0]
                it = g.iter
                if isinstance(it, ast.Call) and isinstance(it.func, ast.Attribute) and it.func.attr == "items" \
                        and isinstance(it.func.value, ast.Name) and isinstance(g.target, ast.Tuple) and len(g.target.elts) == 2 \
                        and all(isinstance(e, ast.Name) for e in g.target.elts):
                    kn, vn = g.target.elts[0].id, g.target.elts[1].id
                    if isinstance(dc.key, ast.Name) and dc.key.id == kn and isinstance(dc.value, ast.Name) and dc.value.id == vn \
                            and len(g.ifs) == 1 and ast.unparse(g.ifs[0]) == f"{vn} is not None":
                        pidx = [p for p in fi.params()].index(it.func.value.id) if it.func.value.id in fi.params() else None
                        if pidx is not None:
                            def h(st, args, n, tree, pidx=pidx):
                                d = args[pidx] if pidx < len(args) else ("opaque", "?")
                                o = self.obj(d)
                                if isinstance(o, HDict) and self._dict_mutated(d, tree):
                                    r_ = self.new_dict([("**", d)], n, tree)
                                    self.obj(r_).dropnone_all = True
                                    return r_
                                if isinstance(o, HDict):
                                    return self.new_dict([(e[0], e[1]) if e[0] == "**" else (e[0], ("dropnone", e[1])) for e in o.entries], n, tree)
                                return ("call", "reject_nones", (d,), ())
                            return h
        # loop form:  kept = {}; for k, v in X.items(): if v is not None: kept[k] = v; return kept
        if len(b) == 3 and isinstance(b[0], (ast.Assign, ast.AnnAssign)) and isinstance(b[1], ast.For) and isinstance(b[2], ast.Return):
            tgt = b[0].targets[0] if isinstance(b[0], ast.Assign) else b[0].target
            val = b[0].value
            empty = isinstance(val, ast.Dict) and not val.keys or (isinstance(val, ast.Call) and isinstance(val.func, ast.Name) and val.func.id == "dict" and not val.args and not val.keywords)
            f = b[1]
            it = f.iter
            if isinstance(tgt, ast.Name) and empty and isinstance(b[2].value, ast.Name) and b[2].value.id == tgt.id \
                    and isinstance(it, ast.Call) and isinstance(it.func, ast.Attribute) and it.func.attr == "items" and isinstance(it.func.value, ast.Name) \
                    and it.func.value.id in fi.params() and isinstance(f.target, ast.Tuple) and len(f.target.elts) == 2 \
                    and all(isinstance(e, ast.Name) for e in f.target.elts) and len(f.body) == 1 and isinstance(f.body[0], ast.If) and not f.orelse:
                kn, vn = f.target.elts[0].id, f.target.elts[1].id
                i = f.body[0]
                if ast.unparse(i.test) == f"{vn} is not None" and not i.orelse and len(i.body) == 1 and isinstance(i.body[0], ast.Assign) \
                        and ast.unparse(i.body[0]) == f"{tgt.id}[{kn}] = {vn}":
                    pidx = fi.params().index(it.func.value.id)

                    def h2(st, args, n, tree, pidx=pidx):
                        d = args[pidx] if pidx < len(args) else ("opaque", "?")
                        o = self.obj(d)
                        if isinstance(o, HDict) and self._dict_mutated(d, tree):
                            r_ = self.new_dict([("**", d)], n, tree)
                            self.obj(r_).dropnone_all = True
                            return r_
                        if isinstance(o, HDict):
                            return self.new_dict([(e[0], e[1]) if e[0] == "**" else (e[0], ("dropnone", e[1])) for e in o.entries], n, tree)
                        return ("call", "reject_nones", (d,), ())
                    return h2
        return None

    # -- statements ---------------------------------------------------------------------
    def exec_block(self, stmts, st: State | None, tree: list) -> Outcome:
        out = Outcome(live=st)
        i = 0
        while i < len(stmts) and out.live is not None:
            s = stmts[i]
            i += 1
            if isinstance(s, ast.For) and s.orelse and self._is_search_loop(s):
                # for/else search: the else part is ``if <nothing found>: ...`` after the search
                lowered = getattr(s, "_search_lowered", None)
                if lowered is None:
                    plain = ast.For(target=s.target, iter=s.iter, body=s.body, orelse=[], type_comment=None)
                    test = ast.Compare(left=ast.Name(id=s.target.id, ctx=ast.Load()), ops=[ast.Is()], comparators=[ast.Constant(value=None)])
                    syn = ast.If(test=test, body=list(s.orelse), orelse=[])
                    for x in (plain, syn):
                        ast.copy_location(x, s)
                        ast.fix_missing_locations(x)
                    lowered = s._search_lowered = [plain, syn]
                o = self.exec_block(lowered + list(stmts[i:]), out.live, tree)
                self._acc(out, o)
                out.live = o.live
                return out
            if isinstance(s, ast.Try):
                lowered = self._lower_lookup_try(s)
                if lowered is not None:
                    o = self.exec_block(lowered + list(stmts[i:]), out.live, tree)
                    self._acc(out, o)
                    out.live = o.live
                    return out
            if isinstance(s, ast.Match):
                lowered = self._lower_match(s)
                if lowered is not None:
                    # ``match`` on values is an if/elif chain on one evaluated subject
                    o = self.exec_block(lowered + list(stmts[i:]), out.live, tree)
                    self._acc(out, o)
                    out.live = o.live
                    return out
            if isinstance(s, ast.If):
                o = self.exec_if(s, out.live, tree, stmts[i:])
                if o is not None:          # rest of the block was consumed inside a branch
                    self._acc(out, o)
                    out.live = o.live
                    return out
                continue
            o = self.exec_stmt(s, out.live, tree)
            self._acc(out, o)
            out.live = o.live
        return out

    @staticmethod
    def _acc(out: Outcome, o: Outcome) -> None:
        """Accumulate the exits of a later statement behind the exits seen so far."""
        out.ret, out.retc = join_exit(out.ret, out.retc, o.ret, o.retc)
        out.brk, out.brkc = join_exit(out.brk, out.brkc, o.brk, o.brkc)
        out.cont, out.contc = join_exit(out.cont, out.contc, o.cont, o.contc)

    @staticmethod
    def _merge_exit(a: State | None, b: State | None) -> State | None:
        if a is None:
            return b
        if b is None:
            return a
        return merge_states(("earlier_exit",), a, b)

    @staticmethod
    def _branch_exit(c, a, ac, b, bc):
        """Exit of an if: branch a under c, branch b otherwise."""
        if a is None and b is None:
            return None, None
        if a is None:
            return b, (mk_cond(c, FALSE, bc) if bc is not None else None)
        if b is None:
            return a, (mk_cond(c, ac, FALSE) if ac is not None else None)
        return merge_states(c, a, b), (mk_cond(c, ac, bc) if ac is not None and bc is not None else None)

    def exec_if(self, s: ast.If, st: State, tree: list, rest: list) -> Outcome | None:
        """Returns None when evaluated in place (state merged into ``st``); otherwise the outcome of
        if + rest (the rest having been nested into the branch that stays live)."""
        c = self.ev_test(st, s.test, tree)
        if is_const(c):
            # statically decided: only the taken branch exists
            o = self.exec_block(s.body if c[1] else s.orelse, st, tree)
            if o.live is not None and o.ret is None and o.brk is None and o.cont is None:
                return None
            if o.live is None:
                return o
            o2 = self.exec_block(rest, o.live, tree)
            res = Outcome(live=o2.live)
            self._acc(res, o)
            self._acc(res, o2)
            res.live = o2.live
            return res
        ft, fe = st.fork(), st.fork()
        # path-sensitive refinement: inside a branch, variables are what they can be given the test's outcome
        rt, re_ = refine_env(ft, c, True), refine_env(fe, c, False)
        for ch in (rt, re_):
            for orig, new in ch.values():
                if orig in self.types and isinstance(new, tuple) and new and new[0] not in ("const", "ref"):
                    self.types.setdefault(new, self.types[orig])      # the refined value is still that object
        tt: list = []
        te: list = []
        ot = self.exec_block(s.body, ft, tt)
        oe = self.exec_block(s.orelse, fe, te)
        node = ("if", c, tt, te, s.lineno)
        tree.append(node)
        exits = lambda o: o.ret is not None or o.brk is not None or o.cont is not None

        def combine(ot_, oe_):
            r = Outcome()
            r.ret, r.retc = self._branch_exit(c, ot_.ret, ot_.retc, oe_.ret, oe_.retc)
            r.brk, r.brkc = self._branch_exit(c, ot_.brk, ot_.brkc, oe_.brk, oe_.brkc)
            r.cont, r.contc = self._branch_exit(c, ot_.cont, ot_.contc, oe_.cont, oe_.contc)
            return r

        if ot.live is not None and oe.live is not None:
            m = merge_states(c, ot.live, oe.live)
            # a variable neither branch assigned is, after the if, what it was before it
            for k in set(rt) | set(re_):
                orig = (rt.get(k) or re_.get(k))[0]
                if ot.live.env.get(k) == (rt[k][1] if k in rt else orig) and oe.live.env.get(k) == (re_[k][1] if k in re_ else orig):
                    m.env[k] = orig
            st.env, st.ext = m.env, m.ext
            if not exits(ot) and not exits(oe):
                return None
            # partial exits: continue flat with the merged live state
            first = combine(ot, oe)
            o2 = self.exec_block(rest, st, tree)
            self._acc(first, o2)
            first.live = o2.live
            return first
        if ot.live is None and oe.live is None:
            return combine(ot, oe)
        # exactly one branch stays live: the rest of the block belongs to it (canonical nesting)
        if ot.live is not None:
            o2 = self.exec_block(rest, ot.live, tt)
            acc = Outcome(ret=ot.ret, brk=ot.brk, cont=ot.cont, retc=ot.retc, brkc=ot.brkc, contc=ot.contc)
            self._acc(acc, o2)
            r = combine(acc, oe)
            r.live = o2.live
            return r
        o2 = self.exec_block(rest, oe.live, te)
        acc = Outcome(ret=oe.ret, brk=oe.brk, cont=oe.cont, retc=oe.retc, brkc=oe.brkc, contc=oe.contc)
        self._acc(acc, o2)
        r = combine(ot, acc)
        r.live = o2.live
        return r

    def _lower_lookup_try(self, s: ast.Try):
        """``try: v = TABLE[key] / except KeyError: A / else: B`` asks for forgiveness what ``if key in TABLE: v = TABLE[key]; B
        / else: A`` asks for permission: the same decision, lowered to the latter."""
        cached = getattr(s, "_lookup_lowered", None)
        if cached is not None:
            return cached or None
        s._lookup_lowered = []
        if s.finalbody or len(s.handlers) != 1 or len(s.body) != 1:
            return None
        h = s.handlers[0]
        if not (isinstance(h.type, ast.Name) and h.type.id == "KeyError" and h.name is None):
            return None
        st0 = s.body[0]
        val = st0.value if isinstance(st0, (ast.Assign, ast.AnnAssign, ast.Return, ast.Expr)) else None
        if not (isinstance(val, ast.Subscript) and not isinstance(val.slice, ast.Slice)
                and isinstance(val.value, (ast.Name, ast.Attribute)) and isinstance(val.slice, (ast.Name, ast.Constant, ast.Attribute))):
            return None
        test = ast.Compare(left=val.slice, ops=[ast.In()], comparators=[val.value])
        syn = ast.If(test=test, body=list(s.body) + list(s.orelse), orelse=list(h.body) or [ast.Pass()])
        ast.copy_location(syn, s)
        ast.fix_missing_locations(syn)
        s._lookup_lowered = [syn]
        return [syn]

    def _lower_match(self, s: ast.Match):
        """[subject assignment, if/elif chain] for a match statement whose patterns are literals, singletons, alternatives of
        those, captures and the wildcard; None for structural patterns (left opaque)."""
        cached = getattr(s, "_lowered", None)
        if cached is not None:
            return cached or None
        subj = f"__match_{s.lineno}_{s.col_offset}"
        S = lambda: ast.Name(id=subj, ctx=ast.Load())

        import copy

        def conj(ts):
            ts = [t for t in ts if t is not None]
            if not ts:
                return None
            return ts[0] if len(ts) == 1 else ast.BoolOp(op=ast.And(), values=ts)

        def test(p, S=S):
            """(test expr or None for 'always', [capture assignments]); S() builds the (sub-)subject expression"""
            if isinstance(p, ast.MatchValue):
                return ast.Compare(left=S(), ops=[ast.Eq()], comparators=[p.value]), []
            if isinstance(p, ast.MatchSingleton):
                return ast.Compare(left=S(), ops=[ast.Is()], comparators=[ast.Constant(value=p.value)]), []
            if isinstance(p, ast.MatchOr):
                ts = [test(x, S) for x in p.patterns]
                if any(t is None or t[1] for t in ts):
                    return None
                if any(t[0] is None for t in ts):
                    return (None, [])
                return ast.BoolOp(op=ast.Or(), values=[t[0] for t in ts]), []
            if isinstance(p, ast.MatchSequence) and not any(isinstance(x, ast.MatchStar) for x in p.patterns):
                # ``case [a, b]``: a sequence of exactly that length, its items matched / bound in turn
                n_ = len(p.patterns)
                tests = [ast.Compare(left=ast.Call(func=ast.Name(id="len", ctx=ast.Load()), args=[S()], keywords=[]), ops=[ast.Eq()],
                                     comparators=[ast.Constant(value=n_)])]
                caps = []
                for i_, x in enumerate(p.patterns):
                    sub = (lambda i_=i_: ast.Subscript(value=S(), slice=ast.Constant(value=i_), ctx=ast.Load()))
                    r = test(x, sub)
                    if r is None:
                        return None
                    tests.append(r[0])
                    caps += r[1]
                return conj(tests), caps
            if isinstance(p, ast.MatchMapping) and p.rest is None and all(isinstance(k, ast.Constant) for k in p.keys):
                # ``case {"k": pattern}``: a mapping that has the key, its value matched / bound
                tests, caps = [], []
                for k, x in zip(p.keys, p.patterns):
                    tests.append(ast.Compare(left=ast.Constant(value=k.value), ops=[ast.In()], comparators=[S()]))
                    sub = (lambda k=k: ast.Subscript(value=S(), slice=ast.Constant(value=k.value), ctx=ast.Load()))
                    r = test(x, sub)
                    if r is None:
                        return None
                    tests.append(r[0])
                    caps += r[1]
                return conj(tests), caps
            if isinstance(p, ast.MatchClass) and not p.patterns and not p.kwd_patterns:
                return ast.Call(func=ast.Name(id="isinstance", ctx=ast.Load()), args=[S(), p.cls], keywords=[]), []
            if isinstance(p, ast.MatchAs):
                inner = (None, []) if p.pattern is None else test(p.pattern, S)
                if inner is None:
                    return None
                caps = list(inner[1])
                if p.name is not None:
                    caps.append(ast.Assign(targets=[ast.Name(id=p.name, ctx=ast.Store())], value=S()))
                return inner[0], caps
            return None

        chain = None
        for case in reversed(s.cases):
            t = test(case.pattern)
            if t is None:
                s._lowered = []
                return None
            cond, caps = t
            if case.guard is not None:
                if caps:
                    s._lowered = []
                    return None         # a guard over captured names: not lowered
                cond = case.guard if cond is None else ast.BoolOp(op=ast.And(), values=[cond, case.guard])
            body = caps + list(case.body)
            if cond is None:
                chain = body
            else:
                chain = [ast.If(test=cond, body=body, orelse=chain or [])]
        out = [ast.Assign(targets=[ast.Name(id=subj, ctx=ast.Store())], value=s.subject)] + (chain or [])
        for n in out:
            ast.copy_location(n, s)
            ast.fix_missing_locations(n)
        s._lowered = out
        return out

    def exec_stmt(self, s: ast.stmt, st: State, tree: list) -> Outcome:
        m = getattr(self, "st_" + type(s).__name__, None)
        if m is None:
            tree.append(("stmt", ast.unparse(s), s.lineno))
            return Outcome(live=st)
        return m(s, st, tree)

    def st_Expr(self, s, st, tree):
        self.ev(st, s.value, tree)
        return Outcome(live=st)

    def st_Pass(self, s, st, tree):
        u = getattr(s, "_unroll", None)
        if u is not None:
            return self._unrolled(u[0], st, tree, u[1], u[2])
        return Outcome(live=st)

    def st_Import(self, s, st, tree):
        return Outcome(live=st)

    st_ImportFrom = st_Import
    st_Global = st_Import
    st_Nonlocal = st_Import

    def st_Assert(self, s, st, tree):
        c = self.ev(st, s.test, tree)
        tree.append(("assert", c, s.lineno))
        return Outcome(live=st)

    def st_Return(self, s, st, tree):
        v = self.ev(st, s.value, tree) if s.value is not None else NONE
        tree.append(("return", v, s.lineno))
        st.env["__ret__"] = v
        return Outcome(ret=st, retc=TRUE)

    def st_Raise(self, s, st, tree):
        v = self.ev(st, s.exc, tree) if s.exc is not None else ("reraise",)
        tree.append(("raise", v, s.lineno))
        return Outcome()

    def st_Break(self, s, st, tree):
        tree.append(("break", s.lineno))
        return Outcome(brk=st, brkc=TRUE)

    def st_Continue(self, s, st, tree):
        tree.append(("continue", s.lineno))
        return Outcome(cont=st, contc=TRUE)

    def st_Delete(self, s, st, tree):
        for t in s.targets:
            if isinstance(t, ast.Subscript):
                tree.append(("mutate", self._mutated(self.ev(st, t.value, tree)), "__delitem__", (self.ev(st, t.slice, tree),), s.lineno))
            elif isinstance(t, ast.Attribute):
                tree.append(("delattr", self.ev(st, t.value, tree), t.attr, s.lineno))
            elif isinstance(t, ast.Name):
                st.env.pop(t.id, None)
        return Outcome(live=st)

    def assign(self, st: State, tgt: ast.expr, v, tree: list, line):
        if isinstance(tgt, ast.Name):
            st.env[tgt.id] = v
        elif isinstance(tgt, ast.Attribute):
            base = self.ev(st, tgt.value, tree)
            bc = self.type_of(base)
            setter = next((c_.setters[tgt.attr] for c_ in bc.mro() if tgt.attr in c_.setters), None) if bc is not None else None
            if setter is not None:
                # a property with a setter: assigning it runs the setter
                self.call_function(st, setter, [base, v], {}, tgt, tree)
                return
            st.ext[(base, tgt.attr)] = v
            tree.append(("setattr", base, tgt.attr, v, line))
        elif isinstance(tgt, ast.Subscript):
            base = self.ev(st, tgt.value, tree)
            key = self.ev(st, tgt.slice, tree) if not isinstance(tgt.slice, ast.Slice) else ("opaque", ast.unparse(tgt.slice))
            ob_ = self.obj(base)
            if ob_ is not None:
                ob_.dirty = True
            tree.append(("setitem", base, key, v, line))
        elif isinstance(tgt, (ast.Tuple, ast.List)):
            if isinstance(self.obj(v), HGen) and self.obj(v).fi is not None:
                v = self.force(v, st, tree, None)        # unpacking consumes the generator
            if any(isinstance(e, ast.Starred) for e in tgt.elts):
                k = next(i for i, e in enumerate(tgt.elts) if isinstance(e, ast.Starred))
                after = len(tgt.elts) - k - 1
                for i, e in enumerate(tgt.elts[:k]):
                    self.assign(st, e, self.get_item(st, v, const(i)), tree, line)
                self.assign(st, tgt.elts[k].value, self.get_slice(st, v, const(k), const(-after) if after else NONE), tree, line)
                for j, e in enumerate(tgt.elts[k + 1:]):
                    self.assign(st, e, self.get_item(st, v, const(j - after)), tree, line)
            elif v[0] == "tuple" and len(v[1]) == len(tgt.elts):
                for e, x in zip(tgt.elts, v[1]):
                    self.assign(st, e, x, tree, line)
            else:
                for i, e in enumerate(tgt.elts):
                    self.assign(st, e, self.get_item(st, v, const(i)), tree, line)
        elif isinstance(tgt, ast.Starred):
            self.assign(st, tgt.value, v, tree, line)

    def st_Assign(self, s, st, tree):
        v = self.ev(st, s.value, tree)
        for t in s.targets:
            self.assign(st, t, v, tree, s.lineno)
        return Outcome(live=st)

    def st_AnnAssign(self, s, st, tree):
        if s.value is not None:
            v = self.ev(st, s.value, tree)
            self.assign(st, s.target, v, tree, s.lineno)
        return Outcome(live=st)

    def _rebinding_only(self, cur) -> bool:
        """Is ``x op= y`` on current value ``cur`` certainly a rebinding (immutable value)?"""
        k = cur[0]
        if k == "const":
            return True
        if k in ("binop", "fstr", "idx", "cmp", "not", "unop"):
            return True
        if k == "bool":
            return all(self._rebinding_only(v) for v in cur[2])      # ``a or b`` is one of its operands
        if k == "call" and cur[1] in ("len", "str", "int", ".strip", ".lstrip", ".rstrip", ".replace", ".join", ".format", "re.sub"):
            return True
        if k == "phi":
            info = self.loops.get(cur[1], {})
            init = info.get("carried_init", {}).get(cur[2])
            return init is not None and self._rebinding_only(init)
        if k == "cond":
            return self._rebinding_only(cur[2]) and self._rebinding_only(cur[3])
        return False

    def st_AugAssign(self, s, st, tree):
        y = self.ev(st, s.value, tree)
        op = type(s.op).__name__
        tgt = s.target
        if isinstance(tgt, ast.Name):
            cur = self.lookup_name(st, tgt.id, tgt)
        elif isinstance(tgt, ast.Attribute):
            cur = self.get_attr(st, self.ev(st, tgt.value, tree), tgt.attr, tgt, tree)
        else:
            cur = self.ev(st, tgt, tree)
        o = self.obj(cur)
        if isinstance(o, HList) and op == "Add" and getattr(o, "tuple_acc", None) is not None:
            if y[0] == "call" and y[1] in ("tuple", "list") and len(y[2]) == 1 and not y[3]:
                y = y[2][0]         # the elements of the argument, in order
            if isinstance(tgt, ast.Name) and o.tuple_acc == (self.stack[-1].id if self.stack else 0, tgt.id):
                tree.append(("mutate", self._mutated(cur), "extend", (self._strip_or_empty(y),), s.lineno))     # the loop's own accumulator
                return Outcome(live=st)
            # a tuple someone else holds as well: ``+=`` makes a new one and rebinds the name
            new = self.new_list([("s", cur), ("s", y)], s, tree)
            self.obj(new).tuple_acc = (0, None)
            self.assign(st, tgt, new, tree, s.lineno)
            return Outcome(live=st)
        if isinstance(o, HList) and op == "Add":
            tree.append(("mutate", self._mutated(cur), "extend", (self._strip_or_empty(y),), s.lineno))
            return Outcome(live=st)
        if op == "Add" and isinstance(tgt, ast.Attribute) and cur[0] == "phi" and isinstance(cur[2], tuple) and cur[2][0] == "attr":
            init = self.loops.get(cur[1], {}).get("carried_init", {}).get(cur[2])
            if isinstance(self.obj(init), HList):
                # the attribute held a list object when the loop began and has not been rebound in this iteration: ``+=`` extends
                # that object in place and leaves the attribute as it is.  (Should some path of the loop rebind the attribute
                # after all, the loop's end marks the list's content unknown - see _loop_common.)
                tree.append(("mutate", self._mutated(init), "extend", (self._strip_or_empty(y),), s.lineno))
                self.loops[cur[1]].setdefault("assumed_same_list", set()).add(cur[2])
                return Outcome(live=st)
        if isinstance(o, HDict) and op == "BitOr" and self._dict_update(cur, y, tree, s.lineno):
            return Outcome(live=st)
        new = self.ev_BinOp_terms(op, cur, y, s)
        scalar_y = (is_const(y) and isinstance(y[1], (int, float, str))) or (y[0] == "call" and y[1] in ("len", "str", "int")) or y[0] in ("fstr",)
        if not self._rebinding_only(cur) and not scalar_y:
            # may be an in-place mutation of a list-like external value
            tree.append(("mutate", self._mutated(cur), "augassign:" + op, (y,), s.lineno))
        self.assign(st, tgt, new, tree, s.lineno)
        return Outcome(live=st)

    def _strip_or_empty(self, y):
        """``xs or []`` contributes exactly the elements of xs to an extend / += / iteration."""
        if isinstance(y, tuple) and y and y[0] == "bool" and y[1] == "or" and len(y[2]) == 2:
            o = self.obj(y[2][1])
            if isinstance(o, HList) and not o.segs and not getattr(o, "dirty", False):
                return y[2][0]
            if y[2][1] == ("tuple", ()):
                return y[2][0]
        return y

    def _dict_update(self, target, other, tree, line) -> bool:
        """``target |= other`` / ``target.update(other)`` with a dict object of known entries: one item store per entry."""
        oo = self.obj(other)
        if not isinstance(oo, HDict) or getattr(oo, "dirty", False) or any(e[0] == "**" for e in oo.entries):
            return False
        to = self.obj(target)
        if to is not None:
            to.dirty = True
        for k, v in oo.entries:
            tree.append(("setitem", target, k, v, line))
        return True

    def ev_BinOp_terms(self, op, a, b, n):
        if op == "Add" and is_const(a) and is_const(b) and type(a[1]) is type(b[1]) and isinstance(a[1], (int, str)):
            return const(a[1] + b[1])
        return ("binop", op, a, b)

    # loops ------------------------------------------------------------------------------
    @staticmethod
    def _assigned_names(stmts) -> set:
        out = set()
        for s in stmts:
            for n in ast.walk(s):
                if isinstance(n, ast.Name) and isinstance(n.ctx, ast.Store):
                    out.add(n.id)
        return out

    @staticmethod
    def _add_only(stmts, nm) -> bool:
        return all(isinstance(n.op, ast.Add) for s_ in stmts for n in ast.walk(s_)
                   if isinstance(n, ast.AugAssign) and isinstance(n.target, ast.Name) and n.target.id == nm)

    @staticmethod
    def _aug_only_names(stmts) -> set:
        aug, plain = set(), set()
        for s in stmts:
            for n in ast.walk(s):
                if isinstance(n, ast.AugAssign) and isinstance(n.target, ast.Name):
                    aug.add(n.target.id)
            for n in ast.walk(s):
                if isinstance(n, ast.Name) and isinstance(n.ctx, ast.Store):
                    plain.add(n.id)
        # a name is aug-only if every store of it is the target of an AugAssign
        out = set()
        for nm in aug:
            stores = 0
            augs = 0
            for s in stmts:
                for n in ast.walk(s):
                    if isinstance(n, ast.Name) and isinstance(n.ctx, ast.Store) and n.id == nm:
                        stores += 1
                    if isinstance(n, ast.AugAssign) and isinstance(n.target, ast.Name) and n.target.id == nm:
                        augs += 1
            if stores == augs:
                out.add(nm)
        return out

    def _plainly_assigned_attrs(self) -> set:
        """attribute names bound by a plain assignment / deleted somewhere outside constructors (any object: by name)"""
        got = getattr(self, "_plain_attrs", None)
        if got is None:
            got = set()
            for fi in self.facts.all_functions():
                if fi.name in ("__init__", "__new__", "__post_init__"):
                    continue
                aug = {id(n.target) for n in ast.walk(fi.node) if isinstance(n, ast.AugAssign) and isinstance(n.op, ast.Add)}
                for n in ast.walk(fi.node):
                    if isinstance(n, ast.Attribute) and isinstance(n.ctx, (ast.Store, ast.Del)) and id(n) not in aug:
                        got.add(n.attr)
            self._plain_attrs = got
        return got

    def _replace_terms(self, mapping, sub, states, heap_mark, loop_mark, info) -> None:
        """Replace the placeholder terms of ``mapping`` by their values in everything made since the loop started: the loop's
        effect tree (in place), the states of its exits, the objects allocated and the inner loops recorded meanwhile."""
        memo: dict = {}

        def sb(t):
            if not isinstance(t, tuple) or not t or t[0] == "const":
                return t        # (constants are never replaced - and ("const", 0) == ("const", False) as dictionary keys)
            hit = memo.get(id(t))
            if hit is not None and hit[0] is t:
                return hit[1]
            if t and t[0] == "phi" and t in mapping:
                r = mapping[t]
            else:
                try:
                    r = tuple(sb(x) if isinstance(x, (tuple, list)) else x for x in t)
                except RecursionError:
                    r = t
                if all(a is b_ for a, b_ in zip(r, t)):
                    r = t
            memo[id(t)] = (t, r)
            return r

        def sb_any(x):
            if isinstance(x, list):
                return [sb_any(y) for y in x]
            if isinstance(x, tuple):
                return tuple(sb_any(y) if isinstance(y, list) else (sb(y) if isinstance(y, tuple) else y) for y in x) if any(isinstance(y, list) for y in x) else sb(x)
            if isinstance(x, dict):
                return {sb_any(k) if isinstance(k, tuple) else k: sb_any(v) for k, v in x.items()}
            return x
        sub[:] = [sb_any(n) for n in sub]
        seen = set()
        for st_ in states:
            if id(st_) in seen:
                continue
            seen.add(id(st_))
            for k in list(st_.env):
                st_.env[k] = sb_any(st_.env[k])
            for k in list(st_.ext):
                st_.ext[k] = sb_any(st_.ext[k])
        for oid, o in self.heap.items():
            if oid <= heap_mark:
                continue
            if isinstance(o, HList):
                o.segs = sb_any(list(o.segs))
            elif isinstance(o, HDict):
                o.entries = [tuple(sb_any(x) if isinstance(x, (tuple, list)) else x for x in e) for e in o.entries]
        for l2, inf2 in self.loops.items():
            if l2 < loop_mark:
                continue
            for fld in ("iter", "test", "conds"):
                if fld in inf2 and isinstance(inf2[fld], tuple):
                    inf2[fld] = sb_any(inf2[fld])
            for fld in ("carried", "carried_init", "break_env"):
                if isinstance(inf2.get(fld), dict):
                    inf2[fld] = {k: sb_any(v) for k, v in inf2[fld].items()}

    def _stored_attrs(self, stmts) -> set:
        """Attribute names that executing ``stmts`` may store: stores in the statements themselves and, transitively, in every
        repository function or method whose name is called from them (resolution by name: an over-approximation)."""
        cache = getattr(self, "_stored_cache", None)
        if cache is None:
            cache = self._stored_cache = {}
            self._by_name = {}
            for fi in self.facts.all_functions():
                self._by_name.setdefault(fi.name, []).append(fi)
            for c in self.facts.all_classes():
                init = c.methods.get("__init__")
                if init is not None:
                    self._by_name.setdefault(c.short, []).append(init)

        def direct(nodes):
            stores, calls = set(), set()
            for s in nodes:
                for n in ast.walk(s):
                    if isinstance(n, ast.Attribute) and isinstance(n.ctx, (ast.Store, ast.Del)):
                        stores.add(n.attr)
                    elif isinstance(n, ast.Call):
                        f = n.func
                        if isinstance(f, ast.Attribute):
                            calls.add(f.attr)
                        elif isinstance(f, ast.Name):
                            calls.add(f.id)
                    elif isinstance(n, ast.Attribute) and isinstance(n.ctx, ast.Load):
                        calls.add(n.attr)       # property reads and bound methods passed as values
            return stores, calls

        stores, calls = direct(stmts)
        seen = set()
        todo = list(calls)
        while todo:
            nm = todo.pop()
            if nm in seen:
                continue
            seen.add(nm)
            for fi in self._by_name.get(nm, ()):
                if fi.qualname not in cache:
                    cache[fi.qualname] = direct(fi.node.body)
                st2, c2 = cache[fi.qualname]
                stores |= st2
                todo.extend(c2 - seen)
        return stores

    def _plainly_stored_attrs(self, stmts) -> set:
        """Like _stored_attrs, for plain rebinding only (``x.a = v`` / ``del x.a``): ``x.a += more`` is left out."""
        self._stored_attrs(stmts)          # (fills the by-name index)
        cache = getattr(self, "_plain_cache", None)
        if cache is None:
            cache = self._plain_cache = {}

        def direct(nodes):
            stores, calls = set(), set()
            for s in nodes:
                aug = {id(n.target) for n in ast.walk(s) if isinstance(n, ast.AugAssign) and isinstance(n.op, ast.Add)}
                for n in ast.walk(s):
                    if isinstance(n, ast.Attribute) and isinstance(n.ctx, (ast.Store, ast.Del)) and id(n) not in aug:
                        stores.add(n.attr)
                    elif isinstance(n, ast.Call):
                        f = n.func
                        calls.add(f.attr if isinstance(f, ast.Attribute) else (f.id if isinstance(f, ast.Name) else ""))
                    elif isinstance(n, ast.Attribute) and isinstance(n.ctx, ast.Load):
                        calls.add(n.attr)
            return stores, calls
        stores, calls = direct(stmts)
        seen = set()
        todo = list(calls)
        while todo:
            nm = todo.pop()
            if nm in seen:
                continue
            seen.add(nm)
            for fi in self._by_name.get(nm, ()):
                if fi.qualname not in cache:
                    cache[fi.qualname] = direct(fi.node.body)
                st2, c2 = cache[fi.qualname]
                stores |= st2
                todo.extend(c2 - seen)
        return stores

    @staticmethod
    def _assigned_attrs(stmts) -> set:
        out = set()
        for s in stmts:
            for n in ast.walk(s):
                if isinstance(n, ast.Attribute) and isinstance(n.ctx, ast.Store):
                    out.add(n.attr)
        return out

    def _loop_common(self, s, st: State, tree: list, kind: str):
        lid = next(self._loop)
        info = {"id": lid, "kind": kind, "line": s.lineno, "carried": {}, "carried_init": {}}
        self.loops[lid] = info
        ms = None
        if kind == "for":
            it = self.ev(st, s.iter, tree)
            ns = self._nest_source(it)
            if ns is not None and not s.orelse and not any(isinstance(x, ast.Break) for b in s.body for x in ast.walk(b)):
                # a loop over a list that nested generators made: the same loops again, with this body innermost
                del self.loops[lid]
                trip = self._nest_rewrite(ns[0], ns[1], s.target)
                body = [ast.Assign(targets=[trip[-1][0]], value=trip[-1][1].elts[0])] + list(s.body)
                for t_, i_, _f in reversed(trip[:-1]):
                    body = [ast.For(target=t_, iter=i_, body=body, orelse=[], type_comment=None)]
                for x in ast.walk(body[0]):
                    if not hasattr(x, "lineno"):
                        ast.copy_location(x, s)
                return self._loop_common(body[0], st, tree, "for")
            ms = self._map_source(it)
            if ms is not None:
                it = ms[0]
            enum_ms = None
            if ms is None and it[0] == "call" and it[1] == "enumerate" and len(it[2]) == 1 and not it[3] and isinstance(s.target, (ast.Tuple, ast.List)) \
                    and len(s.target.elts) == 2:
                # ``for n, y in enumerate(ys)`` with ys one computed value per element of xs: positions and elements of xs
                enum_ms = self._map_source(it[2][0])
                if enum_ms is not None:
                    it = ("call", "enumerate", (enum_ms[0],), ())
            info["iter"] = it
        names = self._assigned_names(s.body)
        aug_only = self._aug_only_names(s.body)
        f = st.fork()
        # variables of fused consumer frames ("name^level"): their loop bodies run at the yields inside this loop
        cons = {k for k in f.env if "^" in k} if self._yields_inside(s.body) else set()
        names = names | cons
        for nm in sorted(names):
            v0 = f.env.get(nm, NONE)
            if nm in aug_only and self._add_only(s.body, nm) and ((v0[0] == "tuple") or getattr(self.obj(v0), "tuple_acc", None) is not None):
                # a tuple the loop only ever extends (``acc += tuple(more)``): every iteration makes a longer tuple that starts with
                # the previous one.  Modelled as one sequence of its own, allocated here as a copy of the value the loop starts
                # from and extended where the loop says - the value read at any point is the prefix built so far
                acc = self.new_list([("e", x) for x in v0[1]] if v0[0] == "tuple" else [("s", v0)], s, tree)
                self.obj(acc).tuple_acc = (self.stack[-1].id if self.stack else 0, nm)
                f.env[nm] = acc
                st.env[nm] = acc
                names = names - {nm}
                continue
            if nm in aug_only and isinstance(self.obj(f.env.get(nm, NONE)), HList):
                # ``xs += ys`` on a list object mutates it in place and rebinds the same object
                names = names - {nm}
                continue
            if nm in f.env:
                info["carried_init"][nm] = f.env[nm]
                f.env[nm] = ("phi", lid, nm)
        heap_mark = max(self.heap) if self.heap else 0
        loop_mark = lid
        if not hasattr(self, "_loop_heap_marks"):
            self._loop_heap_marks = []
        self._loop_heap_marks.append(heap_mark)
        # attributes the body (or anything it may call) stores are loop-carried state as well: key ('attr', object, name)
        stored = self._stored_attrs(s.body)
        attr_keys = []
        for (b, a) in list(f.ext):
            if a in stored:
                key = ("attr", b, a)
                info["carried_init"][key] = f.ext[(b, a)]
                f.ext[(b, a)] = ("phi", lid, key)
                attr_keys.append((b, a, key))
        sub: list = []
        if kind == "for":
            if enum_ms is not None:
                self.bind_target(f, s.target.elts[0], ("idx", lid))
                self.bind_target(f, s.target.elts[1], self._subst_loop(enum_ms[1], enum_ms[2], lid))
            else:
                self.bind_target(f, s.target, self._subst_loop(ms[1], ms[2], lid) if ms is not None else ("elem", lid), lid, it)
            # iteration over an inline generator / filter keeps its conditions
        else:
            info["test"] = self.ev_test(f, s.test, sub)
        try:
            out = self.exec_block(s.body, f, sub)
        finally:
            self._loop_heap_marks.pop()
        end = self._merge_exit(out.live, out.cont)
        if end is not None:
            for nm in names:
                if nm in end.env and end.env[nm] != ("phi", lid, nm):
                    info["carried"][nm] = end.env[nm]
            for b, a, key in attr_keys:
                v = end.ext.get((b, a))
                if v is not None and v != ("phi", lid, key):
                    info["carried"][key] = v
        # an attribute the body was thought to store (by name, on some object) but that keeps its value on every way out of the
        # iteration was never loop-carried: its placeholder is the value it had before the loop - put back everywhere
        inv = {}
        for b, a, key in attr_keys:
            ph = ("phi", lid, key)
            outs = [x for x in (end, out.brk, out.ret) if x is not None]
            if outs and all(x.ext.get((b, a)) == ph for x in outs) and key not in info["carried"]:
                inv[ph] = info["carried_init"][key]
        for key in info.get("assumed_same_list", ()):
            if ("phi", lid, key) not in inv:
                o_ = self.obj(info["carried_init"].get(key))
                if o_ is not None:
                    o_.dirty = True        # extended in place on the assumption that the attribute was never rebound - it was
        if inv:
            self._replace_terms(inv, sub, [x for x in (out.live, out.cont, out.brk, out.ret, end) if x is not None], heap_mark, loop_mark, info)
            attr_keys = [(b, a, key) for b, a, key in attr_keys if ("phi", lid, key) not in inv]
            for ph in inv:
                info["carried_init"].pop(ph[2], None)
        if out.brk is not None:
            info["break_env"] = {nm: out.brk.env[nm] for nm in sorted(self._assigned_names(s.body)) if nm in out.brk.env}
            for b, a, key in attr_keys:
                if (b, a) in out.brk.ext:
                    info["break_env"][key] = out.brk.ext[(b, a)]
        tree.append(("loop", lid, sub))
        # state after the loop
        after = st
        for nm in names:
            after.env[nm] = ("loopout", lid, nm)
        # loop invariant: a consumer variable that starts equal to a generator variable and is rebound to it at every
        # iteration equals it after the loop as well
        for k in sorted(cons):
            if k in info["carried"]:
                for g_ in sorted(names - cons):
                    if info["carried"].get(g_) == info["carried"][k] and info["carried_init"].get(g_) == info["carried_init"].get(k):
                        after.env[k] = ("loopout", lid, g_)
                        break
            elif k in info["carried_init"]:
                after.env[k] = info["carried_init"][k]      # never rebound inside the loop
        last = self._merge_exit(end, out.brk)
        if last is not None:
            tracked = {(b, a): key for b, a, key in attr_keys}
            for k2, v2 in last.ext.items():
                key = tracked.get(k2)
                if key is not None:
                    changed = key in info["carried"] or info.get("break_env", {}).get(key, ("phi", lid, key)) != ("phi", lid, key)
                    if changed:
                        after.ext[k2] = ("loopout", lid, key)
                    continue        # untouched by the body: keeps its value from before the loop
                if after.ext.get(k2) != v2:
                    after.ext[k2] = ("loopout", lid, ("attr", k2[0], k2[1]))
        ret = out.ret
        retc = ("loopret", lid) if ret is not None else None
        if s.orelse:
            if out.brk is None:
                o2 = self.exec_block(s.orelse, after, tree)
                r = Outcome(live=o2.live, ret=ret, retc=retc)
                self._acc(r, o2)
                r.live = o2.live
                return r
            # the else part runs only when the loop was not left by break
            brk_c = ("loopbrk", lid)
            sub2: list = []
            fe = after.fork()
            o2 = self.exec_block(s.orelse, fe, sub2)
            tree.append(("if", brk_c, [], sub2, s.lineno))
            r = Outcome(live=None, ret=ret, retc=retc)
            if o2.ret is not None:
                r.ret, r.retc = join_exit(r.ret, r.retc, o2.ret, mk_cond(brk_c, FALSE, o2.retc) if o2.retc is not None else None)
            r.brk, r.brkc, r.cont, r.contc = o2.brk, o2.brkc, o2.cont, o2.contc
            r.live = merge_states(brk_c, after, o2.live) if o2.live is not None else after
            return r
        return Outcome(live=after, ret=ret, retc=retc)

    @classmethod
    def _effect_free(cls, tree) -> bool:
        """Evaluating the expression again changes nothing observable (allocations, reads and returns of inlined helpers)."""
        for n in tree:
            if n[0] in ("alloc", "mcall", "return"):
                continue
            if n[0] == "call" and cls._effect_free(n[2]):
                continue
            if n[0] == "if" and cls._effect_free(n[2]) and cls._effect_free(n[3]):
                continue
            return False
        return True

    def _unroll_elems(self, it):
        """Elements of a small, statically known sequence (tuple display / list display / class- or module-level table)."""
        if it[0] == "tuple":
            return list(it[1])
        o = self.obj(it)
        if isinstance(o, HList) and o.segs and all(sg[0] == "e" for sg in o.segs):
            return [sg[1] for sg in o.segs]
        if it[0] == "call" and it[1] == ".items" and len(it[2]) == 1:
            d = self.obj(it[2][0])
            if isinstance(d, HDict) and d.entries and all(e[0] != "**" and is_const(e[0]) for e in d.entries):
                return [("tuple", (e[0], e[1])) for e in d.entries]
        # a dictionary of known keys walked directly (or through .keys() / .values()): its keys / values in insertion order
        d = o if isinstance(o, HDict) else (self.obj(it[2][0]) if it[0] == "call" and it[1] in (".keys", ".values") and len(it[2]) == 1 else None)
        if isinstance(d, HDict) and d.entries and all(e[0] != "**" and is_const(e[0]) for e in d.entries) and not getattr(d, "dirty", False):
            return [e[1] for e in d.entries] if it[0] == "call" and it[1] == ".values" else [e[0] for e in d.entries]
        return None

    @staticmethod
    def _yields_inside(stmts) -> bool:
        from .astutil import walk_no_nested_defs
        return any(isinstance(x, (ast.Yield, ast.YieldFrom)) for b in stmts for x in walk_no_nested_defs(b))

    def _fuse_for(self, s, st: State, tree: list, gref) -> Outcome:
        """``for x in gen(...): body``: the generator's body is executed with the loop body in place of each yield.
        The consumer's variables that the loop (re)binds travel through the generator's state as ``name^level`` so that
        branches and loops of the generator merge and carry them like its own variables."""
        g = self.obj(gref)
        level = len(self.fusions)
        names = self._assigned_names(s.body) | self._assigned_names([ast.Expr(value=s.target)]) | {
            n.id for n in ast.walk(s.target) if isinstance(n, ast.Name)}
        key = lambda nm: f"{nm}^{level}"
        fz = {"state": st, "names": names, "level": level}
        self.fusions.append(fz)
        carry = {key(nm): st.env[nm] for nm in names if nm in st.env}
        depth_here = len(self.stack)        # the consumer's frame is the top of the stack now

        def hook(v, gst, gtree, line, is_from=False):
            if is_from:
                gtree.append(("yieldfrom", v, line))
                return
            st.ext = gst.ext
            for nm in names:
                if key(nm) in gst.env:
                    st.env[nm] = gst.env[key(nm)]
            for k, val in gst.env.items():
                if "^" in k and not k.endswith(f"^{level}") and k in st.env:
                    st.env[k] = val
            self.bind_target(st, s.target, v)
            fz["in_body"] = True
            # the loop body belongs to the consumer's frame: the producer's frames are suspended while it runs
            suspended = self.stack[depth_here:]
            del self.stack[depth_here:]
            try:
                o = self.exec_block(s.body, st, gtree)
            finally:
                self.stack.extend(suspended)
                fz["in_body"] = False
            end = self._merge_exit(o.live, o.cont)
            if end is not None:
                st.env, st.ext = end.env, end.ext
            for nm in names:
                if nm in st.env:
                    gst.env[key(nm)] = st.env[nm]
            for k in list(gst.env):
                if "^" in k and not k.endswith(f"^{level}") and k in st.env:
                    gst.env[k] = st.env[k]
            gst.ext = st.ext
        try:
            final = self.run_generator(g, st, tree, hook, s, carry=carry)
        finally:
            self.fusions.pop()
        if final is not None:
            for nm in names:
                if key(nm) in final.env:
                    st.env[nm] = final.env[key(nm)]
        return Outcome(live=st)

    def _search_loop(self, s, st, tree):
        """``for x in xs: if TEST(x): break`` [``else: ...``]: a first-match search - the same thing as
        ``x = next((x for x in xs if TEST(x)), None)`` followed by ``if x is None: <else part>``."""
        it = self.ev(st, s.iter, tree)
        lid = next(self._loop)
        f = st.fork()
        self.bind_target(f, s.target, ("elem", lid), lid, it)
        sub: list = []
        c = self.ev(f, s.body[0].test, sub)
        self.loops[lid] = {"id": lid, "kind": "comp", "iter": it, "conds": (c,), "line": s.lineno, "carried": {}}
        tree.append(("loop", lid, sub))
        found = ("firstof", lid, ("elem", lid), NONE)
        st.env[s.target.id] = found
        return Outcome(live=st)

    @staticmethod
    def _is_search_loop(s) -> bool:
        return len(s.body) == 1 and isinstance(s.body[0], ast.If) and not s.body[0].orelse and len(s.body[0].body) == 1 \
            and isinstance(s.body[0].body[0], ast.Break) and isinstance(s.target, ast.Name) \
            and not any(isinstance(x, (ast.NamedExpr, ast.Yield, ast.YieldFrom, ast.Await)) for x in ast.walk(s.body[0].test))

    SCANS = ("gsa_prelude.p_accumulate_initial", "gsa_prelude.p_scan_inclusive")

    def _scan_zip(self, s, st, tree):
        """``for x, acc in zip(xs, accumulate((e(x) for x in xs), f, initial=a0))``: a running fold walked in step with its
        own source is the loop ``acc = a0; for x in xs: <body>; acc = f(acc, e(x))`` (the fold advanced before the body when
        the initial element was sliced off).  When xs is only the leading part of what the fold runs over, the fold object
        is left positioned after it, carrying its state."""
        it = s.iter
        if not (isinstance(it, ast.Call) and isinstance(it.func, ast.Name) and it.func.id == "zip" and "zip" not in st.env
                and len(it.args) == 2 and not it.keywords and not any(isinstance(a, ast.Starred) for a in it.args)
                and isinstance(s.target, (ast.Tuple, ast.List)) and len(s.target.elts) == 2 and not s.orelse):
            return None
        if any(isinstance(x, ast.Continue) for b in s.body for x in ast.walk(b)):
            return None
        if not isinstance(it.args[1], (ast.Name, ast.Call, ast.Attribute)):
            return None
        pst = st.fork()
        ptree: list = []
        a = self.ev(pst, it.args[0], ptree)
        g = self.ev(pst, it.args[1], ptree)
        G = self.obj(g)
        if not (isinstance(G, HGen) and G.qualname in self.SCANS and G.forced is None and not getattr(G, "consumed", False)
                and len(G.args) == 3):
            return None
        src, fn, init = G.args
        so = self.obj(src)
        if not (isinstance(so, HList) and len(so.segs) == 1 and so.segs[0][0] == "loop" and len(so.segs[0][2]) == 1
                and so.segs[0][2][0][0] == "e" and not getattr(so, "dirty", False)):
            return None
        lid0 = so.segs[0][1]
        info0 = self.loops.get(lid0, {})
        if info0.get("kind") != "comp" or info0.get("conds"):
            return None
        E = so.segs[0][2][0][1]
        X = info0.get("iter")

        def mentions(t, bad):
            return isinstance(t, tuple) and (t in bad or any(mentions(x, bad) for x in t))
        if mentions(E, {("idx", lid0)}):
            return None
        rest = None
        if a != X:
            xo = self.obj(X)
            if isinstance(xo, HList) and not getattr(xo, "dirty", False) and xo.segs == [("s", a)]:
                pass            # a copy of the same sequence
            elif isinstance(xo, HList) and not getattr(xo, "dirty", False) and len(xo.segs) > 1 and xo.segs[0] == ("s", a):
                rest = list(xo.segs[1:])
            else:
                return None
        st.env, st.ext = pst.env, pst.ext
        tree.extend(ptree)
        k = next(self._loop)
        nx, nacc, nsrc = f"__scan{k}_x", f"__scan{k}_acc", f"__scan{k}_src"
        st.env[nsrc] = a
        st.env[nacc] = init

        def subst(t, old, new):
            if not isinstance(t, tuple):
                return t
            if t == old:
                return new
            return tuple(subst(x, old, new) for x in t)

        def step(st2, tree2):
            e = subst(E, ("elem", lid0), st2.env[nx])
            return self.apply(st2, fn, [st2.env[nacc], e], {}, s, tree2)
        hook = ast.Constant(value=None)
        hook._term_hook = step
        L = lambda nm: ast.Name(id=nm, ctx=ast.Load())
        bind_x = ast.Assign(targets=[s.target.elts[0]], value=L(nx))
        bind_acc = ast.Assign(targets=[s.target.elts[1]], value=L(nacc))
        advance = ast.Assign(targets=[ast.Name(id=nacc, ctx=ast.Store())], value=hook)
        if G.qualname.endswith("p_scan_inclusive"):
            body = [bind_x, advance, bind_acc] + list(s.body)
        else:
            body = [bind_x, bind_acc] + list(s.body) + [advance]
        loop = ast.For(target=ast.Name(id=nx, ctx=ast.Store()), iter=L(nsrc), body=body, orelse=[])
        for n_ in (loop, bind_x, bind_acc, advance):
            ast.copy_location(n_, s)
        ast.fix_missing_locations(loop)
        out = self._loop_common(loop, st, tree, "for")
        if rest is None:
            G.consumed = True
        elif out.live is not None:
            # the fold continues over what follows the part walked here, from the state it reached
            lid1 = next(self._loop)
            rl = self.alloc(HList(rest, so.origin))
            self.loops[lid1] = dict(info0, id=lid1, iter=rl)
            m = self.alloc(HList([("loop", lid1, [("e", subst(E, ("elem", lid0), ("elem", lid1)))])], so.origin))
            G.args = (m, fn, out.live.env.get(nacc, init))
        return out

    def st_For(self, s, st, tree):
        if not s.orelse and self._is_search_loop(s):
            return self._search_loop(s, st, tree)
        sc = self._scan_zip(s, st, tree)
        if sc is not None:
            return sc
        # a loop over a lazy generator of the repository is fused with the generator's body
        if isinstance(s.iter, (ast.Call, ast.Name)) and not s.orelse:
            exits = any(isinstance(x, (ast.Break, ast.Return)) for b in s.body for x in ast.walk(b))
            if not exits:
                probe_tree: list = []
                pst = st.fork()
                itv = self.ev(pst, s.iter, probe_tree)
                g = self.obj(itv)
                if isinstance(g, HGen) and g.fi is not None and g.forced is None and g.qualname not in self.no_fuse \
                        and not getattr(g, "consumed", False):
                    g.consumed = True       # a generator object is iterated once; a second loop over it would see nothing
                    st.env, st.ext = pst.env, pst.ext
                    tree.extend(probe_tree)
                    return self._fuse_for(s, st, tree, itv)
                # not a generator: evaluate normally below (the probe allocated nothing observable)
        # a loop over a small constant table is unrolled (first-match scans over dispatch tables, opener lists ...)
        has_continue = any(isinstance(n, ast.Continue) for b in s.body for n in ast.walk(b))
        if not has_continue and not s.orelse:
            probe: list = []
            it = self.ev(st.fork(), s.iter, probe)
            elems = self._unroll_elems(it) if self._effect_free(probe) else None
            if elems is not None and 0 < len(elems) <= 16 and not any(n[0] == "mutate" and n[1] == it for n in tree):
                self.ev(st, s.iter, tree)
                return self._unrolled(s, st, tree, elems, 0)
        if not s.orelse:
            probe2: list = []
            it2 = self.ev(st.fork(), s.iter, probe2)
            if self._effect_free(probe2) and self._known_empty(it2, tree):
                self.ev(st, s.iter, tree)
                return Outcome(live=st)         # nothing to walk: the body never runs
        return self._loop_common(s, st, tree, "for")

    def _mutated(self, t):
        """note that the object named by term t is changed in place somewhere (returns t)"""
        if isinstance(t, tuple) and t and t[0] == "ref":
            getattr(self, "_mutated_refs", None) is None and setattr(self, "_mutated_refs", set())
            self._mutated_refs.add(t)
            if t in getattr(self, "_assumed_empty", ()):
                raise AnalysisError("a list taken as empty where a loop walked it is filled later in the same analysis (loop-carried accumulator walked before it grows)")
        return t

    def _known_empty(self, it, tree=None, depth=0) -> bool:
        """``it`` is a sequence known to have no elements: an empty display nobody has touched, or zip / enumerate / reversed /
        list / tuple / iter / sorted of one."""
        if not isinstance(it, tuple) or not it or depth > 4:
            return False
        if it == ("tuple", ()):
            return True
        o = self.obj(it)
        if isinstance(o, HList):
            # ... and made inside the innermost running loop's iteration (a list that is empty now may have been filled by the
            # time the next iteration gets here - the abstract iteration stands for all of them)
            marks = getattr(self, "_loop_heap_marks", [])
            ok = not o.segs and not getattr(o, "dirty", False) and it not in getattr(self, "_mutated_refs", ())
            if ok and marks and it[1] <= marks[-1]:
                # made before the running loop's iteration: taken as empty on the assumption that nothing fills it later - a later
                # in-place change of this very object stops the analysis (see _mutated) instead of yielding a wrong normal form
                if not hasattr(self, "_assumed_empty"):
                    self._assumed_empty = set()
                self._assumed_empty.add(it)
            return ok
        if it[0] == "call" and it[1] in ("zip", "enumerate", "reversed", "list", "tuple", "iter", "sorted") and it[2]:
            args = it[2] if it[1] == "zip" else it[2][:1]
            return any(self._known_empty(a, tree, depth + 1) for a in args) and (it[1] != "zip" or not any(k == "strict" for k, _ in (it[3] or ())))
        return False

    def _unrolled(self, s, st, tree, elems, i) -> Outcome:
        """Iterations i.. of an unrolled loop; later iterations are nested in the branch of the current one that stays live."""
        if i >= len(elems):
            return Outcome(live=st)
        self.bind_target(st, s.target, elems[i])
        marker = ast.Pass()
        marker._unroll = (s, elems, i + 1)
        o = self.exec_block(list(s.body) + [marker], st, tree)
        # a break ends the loop; the code after the loop runs on the merged state
        if o.brk is not None:
            live = merge_states(o.brkc, o.brk, o.live) if (o.live is not None and o.brkc is not None) else self._merge_exit(o.live, o.brk)
            return Outcome(live=live, ret=o.ret, cont=o.cont, retc=o.retc, contc=o.contc)
        return o

    def st_While(self, s, st, tree):
        return self._loop_common(s, st, tree, "while")

    def st_With(self, s, st, tree):
        for it in s.items:
            v = self.ev(st, it.context_expr, tree)
            if it.optional_vars is not None:
                self.assign(st, it.optional_vars, v, tree, s.lineno)
        return self.exec_block_into(s.body, st, tree)

    def exec_block_into(self, stmts, st, tree):
        return self.exec_block(stmts, st, tree)

    def st_Try(self, s, st, tree):
        tb: list = []
        fb = st.fork()
        ob = self.exec_block(s.body, fb, tb)
        if s.orelse and ob.live is not None:
            # the else part continues the protected block when it raised nothing (its own exceptions are not caught here;
            # for the effect tree it simply follows the body)
            o_else = self.exec_block(s.orelse, ob.live, tb)
            merged = Outcome(live=o_else.live)
            self._acc(merged, ob)
            self._acc(merged, o_else)
            merged.live = o_else.live
            ob = merged
        handlers = []
        outs = [ob]
        # ``except (A, B) as e: body`` is ``except A as e: body`` followed by ``except B as e: body``
        split = []
        for h in s.handlers:
            if isinstance(h.type, ast.Tuple) and h.type.elts:
                split.extend((h, t, None) for t in h.type.elts)
                continue
            dyn = None
            if h.type is not None and not isinstance(h.type, ast.Attribute):
                act0 = self.stack[-1] if self.stack else None
                known = act0 is not None and act0.fi is not None and isinstance(h.type, ast.Name) \
                    and self.facts.annotation_class(act0.fi.module, h.type) is not None
                if not known:
                    # the caught types are computed (a variable, a class-level tuple, a choice between tuples)
                    dyn = self._handler_alternatives(self.ev(st.fork(), h.type, []))
            if dyn:
                for guards, cq in dyn:
                    nm = ast.Name(id=cq.rsplit(".", 1)[1], ctx=ast.Load())
                    nm._class_q = cq
                    split.append((h, nm, guards))
            else:
                split.append((h, h.type, None))
        for h, htype, hguards in split:
            fh = st.fork()
            # a handler may start from any point of the body: attribute stores of the body are uncertain
            for k2, v2 in (ob.live.ext if ob.live else fb.ext).items():
                if fh.ext.get(k2) != v2:
                    fh.ext[k2] = ("maybe", fh.ext.get(k2, ("attr", k2[0], k2[1])), v2)
            eid = next(self._exc)
            tname = ast.unparse(htype) if htype is not None else None
            if h.name:
                xv = ("excvar", eid, tname or "BaseException")
                fh.env[h.name] = xv
                act = self.stack[-1] if self.stack else None
                if htype is not None and act is not None and act.fi is not None:
                    ci = self.facts.cls(htype._class_q) if getattr(htype, "_class_q", None) else self.facts.annotation_class(act.fi.module, htype)
                    if ci is not None:
                        self.types.setdefault(xv, ci)
            th: list = []
            oh = self.exec_block(h.body, fh, th)
            if hguards:
                # this class is caught only while the computed tuple contains it; otherwise the exception passes through
                for c_, p_ in reversed(hguards):
                    rr = [("raise", ("reraise",), h.lineno)]
                    th = [("if", c_, th, rr, h.lineno)] if p_ else [("if", c_, rr, th, h.lineno)]
            handlers.append((tname, h.name, th, h.lineno, eid))
            outs.append(oh)
        tree.append(("try", tb, handlers, s.lineno))
        res = Outcome()
        for i, o in enumerate(outs):
            c = ("exc_path", s.lineno, i)
            res.live = merge_states(c, o.live, res.live) if (o.live and res.live) else (o.live or res.live)
            res.ret, res.retc = join_exit(res.ret, None, o.ret, None)
            res.brk, res.brkc = join_exit(res.brk, None, o.brk, None)
            res.cont, res.contc = join_exit(res.cont, None, o.cont, None)
        if s.finalbody:
            # the finally part runs on every way out (fall-through, return, break, continue); its effects are recorded once
            first = True
            for kind in ("live", "ret", "brk", "cont"):
                stx = getattr(res, kind)
                if stx is None:
                    continue
                keep_ret = stx.env.get("__ret__")
                o3 = self.exec_block(s.finalbody, stx, tree if first else [])
                first = False
                if o3.live is not None:
                    if keep_ret is not None:
                        o3.live.env["__ret__"] = keep_ret
                    setattr(res, kind, o3.live)
                if o3.ret is not None:       # a return inside finally overrides
                    res.ret, res.retc = o3.ret, o3.retc
        return res

    def _handler_alternatives(self, tv, guards=()):
        """[(guards, class qualname)] for a computed ``except`` type: a class, a tuple of classes, or a decision between such."""
        if tv[0] == "class":
            return [(guards, tv[1])]
        if tv[0] == "tuple":
            out = []
            for x in tv[1]:
                r = self._handler_alternatives(x, guards)
                if r is None:
                    return None
                out += r
            return out
        if tv[0] == "cond":
            a = self._handler_alternatives(tv[2], guards + ((tv[1], True),))
            b = self._handler_alternatives(tv[3], guards + ((tv[1], False),))
            if a is None or b is None:
                return None
            return a + b
        return None

    def st_FunctionDef(self, s, st, tree):
        act = self.stack[-1]
        if act.fi is not None:
            cid = len(self.closures) + 1
            self.closures[cid] = (FuncInfo(act.fi.module, None, s), dict(st.env))
            st.env[s.name] = ("closure", cid)
        else:
            st.env[s.name] = ("localfunc", s.name, s.lineno)
        return Outcome(live=st)

    def st_ClassDef(self, s, st, tree):
        st.env[s.name] = ("localfunc", s.name, s.lineno)
        return Outcome(live=st)

    def eval_attr(self, cls: ClassInfo, name: str):
        """Normal form of ``<instance of cls>.name`` (method -> bound, property / property object -> its value)."""
        selft = ("param", "self")
        self.types[selft] = cls
        init = cls.find_method("__init__") or next(iter(cls.methods.values()), None)
        fi = init if init is not None else FuncInfo(cls.module, cls, ast.parse("def _(): pass").body[0])
        self.stack.append(Activation(fi, 0))
        try:
            tree: list = []
            v = self.get_attr(State(), selft, name, None, tree)
        finally:
            self.stack.pop()
        return v, tree

    # -- entry --------------------------------------------------------------------------
    def run(self, qualname: str, args: dict | None = None, ext: dict | None = None):
        """Analyse function ``qualname`` with symbolic parameters.  Returns (tree, return term, state)."""
        fi = self.facts.func(qualname)
        st = State()
        a = fi.node.args
        for i, p in enumerate(a.posonlyargs + a.args + a.kwonlyargs):
            t = ("param", p.arg)
            st.env[p.arg] = t
            if i == 0 and fi.cls is not None and fi.is_classmethod:
                st.env[p.arg] = ("class", fi.cls.qualname)
            elif i == 0 and fi.cls is not None and not fi.is_static:
                # self is an instance of the class the method was asked for (an inherited method analysed on a subclass
                # dispatches to the subclass's overrides)
                named = None
                try:
                    named = self.facts.cls(qualname.rpartition(".")[0])
                except Exception:
                    named = None
                pre = self.types.get(t)
                if pre is not None and fi.cls in pre.mro():
                    pass            # the caller said which subclass the receiver is
                else:
                    self.types[t] = named if (named is not None and fi.cls in named.mro()) else fi.cls
            else:
                c = self.facts.annotation_class(fi.module, p.annotation)
                if c is not None:
                    self.types[t] = c
        if args:
            for k, v in args.items():
                st.env[k] = v
        if ext:
            st.ext.update(ext)
        act = Activation(fi, 0)
        self.stack.append(act)
        try:
            tree: list = []
            # an optional parameter the function did not have when the properties were stated is evaluated at its default:
            # that is what every caller of the API as stated gets (the properties quantify over the parameters of that API)
            for name, dflt in _added_optional_params(fi):
                if not (args and name in args):
                    st.env[name] = self.ev(st, dflt, tree)
            w = self._decorated(fi) if fi.node.decorator_list else None
            if w is not None and w[0] != "rawfunc":
                # the name is bound to what the repository's decorators made of the function: that is what callers run
                a_ = fi.node.args
                rv_ = self.apply(st, w, [st.env[p_.arg] for p_ in a_.posonlyargs + a_.args], {}, fi.node, tree)
                st.env["__ret__"] = rv_
                out = Outcome(ret=st, retc=TRUE)
            else:
                out = self.exec_block(fi.node.body, st, tree)
        finally:
            self.stack.pop()
        rv = NONE
        if out.ret is not None:
            rv = out.ret.env.get("__ret__", NONE)
            if out.live is not None:
                rv = mk_cond(out.retc if out.retc is not None else ("returned", act.id), rv, NONE)
        final = self._merge_exit(out.live, out.ret)
        return tree, rv, final


_API_SIGNATURES = None


def _added_optional_params(fi):
    """(name, default expression) of the parameters of ``fi`` that have a default and are not part of the function's signature
    as recorded in gsa/api_signatures.json (by name, or by position among the positional ones)."""
    global _API_SIGNATURES
    if _API_SIGNATURES is None:
        import json
        import os
        with open(os.path.join(os.path.dirname(os.path.abspath(__file__)), "api_signatures.json"), encoding="utf-8") as fh:
            _API_SIGNATURES = json.load(fh)
    sig = _API_SIGNATURES.get(fi.qualname)
    if sig is None:
        return []
    a = fi.node.args
    pos = a.posonlyargs + a.args
    out = []
    for i, p_ in enumerate(pos):
        j = i - (len(pos) - len(a.defaults))
        if j >= 0 and p_.arg not in sig["pos"] and p_.arg not in sig["kwonly"] and i >= len(sig["pos"]):
            out.append((p_.arg, a.defaults[j]))
    for p_, d in zip(a.kwonlyargs, a.kw_defaults):
        if d is not None and p_.arg not in sig["kwonly"] and p_.arg not in sig["pos"]:
            out.append((p_.arg, d))
    return out


def _iter_nodes(tree):
    for n in tree:
        yield n, None
        if n[0] == "if":
            yield from _iter_nodes(n[2])
            yield from _iter_nodes(n[3])
        elif n[0] in ("loop", "call"):
            yield from _iter_nodes(n[2])
        elif n[0] == "try":
            yield from _iter_nodes(n[1])
            for h in n[2]:
                yield from _iter_nodes(h[2])


def _draw_intrinsic(I: Interp, st, fi, args, kwargs, n, tree):
    serial = next(I._draw)
    tree.append(("draw", serial, getattr(n, "lineno", None), args[0] if args else None))
    return ("drawn", serial)


def new_interp() -> Interp:
    I = Interp()
    if I.facts.has_func("gherkin.stream.id_generator.IdGenerator.get_next_id"):
        I.intrinsics["gherkin.stream.id_generator.IdGenerator.get_next_id"] = _draw_intrinsic
    return I


# ---- helpers for rules ---------------------------------------------------------------------
def fmt(t, I: Interp | None = None, depth=0) -> str:
    """Readable rendering of a term (for reports)."""
    if not isinstance(t, tuple) or not t:
        return repr(t)
    k = t[0]
    if depth > 8:
        return "..."
    f = lambda x: fmt(x, I, depth + 1)
    if k == "const":
        return repr(t[1])
    if k == "param":
        return t[1]
    if k == "attr":
        return f"{f(t[1])}.{t[2]}"
    if k == "item":
        return f"{f(t[1])}[{f(t[2])}]"
    if k == "slice":
        return f"{f(t[1])}[{'' if t[2] == NONE else f(t[2])}:{'' if t[3] == NONE else f(t[3])}]"
    if k == "call":
        return f"{t[1]}({', '.join(f(a) for a in t[2])}{''.join(', %s=%s' % (k2, f(v)) for k2, v in t[3])})"
    if k == "cond":
        return f"({f(t[2])} if {f(t[1])} else {f(t[3])})"
    if k == "binop":
        sym = {"Add": "+", "Sub": "-", "Mult": "*", "Mod": "%"}.get(t[1], t[1])
        return f"({f(t[2])} {sym} {f(t[3])})"
    if k == "cmp":
        sym = {"Eq": "==", "Is": "is", "In": "in", "Gt": ">", "Lt": "<", "GtE": ">=", "LtE": "<=", "NotEq": "!="}.get(t[1], t[1])
        return f"({f(t[2])} {sym} {f(t[3])})"
    if k == "not":
        return f"not {f(t[1])}"
    if k == "bool":
        return "(" + f" {t[1]} ".join(f(x) for x in t[2]) + ")"
    if k == "tuple":
        return "(" + ", ".join(f(x) for x in t[1]) + ")"
    if k == "elem":
        return f"elem#{t[1]}"
    if k == "idx":
        return f"idx#{t[1]}"
    if k == "phi":
        return f"phi#{t[1]}.{t[2]}"
    if k == "loopout":
        return f"after#{t[1]}.{t[2]}"
    if k == "drawn":
        return f"id#{t[1]}"
    if k == "dropnone":
        return f"dropnone({f(t[1])})"
    if k == "fstr":
        return "f'" + "".join("{" + f(p) + "}" if not is_const(p) else str(p[1]) for p in t[1]) + "'"
    if k == "ref" and I is not None:
        o = I.heap.get(t[1])
        if isinstance(o, HList):
            return "[" + ", ".join(fmt_seg(s, I, depth + 1) for s in o.segs) + f"]@{t[1]}"
        if isinstance(o, HDict):
            return "{" + ", ".join(("**" + f(e[1])) if e[0] == "**" else f"{f(e[0])}: {f(e[1])}" for e in o.entries) + f"}}@{t[1]}"
        if isinstance(o, HInst):
            return f"<{o.cls.name}@{t[1]}>"
        if isinstance(o, HGen):
            return f"<gen {o.qualname}@{t[1]}>"
    return "<" + " ".join(str(x) if not isinstance(x, tuple) else f(x) for x in t) + ">"


def fmt_seg(s, I, depth=0) -> str:
    if s[0] == "e":
        return fmt(s[1], I, depth)
    if s[0] == "s":
        return "*" + fmt(s[1], I, depth)
    if s[0] == "loop":
        return f"for#{s[1]}(" + ", ".join(fmt_seg(x, I, depth + 1) for x in s[2]) + ")"
    return repr(s)


def fmt_tree(tree, I, indent=0) -> list[str]:
    out = []
    pad = "  " * indent
    for n in tree:
        k = n[0]
        if k == "if":
            out.append(f"{pad}if {fmt(n[1], I)}:  # L{n[4]}")
            out += fmt_tree(n[2], I, indent + 1)
            if n[3]:
                out.append(f"{pad}else:")
                out += fmt_tree(n[3], I, indent + 1)
        elif k == "loop":
            info = I.loops.get(n[1], {})
            hd = fmt(info.get("iter"), I) if "iter" in info else ("while " + fmt(info.get("test"), I))
            conds = info.get("conds")
            out.append(f"{pad}loop#{n[1]} over {hd}" + (f" if {[fmt(c, I) for c in conds]}" if conds else "") + f":  # L{info.get('line')}")
            out += fmt_tree(n[2], I, indent + 1)
            for nm, v in info.get("carried", {}).items():
                out.append(f"{pad}  carried {nm} := {fmt(v, I)}")
        elif k == "call":
            out.append(f"{pad}call {n[1]}:  # L{n[3]}")
            out += fmt_tree(n[2], I, indent + 1)
        elif k == "try":
            out.append(f"{pad}try:")
            out += fmt_tree(n[1], I, indent + 1)
            for h in n[2]:
                out.append(f"{pad}except {h[0]} as {h[1]}:")
                out += fmt_tree(h[2], I, indent + 1)
        else:
            out.append(pad + k + " " + " ".join(fmt(x, I) if isinstance(x, tuple) else str(x) for x in n[1:]))
    return out
