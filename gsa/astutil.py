"""Small AST helpers shared by the structural rules."""
from __future__ import annotations

import ast


def unparse(n: ast.AST | None) -> str:
    return ast.unparse(n) if n is not None else ""


def is_self_attr(n: ast.AST, attr: str | None = None) -> bool:
    return isinstance(n, ast.Attribute) and isinstance(n.value, ast.Name) and n.value.id == "self" \
        and (attr is None or n.attr == attr)


def call_name(n: ast.AST) -> str | None:
    """Dotted name of a call's callee, e.g. 'self.ast_builder.reset', 're.sub', 'len'."""
    if not isinstance(n, ast.Call):
        return None
    return dotted(n.func)


def dotted(n: ast.AST) -> str | None:
    if isinstance(n, ast.Name):
        return n.id
    if isinstance(n, ast.Attribute):
        b = dotted(n.value)
        return f"{b}.{n.attr}" if b is not None else None
    return None


def xdotted(n: ast.AST, mod) -> str | None:
    """``dotted`` with the leading name resolved through the module's imports: ``re_sub`` after ``from re import sub as
    re_sub`` and ``regex.sub`` after ``import re as regex`` are both ``re.sub``.  ``mod``: a ModInfo (or its imports dict)."""
    d = dotted(n)
    if d is None:
        return None
    imports = getattr(mod, "imports", mod) or {}
    head, _, rest = d.partition(".")
    if head in imports:
        m, attr = imports[head]
        if attr is None:
            base = head if (m == head or m.startswith(head + ".")) else m       # import os.path binds "os"
        else:
            base = f"{m}.{attr}" if m else attr
        return base + ("." + rest if rest else "")
    return d


def body_wo_doc(fn: ast.FunctionDef) -> list[ast.stmt]:
    b = list(fn.body)
    if b and isinstance(b[0], ast.Expr) and isinstance(b[0].value, ast.Constant) and isinstance(b[0].value.value, str):
        b = b[1:]
    return b


def walk_no_nested_defs(node: ast.AST):
    """ast.walk that does not descend into nested function/class definitions."""
    stack = [node]
    while stack:
        n = stack.pop()
        yield n
        for c in ast.iter_child_nodes(n):
            if isinstance(c, (ast.FunctionDef, ast.AsyncFunctionDef, ast.ClassDef, ast.Lambda)) and c is not node:
                continue
            stack.append(c)


def const_value(n: ast.AST):
    if isinstance(n, ast.Constant):
        return n.value
    if isinstance(n, ast.UnaryOp) and isinstance(n.op, ast.USub) and isinstance(n.operand, ast.Constant):
        return -n.operand.value
    raise ValueError


def is_const(n: ast.AST, value=...) -> bool:
    try:
        v = const_value(n)
    except ValueError:
        return False
    return value is ... or (v == value and type(v) is type(value))


def linear_events(stmts: list[ast.stmt], classify):
    """Depth-first, program-order list of (event, node, depth-path) where classify(node) returns an
    event or None; compound statements are entered (If/For/While/Try/With) and bracketed."""
    out = []

    def rec(ss, path):
        for s in ss:
            ev = classify(s)
            if ev is not None:
                out.append((ev, s, path))
                continue
            if isinstance(s, ast.If):
                out.append((("if", unparse(s.test)), s, path))
                rec(s.body, path + (("if", id(s)),))
                if s.orelse:
                    out.append((("else",), s, path))
                    rec(s.orelse, path + (("else", id(s)),))
                out.append((("endif",), s, path))
            elif isinstance(s, (ast.For, ast.While)):
                out.append((("loop", unparse(s.test) if isinstance(s, ast.While) else unparse(s.iter)), s, path))
                rec(s.body, path + (("loop", id(s)),))
                out.append((("endloop",), s, path))
                if s.orelse:
                    rec(s.orelse, path)
            elif isinstance(s, ast.Try):
                out.append((("try",), s, path))
                rec(s.body, path + (("try", id(s)),))
                for h in s.handlers:
                    out.append((("except", unparse(h.type)), h, path))
                    rec(h.body, path + (("except", id(h)),))
                if s.finalbody:
                    rec(s.finalbody, path)
                out.append((("endtry",), s, path))
            elif isinstance(s, ast.With):
                rec(s.body, path)
            else:
                out.append((("stmt", unparse(s)), s, path))

    rec(stmts, ())
    return out
