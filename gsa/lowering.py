"""Source-level lowerings applied to a module's syntax tree before it is indexed, so that every analysis (call graph,
exception flow, abstract interpretation, the role finders) sees one spelling of a construct.

``with self.cm(args): BODY`` / ``with cm(args): BODY`` where ``cm`` is a generator of the same class / module decorated with
``contextlib.contextmanager`` becomes the generator's body with BODY in place of its ``yield``:

    @contextmanager                          def use(self, ctx):
    def cm(self, ctx):                           if self.flag:
        if self.flag:                                BODY
            yield                                else:
            return                                   try:
        try:                      ==>                    BODY
            yield                                    except E as __cm1_e:
        except E as e:                                   self.note(ctx, __cm1_e)
            self.note(ctx, e)                        ...rest of use

That is what running the generator up to its yield, the block, and the generator's remainder (normally, or with the block's
exception thrown in at the yield) does - under the conditions checked here, and only then:
  * the generator is a plain function of positional / keyword parameters, its yields are statements (``yield`` / ``yield v``),
    every path has at most one of them, and its only ``return``s are bare ones closing an ``if`` branch (turned into if/else);
  * when BODY leaves by return / break / continue, nothing of the generator follows the yield on the normal path (else the
    remainder would be skipped by the inlined jump while ``__exit__`` would still run it);
  * the call's arguments are names, attributes or constant-key items of names, or constants (evaluated once, no effects).
Anything else is left as it was written.  A context manager all of whose uses were lowered is dropped from its class / module
(its code now lives at the use sites); one with other references stays."""
from __future__ import annotations

import ast
import copy
import itertools

_ids = itertools.count(1)


def _is_cm(fn) -> bool:
    for d in fn.decorator_list:
        nm = d.attr if isinstance(d, ast.Attribute) else (d.id if isinstance(d, ast.Name) else "")
        if nm == "contextmanager":
            return True
    return False


def _walk_same_function(node):
    """statements / expressions of a function body without nested function or class definitions"""
    todo = list(node) if isinstance(node, list) else [node]
    while todo:
        n = todo.pop()
        yield n
        for ch in ast.iter_child_nodes(n):
            if isinstance(ch, (ast.FunctionDef, ast.AsyncFunctionDef, ast.Lambda, ast.ClassDef)):
                continue
            todo.append(ch)


def _elim_returns(stmts):
    """``if c: ...; return`` followed by the rest  ->  ``if c: ... else: rest`` (recursively); a trailing bare return is dropped"""
    stmts = list(stmts)
    if stmts and isinstance(stmts[-1], ast.Return) and stmts[-1].value is None:
        stmts = stmts[:-1]
    for i, st in enumerate(stmts):
        if isinstance(st, ast.If) and not st.orelse and st.body and isinstance(st.body[-1], ast.Return) and st.body[-1].value is None:
            new = ast.If(test=st.test, body=_elim_returns(st.body[:-1]) or [ast.Pass()], orelse=_elim_returns(stmts[i + 1:]))
            ast.copy_location(new, st)
            return stmts[:i] + [new]
    return stmts


def _simple_arg(e) -> bool:
    if isinstance(e, (ast.Name, ast.Constant)):
        return True
    if isinstance(e, ast.Subscript):
        return _simple_arg(e.value) and isinstance(e.slice, ast.Constant)       # rule["tags"]: a read without effects
    return isinstance(e, ast.Attribute) and _simple_arg(e.value)


def _yield_in_tail(stmts) -> bool:
    """every yield statement is the last thing its path does (nothing of the generator follows it on the normal path)"""
    for i, st in enumerate(stmts):
        last = i == len(stmts) - 1
        has = any(isinstance(x, ast.Yield) for x in _walk_same_function(st))
        if not has:
            continue
        if not last:
            return False
        if isinstance(st, ast.Expr) and isinstance(st.value, ast.Yield):
            return True
        if isinstance(st, ast.If):
            return _yield_in_tail(st.body) and _yield_in_tail(st.orelse)
        if isinstance(st, ast.Try):
            if st.orelse or st.finalbody or any(isinstance(x, ast.Yield) for h in st.handlers for x in _walk_same_function(h.body)):
                return False
            return _yield_in_tail(st.body)
        return False
    return True


def _lower_one(gen: ast.FunctionDef, call: ast.Call, as_target, body, receiver):
    a = gen.args
    if a.vararg or a.kwarg or a.kwonlyargs or isinstance(gen, ast.AsyncFunctionDef):
        return None
    params = [p.arg for p in a.posonlyargs + a.args]
    if receiver is not None:
        if not params:
            return None
        self_name, params = params[0], params[1:]
    else:
        self_name = None
    defaults = dict(zip(params[len(params) - len(a.defaults):], a.defaults)) if a.defaults else {}
    if len(call.args) > len(params) or any(isinstance(x, ast.Starred) for x in call.args) or any(k.arg is None for k in call.keywords):
        return None
    bound = dict(zip(params, call.args))
    for k in call.keywords:
        if k.arg not in params or k.arg in bound:
            return None
        bound[k.arg] = k.value
    for p_ in params:
        if p_ not in bound:
            if p_ not in defaults or not isinstance(defaults[p_], ast.Constant):
                return None
            bound[p_] = defaults[p_]
    if not all(_simple_arg(v) for v in bound.values()):
        return None
    gbody = [s for s in gen.body if not (isinstance(s, ast.Expr) and isinstance(s.value, ast.Constant) and isinstance(s.value.value, str))]
    gbody = _elim_returns(copy.deepcopy(gbody))
    nodes = list(_walk_same_function(gbody))
    if any(isinstance(x, (ast.Return, ast.YieldFrom, ast.Await, ast.Global, ast.Nonlocal)) for x in nodes):
        return None
    yields = [x for x in nodes if isinstance(x, ast.Yield)]
    ystmts = [x for x in nodes if isinstance(x, ast.Expr) and isinstance(x.value, ast.Yield)]
    if not yields or len(yields) != len(ystmts):
        return None
    # a yield inside a loop could run the block twice
    def in_loop(stmts, inside=False):
        for st in stmts:
            if isinstance(st, ast.Expr) and isinstance(st.value, ast.Yield) and inside:
                return True
            for fld in ("body", "orelse", "finalbody"):
                sub = getattr(st, fld, None)
                if isinstance(sub, list) and sub and isinstance(sub[0], ast.stmt) and in_loop(sub, inside or isinstance(st, (ast.For, ast.While))):
                    return True
            for h in getattr(st, "handlers", []) or []:
                if in_loop(h.body, inside):
                    return True
        return False
    if in_loop(gbody):
        return None
    # at most one yield per path: two yields never follow each other in one statement list
    def seq_ok(stmts):
        seen = False
        for st in stmts:
            has = any(isinstance(x, ast.Yield) for x in _walk_same_function(st))
            if has and seen:
                return False
            seen = seen or has
            for fld in ("body", "orelse", "finalbody"):
                sub = getattr(st, fld, None)
                if isinstance(sub, list) and sub and isinstance(sub[0], ast.stmt) and not seq_ok(sub):
                    return False
            if isinstance(st, ast.Try):
                if any(isinstance(x, ast.Yield) for x in _walk_same_function(st.body)) and \
                        any(isinstance(x, ast.Yield) for part in ([h.body for h in st.handlers] + [st.orelse, st.finalbody]) for x in _walk_same_function(part)):
                    return False
        return True
    if not seq_ok(gbody):
        return None
    jumps = any(isinstance(x, (ast.Return, ast.Break, ast.Continue)) for x in _walk_same_function(list(body)))
    if jumps and not _yield_in_tail(gbody):
        return None
    k = next(_ids)
    pre = []
    rename = {}
    for p_, v in bound.items():
        if isinstance(v, ast.Name) and v.id == p_:
            continue
        rename[p_] = f"__cm{k}_{p_}"
        asg = ast.Assign(targets=[ast.Name(id=rename[p_], ctx=ast.Store())], value=copy.deepcopy(v))
        pre.append(ast.copy_location(asg, call))
    if self_name is not None and not (isinstance(receiver, ast.Name) and receiver.id == self_name):
        rename[self_name] = f"__cm{k}_{self_name}"
        asg = ast.Assign(targets=[ast.Name(id=rename[self_name], ctx=ast.Store())], value=copy.deepcopy(receiver))
        pre.append(ast.copy_location(asg, call))
    for x in nodes:
        if isinstance(x, ast.Name) and isinstance(x.ctx, (ast.Store, ast.Del)) and x.id not in rename and x.id not in bound and x.id != self_name:
            rename[x.id] = f"__cm{k}_{x.id}"
        if isinstance(x, ast.ExceptHandler) and x.name and x.name not in rename:
            rename[x.name] = f"__cm{k}_{x.name}"

    class Ren(ast.NodeTransformer):
        def visit_Name(self, n):
            if n.id in rename:
                return ast.copy_location(ast.Name(id=rename[n.id], ctx=n.ctx), n)
            return n

        def visit_ExceptHandler(self, n):
            self.generic_visit(n)
            if n.name in rename:
                n.name = rename[n.name]
            return n

        def visit_Expr(self, n):
            if isinstance(n.value, ast.Yield):
                out = []
                if as_target is not None:
                    val = self.visit(n.value.value) if n.value.value is not None else ast.Constant(value=None)
                    out.append(ast.copy_location(ast.Assign(targets=[copy.deepcopy(as_target)], value=val), n))
                out.extend(copy.deepcopy(body))
                return out
            return self.generic_visit(n)
    out = []
    for st in gbody:
        r = Ren().visit(st)
        out.extend(r if isinstance(r, list) else [r])
    res = pre + out
    for st in res:
        for x in ast.walk(st):
            if not hasattr(x, "lineno"):
                ast.copy_location(x, call)
        ast.fix_missing_locations(st)
    return res


def lower_contextmanagers(tree: ast.Module) -> ast.Module:
    mod_cms = {st.name: st for st in tree.body if isinstance(st, ast.FunctionDef) and _is_cm(st)}
    used_lowered: set = set()

    def process_function(fn, cls_cms):
        selfname = fn.args.posonlyargs[0].arg if fn.args.posonlyargs else (fn.args.args[0].arg if fn.args.args else None)

        class T(ast.NodeTransformer):
            def visit_FunctionDef(self, n):
                return n if n is not fn else self.generic_visit(n)
            visit_AsyncFunctionDef = visit_FunctionDef

            def visit_Lambda(self, n):
                return n

            def visit_ClassDef(self, n):
                return n

            def visit_With(self, n):
                self.generic_visit(n)
                if len(n.items) != 1:
                    return n
                it = n.items[0]
                c = it.context_expr
                if not isinstance(c, ast.Call):
                    return n
                gen = recv = None
                key = None
                if isinstance(c.func, ast.Attribute) and isinstance(c.func.value, ast.Name) and c.func.value.id == selfname and c.func.attr in cls_cms:
                    gen, recv, key = cls_cms[c.func.attr], c.func.value, ("m", id(cls_cms), c.func.attr)
                elif isinstance(c.func, ast.Name) and c.func.id in mod_cms:
                    gen, recv, key = mod_cms[c.func.id], None, ("f", c.func.id)
                if gen is None or gen is fn:
                    return n
                low = _lower_one(gen, c, it.optional_vars, n.body, recv)
                if low is None:
                    return n
                used_lowered.add(key)
                return low
        T().visit(fn)

    for st in tree.body:
        if isinstance(st, ast.FunctionDef) and not _is_cm(st):
            process_function(st, {})
        elif isinstance(st, ast.ClassDef):
            cls_cms = {x.name: x for x in st.body if isinstance(x, ast.FunctionDef) and _is_cm(x)}
            for x in st.body:
                if isinstance(x, ast.FunctionDef) and not _is_cm(x):
                    process_function(x, cls_cms)
            # drop the managers whose every mention was a lowered use
            for name, g in list(cls_cms.items()):
                if ("m", id(cls_cms), name) not in used_lowered:
                    continue
                still = any(isinstance(y, ast.Attribute) and y.attr == name for y in ast.walk(tree) if y is not g) or \
                    any(isinstance(y, ast.Name) and y.id == name for y in ast.walk(tree))
                if not still:
                    st.body.remove(g)
    for name, g in list(mod_cms.items()):
        if ("f", name) in used_lowered and not any(isinstance(y, ast.Name) and y.id == name for y in ast.walk(tree)):
            tree.body.remove(g)
    return tree
