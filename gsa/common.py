"""Shared plumbing: paths, obligations, known findings, evidence and violation records.

Every rule reports *obligations*: (rule id, instance, location, expected normal form, found
normal form, ok).  A property holds on the analysed tree iff every obligation is discharged
(or the refuted one is a listed open known finding).
"""
from __future__ import annotations

import hashlib
import json
import os
import sys
import time

VERIF = os.path.dirname(os.path.dirname(os.path.abspath(__file__)))
REPO = os.environ.get("GSA_REPO", "/repo")
PYPKG = "python/gherkin"


class AnalysisError(Exception):
    """The analyser cannot decide (vanished anchor, unsupported construct, floor undercut)."""


def repo_path(*parts: str) -> str:
    return os.path.join(REPO, *parts)


def read_text(rel: str) -> str:
    p = repo_path(rel)
    if not os.path.exists(p):
        raise AnalysisError(f"anchor file vanished: {rel}")
    with open(p, encoding="utf-8", newline="") as f:
        return f.read()


def sha256_file(rel: str) -> str:
    with open(repo_path(rel), "rb") as f:
        return hashlib.sha256(f.read()).hexdigest()


def short(x: object, n: int = 300) -> str:
    s = x if isinstance(x, str) else repr(x)
    return s if len(s) <= n else s[: n - 3] + "..."


class Obligation:
    __slots__ = ("rule", "instance", "ok", "file", "line", "function", "expected", "found", "note")

    def __init__(self, rule, instance, ok, file=None, line=None, function=None, expected=None,
                 found=None, note=None):
        self.rule = rule
        self.instance = instance
        self.ok = bool(ok)
        self.file = file
        self.line = line
        self.function = function
        self.expected = expected
        self.found = found
        self.note = note

    def as_dict(self) -> dict:
        d = {"rule": self.rule, "instance": self.instance, "ok": self.ok}
        for k in ("file", "line", "function", "expected", "found", "note"):
            v = getattr(self, k)
            if v is not None:
                d[k] = v if isinstance(v, (int, str, bool)) else short(v, 600)
        return d

    def key(self) -> tuple:
        return (self.rule, self.function or "", self.instance)


class Report:
    """Collects obligations of one property run."""

    def __init__(self, prop: str, tier: str) -> None:
        self.prop = prop
        self.tier = tier
        self.obs: list[Obligation] = []
        self.files: set[str] = set()
        self.functions: set[str] = set()
        self.counts: dict[str, int] = {}
        self.floors: dict[str, tuple[int, int]] = {}
        self.notes: list[str] = []
        self.extra: dict[str, object] = {}

    # -- recording ------------------------------------------------------------------
    def ob(self, rule: str, instance: str, ok: bool, **kw) -> bool:
        self.obs.append(Obligation(rule, instance, ok, **kw))
        return bool(ok)

    def eq(self, rule: str, instance: str, expected, found, **kw) -> bool:
        return self.ob(rule, instance, expected == found, expected=expected, found=found, **kw)

    def used_file(self, rel: str) -> None:
        self.files.add(rel)

    def used_function(self, qn: str) -> None:
        self.functions.add(qn)

    def floor(self, name: str, count: int, minimum: int) -> None:
        """Instance floor: a rule that matches fewer sites than confirmed by hand is broken."""
        self.floors[name] = (count, minimum)
        self.counts[name] = count
        if count < minimum and any(not o.ok for o in self.obs):
            # obligations were already refuted: the violation is reported as such (exit 1); that a rule then also finds fewer
            # sites than usual is the same change seen twice, not a broken analysis
            self.notes.append(f"instance floor undercut after refuted obligations: {name} matched {count} site(s), expected >= {minimum}")
            return
        if count < minimum:
            raise AnalysisError(
                f"instance floor undercut: {name} matched {count} site(s), expected >= {minimum}"
            )

    def note(self, text: str) -> None:
        self.notes.append(text)

    # -- results --------------------------------------------------------------------
    def refuted(self) -> list[Obligation]:
        return [o for o in self.obs if not o.ok]


def load_known_findings() -> list[dict]:
    p = os.path.join(VERIF, "known_findings.json")
    if not os.path.exists(p):
        return []
    with open(p, encoding="utf-8") as f:
        return json.load(f)


def match_known(ob: Obligation, prop: str, findings: list[dict]) -> dict | None:
    for f in findings:
        if f.get("status") != "open":
            continue
        if f.get("property") != prop:
            continue
        if f.get("rule") != ob.rule:
            continue
        if f.get("function") and f.get("function") != (ob.function or ""):
            continue
        if f.get("construct") and f.get("construct") != ob.instance:
            continue
        return f
    return None


def write_violation(prop: str, ob: Obligation, tree_digest: str) -> str:
    d = os.path.join(VERIF, "evidence", "violations")
    os.makedirs(d, exist_ok=True)
    rec = {"property": prop, "tree_digest": tree_digest, **ob.as_dict()}
    h = hashlib.sha256(json.dumps([prop, ob.rule, ob.function, ob.instance]).encode()).hexdigest()[:12]
    p = os.path.join(d, f"{prop}-{h}.json")
    with open(p, "w", encoding="utf-8") as f:
        json.dump(rec, f, indent=1, ensure_ascii=False)
    return p


def write_evidence(prop: str, tier: str, level: str, rep: Report, wall: float, nviol: int,
                   explanation: str, assumptions: list[str], extra_cov: dict | None = None,
                   known: list[str] | None = None) -> str:
    os.makedirs(os.path.join(VERIF, "evidence"), exist_ok=True)
    obs = rep.obs
    rules = sorted({o.rule for o in obs})
    distinct = len({o.key() for o in obs})
    samples = []
    seen_rules: dict[str, int] = {}
    for o in obs:  # up to 3 obligations per rule, written out
        if seen_rules.get(o.rule, 0) < 3:
            seen_rules[o.rule] = seen_rules.get(o.rule, 0) + 1
            samples.append(o.as_dict())
    per_rule = {}
    for o in obs:
        r = per_rule.setdefault(o.rule, {"obligations": 0, "discharged": 0})
        r["obligations"] += 1
        r["discharged"] += 1 if o.ok else 0
    cov = {
        "explanation": explanation,
        "obligations": len(obs),
        "discharged": sum(1 for o in obs if o.ok),
        "evaluations": len(obs),
        "distinct_nontrivial": distinct,
        "rule": "one obligation per (rule, anchored construct / table row / call site) found in /repo's "
                "working tree; non-trivial = the obligation matched a concrete site and its verdict is "
                "computed from that site's normal form; distinct = distinct (rule, function, instance) keys",
        "rules": rules,
        "per_rule": per_rule,
        "samples": samples[:60],
        "files": [{"path": p, "sha256": sha256_file(p)} for p in sorted(rep.files)
                  if os.path.exists(repo_path(p))],
        "functions_analysed": sorted(rep.functions),
        "instance_floors": {k: {"matched": v[0], "minimum": v[1]} for k, v in rep.floors.items()},
        "counts": rep.counts,
        "notes": rep.notes,
        "checker_cmd": f"./check {prop} --tier {tier}",
        "trusted_base": ["CPython ast module", "gsa analyser (self-tested by /verif/selftest)"],
        "exhaustive": True,
        "known_findings_printed": known or [],
    }
    cov.update(rep.extra)
    if extra_cov:
        cov.update(extra_cov)
    ev = {
        "property_id": prop,
        "tier": tier,
        "seed": int(os.environ.get("VERIF_SEED", "0") or 0),
        "level": level,
        "coverage": cov,
        "assumptions": assumptions,
        "wall_s": round(wall, 3),
        "violations": nviol,
    }
    p = os.path.join(VERIF, "evidence", f"{prop}.json")
    tmp = p + ".tmp"
    with open(tmp, "w", encoding="utf-8") as f:
        json.dump(ev, f, indent=1, ensure_ascii=False)
    os.replace(tmp, p)
    return p
